#!/usr/bin/env python
# coding: utf-8
"""
Demo / oracle for property C17:

  A block transfer requested without a block size, an operation code without
  a fixed CDB length, an unknown PERSISTENT RESERVE IN service action, an
  EXTENDED COPY descriptor with unknown keys or type codes, and an
  inconsistent TransportID are each refused with their specific error.  In
  all these cases no command reaches the device and no partially initialised
  command object is returned.

Run as:
    cd /tmp/seed/C17v && PYTHONPATH=/tmp/seed/C17v /venv/bin/python SEED/demo.py

Prints PASS and exits 0 when everything holds.  `--record` prints the golden
table for the accepted (positive) cases instead of comparing it.
"""
import copy
import re
import sys
import types

# The library core does not need the external bindings, but the device modules
# do; install tiny fakes so that nothing below can trip over a missing import.
for _name in ("sgio", "iscsi", "linux_nvme_ioctl"):
    if _name not in sys.modules:
        try:
            __import__(_name)
        except Exception:  # pragma: no cover - depends on the environment
            sys.modules[_name] = types.ModuleType(_name)

from pyscsi.pyscsi import scsi_cdb_persistentreservein as prin_module
from pyscsi.pyscsi.scsi import SCSI
from pyscsi.pyscsi.scsi_cdb_atapassthrough12 import ATAPassThrough12
from pyscsi.pyscsi.scsi_cdb_atapassthrough16 import ATAPassThrough16
from pyscsi.pyscsi.scsi_cdb_extended_copy_spc4 import ExtendedCopy as ExtendedCopy4
from pyscsi.pyscsi.scsi_cdb_extended_copy_spc5 import ExtendedCopy as ExtendedCopy5
from pyscsi.pyscsi.scsi_cdb_inquiry import Inquiry
from pyscsi.pyscsi.scsi_cdb_persistentreservein import (
    PersistentReserveIn,
    PersistentReserveInReadFullStatus,
    PersistentReserveInReadKeys,
    PersistentReserveInReadReservation,
    PersistentReserveInReportCapabilities,
)
from pyscsi.pyscsi.scsi_cdb_persistentreserveout import PersistentReserveOut
from pyscsi.pyscsi.scsi_cdb_read10 import Read10
from pyscsi.pyscsi.scsi_cdb_read12 import Read12
from pyscsi.pyscsi.scsi_cdb_read16 import Read16
from pyscsi.pyscsi.scsi_cdb_testunitready import TestUnitReady
from pyscsi.pyscsi.scsi_cdb_write10 import Write10
from pyscsi.pyscsi.scsi_cdb_write12 import Write12
from pyscsi.pyscsi.scsi_cdb_write16 import Write16
from pyscsi.pyscsi.scsi_cdb_writesame10 import WriteSame10
from pyscsi.pyscsi.scsi_cdb_writesame16 import WriteSame16
from pyscsi.pyscsi.scsi_command import SCSICommand
from pyscsi.pyscsi.scsi_enum_command import OpCode, mmc, sbc, smc, spc, ssc
from pyscsi.pyscsi.scsi_enum_inquiry import ASSOCIATION, CODE_SET, DESIGNATOR, NAA
from pyscsi.pyscsi.scsi_enum_persistentreserve import PROTOCOL_ID
from pyscsi.utils.enum import Enum

RECORD = "--record" in sys.argv[1:]
FAILURES = []
CHECKS = [0]
RECORDED = {}

# ----------------------------------------------------------------------------
# infrastructure
# ----------------------------------------------------------------------------


class Dev(object):
    """A device that only records what reaches it."""

    def __init__(self, opcodes):
        self.opcodes = opcodes
        self.executed = []
        self.closed = 0

    def execute(self, cmd, en_raw_sense=False):
        self.executed.append((cmd, en_raw_sense))

    def open(self):
        pass

    def close(self):
        self.closed += 1


def make(opcodes=sbc, blocksize=0):
    """Return (SCSI, Dev); the initial INQUIRY of SCSI() is checked and dropped."""
    dev = Dev(opcodes)
    s = SCSI(dev, blocksize)
    check(len(dev.executed) == 1, "SCSI() sends exactly one INQUIRY")
    check(isinstance(dev.executed[0][0], Inquiry), "SCSI() first command is INQUIRY")
    check(dev.opcodes is sbc, "all-zero INQUIRY data selects the sbc opcodes")
    del dev.executed[:]
    dev.opcodes = opcodes
    check(s.blocksize == blocksize, "blocksize getter returns constructor value")
    return s, dev


def check(cond, what):
    CHECKS[0] += 1
    if not cond:
        FAILURES.append(what)
        print("FAIL: %s" % what)


def class_state():
    """
    The part of the process-wide SCSICommand state that is observable through
    the public static marshalling helpers.
    """
    return (
        len(SCSICommand.marshall_cdb({})),
        tuple(sorted(SCSICommand.unmarshall_cdb(bytearray(64)).keys())),
    )


def prime():
    """Put the class-wide state into a known configuration (a 6 byte INQUIRY)."""
    Inquiry(sbc.INQUIRY)
    st = class_state()
    check(st[0] == 6 and "evpd" in st[1], "priming with INQUIRY works")
    return st


OWNERS = [
    SCSICommand,
    Read10,
    Read12,
    Read16,
    Write10,
    Write12,
    Write16,
    WriteSame10,
    WriteSame16,
    ATAPassThrough12,
    ATAPassThrough16,
    ExtendedCopy4,
    ExtendedCopy5,
    PersistentReserveIn,
    PersistentReserveOut,
    Inquiry,
    TestUnitReady,
]


def describe(exc):
    for owner in OWNERS:
        for attr in ("MissingBlocksizeException", "OpcodeException", "CommandNotImplemented"):
            if type(exc) is getattr(owner, attr):
                return "%s.%s" % (owner.__name__, attr)
    return type(exc).__name__


def refused(what, fn, expected_type, message=None, dev=None, pattern=None):
    """
    fn() has to raise exactly `expected_type` (a string produced by
    describe()), with exactly `message`, un-chained, and nothing may have been
    executed on `dev`.  Returns the exception.
    """
    marker = object()
    result = marker
    caught = None
    try:
        result = fn()
    except BaseException as e:  # noqa
        caught = e
    check(caught is not None, "%s: is refused (returned %r)" % (what, result))
    check(result is marker, "%s: nothing is returned" % what)
    if caught is None:
        return None
    got = describe(caught)
    check(got == expected_type, "%s: raises %s (got %s: %s)" % (what, expected_type, got, caught))
    if message is not None:
        check(str(caught) == message, "%s: message %r (got %r)" % (what, message, str(caught)))
    if pattern is not None:
        check(
            re.match(pattern, str(caught)) is not None,
            "%s: message matches %r (got %r)" % (what, pattern, str(caught)),
        )
    check(caught.__cause__ is None, "%s: exception has no __cause__" % what)
    check(caught.__context__ is None, "%s: exception has no __context__" % what)
    if dev is not None:
        check(dev.executed == [], "%s: nothing reached the device" % what)
    return caught


def golden(name, value):
    """Compare a positive result with the table recorded on the original code."""
    if isinstance(value, (bytes, bytearray)):
        value = bytes(value).hex()
    if RECORD:
        RECORDED[name] = value
        return
    if name not in GOLDEN:
        check(False, "%s: no golden value" % name)
        return
    check(GOLDEN[name] == value, "%s: expected %r got %r" % (name, GOLDEN[name], value))


def accepted(name, dev, cmd, cls, raw=False):
    """A command that went through: executed once, fully initialised."""
    check(type(cmd) is cls, "%s: returns a %s" % (name, cls.__name__))
    check(len(dev.executed) == 1, "%s: executed exactly once" % name)
    if dev.executed:
        check(dev.executed[0][0] is cmd, "%s: the returned object is what was executed" % name)
        check(dev.executed[0][1] is raw, "%s: en_raw_sense is %r" % (name, raw))
    golden(name + "/cdb", cmd.cdb)
    golden(name + "/dataout", cmd.dataout)
    golden(name + "/datain_len", len(cmd.datain))
    check(cmd.result is not None, "%s: result initialised" % name)
    del dev.executed[:]


MBE = "SCSICommand.MissingBlocksizeException"
OPE = "SCSICommand.OpcodeException"

# ----------------------------------------------------------------------------
# 1. block transfers without a block size
# ----------------------------------------------------------------------------


def part_blocksize():
    data = bytearray(b"\xa5" * 512)

    # the exception classes are per command class; it is the SCSICommand one
    check(
        Read10.MissingBlocksizeException is not SCSICommand.MissingBlocksizeException,
        "per-class exception objects are distinct",
    )
    check(
        not issubclass(SCSICommand.MissingBlocksizeException, Read10.MissingBlocksizeException),
        "per-class exception objects are unrelated",
    )

    facade_calls = {
        "read10": lambda s: s.read10(0, 1),
        "read10-kw": lambda s: s.read10(lba=1 << 20, tl=9, rdprotect=3, dpo=1, fua=1, rarc=1, group=5),
        "read10-tl0": lambda s: s.read10(0, 0),
        "read12": lambda s: s.read12(0, 1),
        "read16": lambda s: s.read16(0, 1),
        "write10": lambda s: s.write10(0, 1, data),
        "write10-kw": lambda s: s.write10(7, 2, data + data, wrprotect=1, dpo=1, fua=1, group=31),
        "write10-nodata": lambda s: s.write10(0, 0, None),
        "write12": lambda s: s.write12(0, 1, data),
        "write16": lambda s: s.write16(0, 1, data),
        "writesame10": lambda s: s.writesame10(0, 1, data),
        "writesame16": lambda s: s.writesame16(0, 1, data),
        "writesame16-ndob0": lambda s: s.writesame16(5, 100, data, ndob=0, unmap=1, anchor=1),
        "writesame16-ndobNone": lambda s: s.writesame16(5, 100, data, ndob=None),
        "writesame16-ndobFalse": lambda s: s.writesame16(5, 100, None, ndob=False, group=3),
        "ata16": lambda s: s.atapassthrough16(4, 2, 1, 1, 1, 0, 0, 1, 0, 0x25),
        "ata16-tdir0": lambda s: s.atapassthrough16(6, 1, 1, 0, 1, 0, 3, 1, 0, 0x35, data=data),
        "ata16-tl3": lambda s: s.atapassthrough16(4, 3, 1, 1, 1, 0, 0, 1, 0, 0x25, extra_tl=4),
        "ata16-bs0": lambda s: s.atapassthrough16(4, 2, 1, 1, 1, 0, 0, 1, 0, 0x25, blocksize=0),
        "ata16-bsFalse": lambda s: s.atapassthrough16(4, 2, 1, 1, 1, 0, 0, 1, 0, 0x25, blocksize=False),
        "ata16-truthy": lambda s: s.atapassthrough16(4, 2, 7, 1, 9, 0, 0, 1, 0, 0x25),
        "ata12": lambda s: s.atapassthrough12(4, 2, 1, 1, 1, 0, 0, 1, 0, 0x25),
    }
    for blocksize in (0, False, 0.0):
        for name, call in sorted(facade_calls.items()):
            s, dev = make(sbc, blocksize)
            before = prime()
            what = "blocksize=%r %s" % (blocksize, name)
            refused(what, lambda: call(s), MBE, "", dev)
            check(class_state() == before, "%s: class-wide cdb state untouched" % what)
            check(s.blocksize == blocksize, "%s: facade blocksize unchanged" % what)

    # blocksize assigned through the property after construction
    s, dev = make(sbc, 512)
    s.blocksize = 0
    check(s.blocksize == 0, "blocksize setter")
    refused("blocksize reset to 0: read10", lambda: s.read10(0, 1), MBE, "", dev)
    refused("blocksize reset to 0: write10", lambda: s.write10(0, 1, data), MBE, "", dev)
    refused("blocksize reset to 0: writesame16", lambda: s.writesame16(0, 1, data), MBE, "", dev)
    s.blocksize = 4096
    accepted("bs4096/read10", dev, s.read10(1, 2), Read10)

    # constructors directly
    ctor = {
        "Read10": lambda bs: Read10(sbc.READ_10, bs, 0, 1),
        "Read10-kw": lambda bs: Read10(opcode=sbc.READ_10, blocksize=bs, lba=3, tl=4, group=1),
        "Write10": lambda bs: Write10(sbc.WRITE_10, bs, 0, 1, data),
        "Write10-kw": lambda bs: Write10(opcode=sbc.WRITE_10, blocksize=bs, lba=3, tl=4, data=data, fua=1),
        "WriteSame16": lambda bs: WriteSame16(sbc.WRITE_SAME_16, bs, 0, 1, data),
        "WriteSame16-ndob0": lambda bs: WriteSame16(sbc.WRITE_SAME_16, bs, 0, 1, data, ndob=0),
        "WriteSame16-ndob-empty": lambda bs: WriteSame16(sbc.WRITE_SAME_16, bs, 0, 1, data, ndob=[]),
        "ATA16": lambda bs: ATAPassThrough16(sbc.ATA_PASS_THROUGH_16, 4, 2, 1, 1, 1, 0, 0, 1, 0, 0x25, blocksize=bs),
        "ATA16-kw": lambda bs: ATAPassThrough16(
            opcode=sbc.ATA_PASS_THROUGH_16, protocal=4, t_length=1, byte_block=1, t_dir=0, t_type=1,
            off_line=0, fetures=2, count=0, lba=0, command=0x35, blocksize=bs, data=data,
        ),
    }
    for blocksize in (0, False, 0.0, -0.0):
        for name, build in sorted(ctor.items()):
            before = prime()
            what = "ctor %s blocksize=%r" % (name, blocksize)
            refused(what, lambda: build(blocksize), MBE, "")
            check(class_state() == before, "%s: class-wide cdb state untouched" % what)

    # even a bad opcode does not matter: the blocksize is looked at first
    bad = OpCode("BAD", 0x7F, {})
    refused("Read10 bad opcode + no blocksize", lambda: Read10(bad, 0, 0, 1), MBE, "")
    refused("Write10 bad opcode + no blocksize", lambda: Write10(bad, 0, 0, 1, data), MBE, "")
    refused("WriteSame16 bad opcode + no blocksize", lambda: WriteSame16(bad, 0, 0, 1, data), MBE, "")
    refused(
        "ATA16 bad opcode + no blocksize",
        lambda: ATAPassThrough16(bad, 4, 2, 1, 1, 1, 0, 0, 1, 0, 0x25),
        MBE,
        "",
    )

    # ---- accepted variants -------------------------------------------------
    s, dev = make(sbc, 512)
    accepted("bs512/read10", dev, s.read10(0x01020304, 3, rdprotect=1, dpo=1, fua=1, rarc=1, group=9), Read10)
    accepted("bs512/read10-tl0", dev, s.read10(0, 0), Read10)
    accepted("bs512/write10", dev, s.write10(0x0A0B0C0D, 1, data, wrprotect=2, dpo=1, fua=1, group=4), Write10)
    accepted("bs512/writesame16", dev, s.writesame16(0x0102030405060708, 77, data, wrprotect=1, anchor=1, unmap=1, group=2), WriteSame16)
    accepted("bs512/writesame16-ndob", dev, s.writesame16(9, 8, None, ndob=1), WriteSame16)
    accepted("bs512/ata16", dev, s.atapassthrough16(4, 2, 1, 1, 1, 0, 0, 2, 0x010203040506, 0x25, blocksize=4096), ATAPassThrough16, raw=True)

    # no blocksize is fine when no block size is needed
    s, dev = make(sbc, 0)
    accepted("bs0/writesame16-ndob1", dev, s.writesame16(1, 2, None, ndob=1, anchor=1, group=7), WriteSame16)
    accepted("bs0/writesame16-ndobTrue", dev, s.writesame16(1, 2, data, ndob=True), WriteSame16)
    cmd = s.writesame16(1, 2, data, ndob=2)
    check(cmd.dataout == bytearray(0), "ndob: the data argument is ignored")
    accepted("bs0/writesame16-ndob2", dev, cmd, WriteSame16)
    # ATA: 512 byte units, bytes, or no data at all
    accepted("bs0/ata16-512", dev, s.atapassthrough16(4, 2, 1, 1, 0, 0, 0, 3, 0, 0x20), ATAPassThrough16, raw=True)
    accepted("bs0/ata16-bytes", dev, s.atapassthrough16(4, 1, 0, 1, 1, 0, 16, 0, 0, 0xEC), ATAPassThrough16, raw=True)
    accepted("bs0/ata16-bytes-ttype0", dev, s.atapassthrough16(4, 2, 0, 0, 0, 0, 0, 7, 0, 0x30, data=bytearray(7)), ATAPassThrough16, raw=True)
    accepted("bs0/ata16-nodata", dev, s.atapassthrough16(3, 0, 1, 1, 1, 0, 0, 0, 0, 0xE5), ATAPassThrough16, raw=True)
    accepted("bs0/ata16-nodata2", dev, s.atapassthrough16(3, 0, 0, 0, 0, 1, 0xD0, 1, 0xC24F00, 0xB0, ck_cond=1, device=0xA0, control=1, extend=0), ATAPassThrough16, raw=True)
    accepted("bs0/ata16-tl3-extra", dev, s.atapassthrough16(4, 3, 1, 1, 0, 0, 0, 1, 0, 0x25, extra_tl=4), ATAPassThrough16, raw=True)
    accepted("bs0/ata16-own-blocksize", dev, s.atapassthrough16(4, 2, 1, 1, 1, 0, 0, 2, 5, 0x25, blocksize=520), ATAPassThrough16, raw=True)
    accepted("bs0/ata16-datain-preset", dev, s.atapassthrough16(4, 2, 1, 1, 1, 0, 0, 1, 5, 0x25, blocksize=8, data=bytearray(b"12345678")), ATAPassThrough16, raw=True)
    for lba in (0, 1, 0x0102030405, 0xA1B2C3D4E5F6, 0xFFFFFFFFFFFF, 0x1A1B2C3D4E5F6, 1 << 48, (1 << 64) - 1):
        golden("ata16-lba/%x" % lba, ATAPassThrough16.scsi_to_ata_lba_convert(lba))


# ----------------------------------------------------------------------------
# 2. operation codes without a fixed CDB length
# ----------------------------------------------------------------------------


def expected_cdb_len(value):
    if 0x00 <= value <= 0x1F:
        return 6
    if 0x20 <= value <= 0x5F:
        return 10
    if 0x80 <= value <= 0x9F:
        return 16
    if 0xA0 <= value <= 0xBF:
        return 12
    return None


def part_opcode():
    data = bytearray(512)
    values = list(range(0, 256)) + [256, 257, 0x17F, 0x1000, 1 << 40, -1, -32, -128, -256, True, False]
    for value in values:
        op = OpCode("OP_%s" % value, value, {})
        want = expected_cdb_len(value)
        if want is None:
            before = prime()
            refused("init_cdb(%r)" % value, lambda: SCSICommand.init_cdb(op), OPE, "")
            check(class_state() == before, "init_cdb(%r): no state change" % value)
            refused("SCSICommand(%r)" % value, lambda: SCSICommand(op, 0, 0), OPE, "")
            # a plain SCSICommand re-installs the bits it finds; the cdb is still the old one
            check(class_state() == before, "SCSICommand(%r): cdb untouched" % value)
            prime()
            refused("TestUnitReady(%r)" % value, lambda: TestUnitReady(op), OPE, "")
            check(class_state()[0] == 6, "TestUnitReady(%r): cdb untouched" % value)
            refused("Inquiry(%r)" % value, lambda: Inquiry(op), OPE, "")
            refused("Read10(%r)" % value, lambda: Read10(op, 512, 0, 1), OPE, "")
            refused("Write10(%r)" % value, lambda: Write10(op, 512, 0, 1, data), OPE, "")
            refused("WriteSame16(%r)" % value, lambda: WriteSame16(op, 512, 0, 1, data), OPE, "")
            refused("WriteSame16(%r, ndob)" % value, lambda: WriteSame16(op, 0, 0, 1, None, ndob=1), OPE, "")
            refused(
                "ATA16(%r)" % value,
                lambda: ATAPassThrough16(op, 3, 0, 0, 0, 0, 0, 0, 0, 0, 0xE5),
                OPE,
                "",
            )
            refused("ExtendedCopy4(%r)" % value, lambda: ExtendedCopy4(op), OPE, "")
            refused("ExtendedCopy5(%r)" % value, lambda: ExtendedCopy5(op), OPE, "")
            refused("PRIN(%r)" % value, lambda: PersistentReserveIn(op, 0), OPE, "")
        else:
            cdb = SCSICommand.init_cdb(op)
            check(type(cdb) is bytearray and cdb == bytearray(want), "init_cdb(%r) -> %d zero bytes" % (value, want))
            cmd = SCSICommand(op, 3, 5)
            check(cmd.opcode is op, "SCSICommand(%r).opcode" % value)
            check(len(cmd.cdb) == want, "SCSICommand(%r).cdb length" % value)
            check(cmd.dataout == bytearray(3) and cmd.datain == bytearray(5), "SCSICommand(%r) buffers" % value)
            check(cmd.result == {}, "SCSICommand(%r).result" % value)
            check(cmd.pagecode is None and cmd.sense is None and cmd.raw_sense_data is None, "SCSICommand(%r) defaults" % value)
            check(repr(cmd) == "SCSICommand", "repr")

    # all opcodes the library knows about
    for name, enum in (("spc", spc), ("sbc", sbc), ("ssc", ssc), ("smc", smc), ("mmc", mmc)):
        for key in enum.keys:
            op = getattr(enum, key)
            want = expected_cdb_len(op.value)
            if want is None:
                refused("%s.%s" % (name, key), lambda: SCSICommand(op, 0, 0), OPE, "")
            else:
                check(len(SCSICommand(op, 0, 0).cdb) == want, "%s.%s cdb length" % (name, key))
    refused("sbc.SBC_OPCODE_7F", lambda: TestUnitReady(sbc.SBC_OPCODE_7F), OPE, "")

    # through the facade: the device's opcode table is what counts
    for value in (0x60, 0x7F, 0xC0, 0xFF, 0x100, -5):
        odd = Enum(
            {
                "INQUIRY": sbc.INQUIRY,
                "READ_10": OpCode("READ_10", value, {}),
                "WRITE_10": OpCode("WRITE_10", value, {}),
                "WRITE_SAME_16": OpCode("WRITE_SAME_16", value, {}),
                "ATA_PASS_THROUGH_16": OpCode("ATA_PASS_THROUGH_16", value, {}),
                "TEST_UNIT_READY": OpCode("TEST_UNIT_READY", value, {}),
                "EXTENDED_COPY": OpCode("EXTENDED_COPY", value, {}),
                "PERSISTENT_RESERVE_IN": OpCode("PERSISTENT_RESERVE_IN", value, {"READ_KEYS": 0, "READ_RESERVATION": 1, "REPORT_CAPABILITIES": 2, "READ_FULL_STATUS": 3}),
                "PERSISTENT_RESERVE_OUT": OpCode("PERSISTENT_RESERVE_OUT", value, {"REGISTER": 0, "REGISTER_AND_MOVE": 7}),
            }
        )
        s, dev = make(odd, 512)
        w = "facade opcode %#x: " % value
        refused(w + "read10", lambda: s.read10(0, 1), OPE, "", dev)
        refused(w + "write10", lambda: s.write10(0, 1, data), OPE, "", dev)
        refused(w + "writesame16", lambda: s.writesame16(0, 1, data), OPE, "", dev)
        refused(w + "writesame16 ndob", lambda: s.writesame16(0, 1, None, ndob=1), OPE, "", dev)
        refused(w + "ata16", lambda: s.atapassthrough16(3, 0, 0, 0, 0, 0, 0, 0, 0, 0xE5), OPE, "", dev)
        refused(w + "testunitready", lambda: s.testunitready(), OPE, "", dev)
        refused(w + "extendedcopy4", lambda: s.extendedcopy4(), OPE, "", dev)
        refused(w + "extendedcopy5", lambda: s.extendedcopy5(), OPE, "", dev)
        for sa in (0, 1, 2, 3):
            refused(w + "persistentreservein(%d)" % sa, lambda: s.persistentreservein(sa), OPE, "", dev)
        # service action is looked at before the opcode
        refused(w + "persistentreservein(9)", lambda: s.persistentreservein(9), "ValueError", "Invalid Service Action", dev)
        refused(w + "persistentreserveout", lambda: s.persistentreserveout(0), OPE, "", dev)


# ----------------------------------------------------------------------------
# 3. PERSISTENT RESERVE IN service actions
# ----------------------------------------------------------------------------


def part_prin():
    classes = {
        0: PersistentReserveInReadKeys,
        1: PersistentReserveInReadReservation,
        2: PersistentReserveInReportCapabilities,
        3: PersistentReserveInReadFullStatus,
    }
    unknown = list(range(4, 70)) + [0x1F, 0x20, 0xFF, 0x100, 1 << 33, -1, -2, -3, -4, None, "READ_KEYS", "0", "", b"\x00", 0.5, 2.5, (0,), float("nan")]
    for opcodes_name, opcodes in (("spc", spc), ("sbc", sbc), ("ssc", ssc), ("smc", smc), ("mmc", mmc)):
        if not hasattr(opcodes, "PERSISTENT_RESERVE_IN"):
            continue
        s, dev = make(opcodes, 512)
        for sa in unknown:
            before = prime()
            w = "%s persistentreservein(%r)" % (opcodes_name, sa)
            refused(w, lambda: s.persistentreservein(sa), "ValueError", "Invalid Service Action", dev)
            refused(w + " kw", lambda: s.persistentreservein(service_action=sa, alloclen=16), "ValueError", "Invalid Service Action", dev)
            check(class_state() == before, w + ": class-wide state untouched")
        for sa, cls in sorted(classes.items()):
            for variant in (sa, float(sa), bool(sa) if sa < 2 else sa):
                name = "prin/%d" % sa
                accepted(name, dev, s.persistentreservein(variant), cls)
                accepted(name + "/alloclen", dev, s.persistentreservein(service_action=variant, alloclen=300), cls)
    s, dev = make(spc, 0)
    cmd = s.persistentreservein(0)
    check(cmd.result == {"pr_generation": 0, "reservation_keys": []}, "READ KEYS result")
    cmd = s.persistentreservein(1)
    check(cmd.result == {"pr_generation": 0}, "READ RESERVATION result")
    cmd = s.persistentreservein(2)
    check(cmd.result == {}, "REPORT CAPABILITIES result")
    cmd = s.persistentreservein(3)
    check(cmd.result == {"pr_generation": 0, "full_status": []}, "READ FULL STATUS result")
    del dev.executed[:]
    # unexpected keyword arguments: the READ xxx classes swallow them
    accepted("prin/0/extra-kw", dev, s.persistentreservein(0, alloclen=8, foo=1), PersistentReserveInReadKeys)
    # names stay importable from both modules
    import pyscsi.pyscsi.scsi as scsi_module

    for cls in list(classes.values()) + [PersistentReserveIn]:
        check(getattr(scsi_module, cls.__name__) is cls, "scsi re-exports %s" % cls.__name__)
        check(cls.__name__ in prin_module.__all__, "__all__ lists %s" % cls.__name__)
        check(cls.__module__ == "pyscsi.pyscsi.scsi_cdb_persistentreservein", "%s lives in its module" % cls.__name__)
    check(sorted(prin_module.__all__) == sorted(c.__name__ for c in list(classes.values()) + [PersistentReserveIn]), "__all__ unchanged")


# ----------------------------------------------------------------------------
# 4. EXTENDED COPY descriptors
# ----------------------------------------------------------------------------

KEYMSG = r"^Invalid key supplied: (\S*) \(should be one of \{(.*)\}\)$"


def key_error_ok(what, exc, provided, valid):
    if exc is None:
        return
    m = re.match(KEYMSG, str(exc))
    check(m is not None, "%s: message shape (%s)" % (what, exc))
    if m is None:
        return
    check(m.group(1) in provided, "%s: names one of the supplied keys" % what)
    listed = sorted(x.strip().strip("'") for x in m.group(2).split(","))
    check(listed == sorted(valid), "%s: lists the valid keys" % what)


def part_xcopy():
    naa = {
        "naa": NAA.IEEE_REGISTERED_EXTENDED,
        "ieee_company_id": 0x589CFC,
        "vendor_specific_identifier": 0x00000C44,
        "vendor_specific_identifier_extension": 0xC482CC288FBC0D75,
    }

    def variants():
        # (tag, class, facade name, list keyword, parameter keyword, descriptor name suffix, id-key infix)
        yield ("x4", ExtendedCopy4, "extendedcopy4", "target_descriptor_list", "target_descriptor_parameters", "Identification descriptor target descriptor", "target", ExtendedCopy4.marshall_target)
        yield ("x5", ExtendedCopy5, "extendedcopy5", "cscd_descriptor_list", "cscd_descriptor_parameters", "Identification Descriptor CSCD descriptor", "cscd", ExtendedCopy5.marshall_cscd)

    for tag, cls, facade, list_kw, param_kw, ident_name, infix, marshall_one in variants():
        header_keys = ["descriptor_type_code", "peripheral_device_type", "lu_id_type", "relative_initiator_port_identifier"]
        valid_target_keys = header_keys + [param_kw, "device_type_specific_parameters"]
        type_codes = cls._target_descriptor_type_codes if tag == "x4" else cls._cscd_descriptor_type_codes

        def good_target(**over):
            d = {
                "descriptor_type_code": 0xE4,
                "peripheral_device_type": 0,
                param_kw: {
                    "association": ASSOCIATION.ASSOCIATED_WITH_LUN,
                    "code_set": CODE_SET.BINARY,
                    "designator_type": DESIGNATOR.NAA,
                    "designator": dict(naa),
                },
                "device_type_specific_parameters": {"disk_block_length": 512},
            }
            d.update(over)
            return d

        def good_segment(**over):
            d = {
                "descriptor_type_code": 0x02,
                "dc": 1,
                "block_device_number_of_blocks": 4,
                "source_block_device_logical_block_address": 1,
                "destination_block_device_logical_block_address": 10,
                "source_%s_descriptor_id" % infix: 0,
                "destination_%s_descriptor_id" % infix: 1,
            }
            d.update(over)
            return d

        def expect_state():
            # SCSICommand.__init__ ran (16 byte cdb, the EXTENDED COPY fields) before the payload was built
            st = class_state()
            return st[0] == 16 and "parameter_list_length" in st[1]

        def both_ways(what, exc_type, message, targets=(), segments=(), pattern=None):
            """refused through the facade and through the constructor"""
            s, dev = make(sbc, 0)
            prime()
            t1, s1 = copy.deepcopy(list(targets)), copy.deepcopy(list(segments))
            e = refused(
                "%s %s (facade)" % (tag, what),
                lambda: getattr(s, facade)(**{list_kw: t1, "segment_descriptor_list": s1}),
                exc_type,
                message,
                dev,
                pattern,
            )
            check(expect_state(), "%s %s: class-wide state is that of EXTENDED COPY" % (tag, what))
            prime()
            t2, s2 = copy.deepcopy(list(targets)), copy.deepcopy(list(segments))
            refused(
                "%s %s (ctor)" % (tag, what),
                lambda: cls(sbc.EXTENDED_COPY, **{list_kw: t2, "segment_descriptor_list": s2}),
                exc_type,
                message,
                None,
                pattern,
            )
            check(expect_state(), "%s %s: class-wide state is that of EXTENDED COPY (ctor)" % (tag, what))
            return e

        # ---- unknown keys in a target/CSCD descriptor --------------------------
        other_kw = "cscd_descriptor_parameters" if tag == "x4" else "target_descriptor_parameters"
        for bad_key in ("bogus", "descriptor_type", "Descriptor_Type_Code", "pad", "disk_block_length", other_kw, "", "designator"):
            only = {bad_key: 1}
            e = both_ways("target only unknown key %r" % bad_key, "ValueError", None, [only], pattern=KEYMSG)
            key_error_ok("%s only %r" % (tag, bad_key), e, [bad_key], valid_target_keys)
            if e is not None:
                check(str(e).startswith("Invalid key supplied: %s (should be one of " % bad_key), "%s: single key is named (%r)" % (tag, bad_key))
            mixed = good_target(**{bad_key: 1})
            e = both_ways("target extra unknown key %r" % bad_key, "ValueError", None, [mixed], pattern=KEYMSG)
            key_error_ok("%s extra %r" % (tag, bad_key), e, list(mixed.keys()), valid_target_keys)
            # second descriptor bad, first good; and a bad segment that is never looked at
            e = both_ways(
                "second target unknown key %r" % bad_key,
                "ValueError",
                None,
                [good_target(), mixed],
                [{"descriptor_type_code": 0x99}],
                pattern=KEYMSG,
            )
            key_error_ok("%s second %r" % (tag, bad_key), e, list(mixed.keys()), valid_target_keys)
            e = refused("%s marshall one %r" % (tag, bad_key), lambda: marshall_one(dict(mixed)), "ValueError", None, None, KEYMSG)
            key_error_ok("%s marshall one %r" % (tag, bad_key), e, list(mixed.keys()), valid_target_keys)

        # ---- unknown descriptor type codes --------------------------------------
        unknown_codes = [0x00, 0x01, 0xDF, 0xFD, 0xFF, 0x100, -1, "nonsense", "", "block -> block", "Block", 0xE4 + 0.5, b"\xe4", (0xE4,)]
        if tag == "x4":
            unknown_codes += [0xEB, 0xEC, 0xFE, "ROD CSCD descriptor", "Identification Descriptor CSCD descriptor"]
        else:
            unknown_codes += ["Identification descriptor target descriptor", "IPv4 target descriptor"]
        for code in unknown_codes:
            msg = "Invalid descriptor_type_code provided: %s" % (code,)
            both_ways("target type code %r" % (code,), "ValueError", msg, [good_target(descriptor_type_code=code)])
            both_ways("second target type code %r" % (code,), "ValueError", msg, [good_target(), good_target(descriptor_type_code=code)], [good_segment()])
            refused("%s marshall one type code %r" % (tag, code), lambda: marshall_one(good_target(descriptor_type_code=code)), "ValueError", msg)
            refused("%s get_code_int %r" % (tag, code), lambda: cls.get_code_int("descriptor_type_code", {"descriptor_type_code": code}, type_codes), "ValueError", msg)
        missing = good_target()
        del missing["descriptor_type_code"]
        both_ways("target without type code", "ValueError", "Invalid descriptor_type_code provided: None", [missing])
        both_ways("target type code None", "ValueError", "Invalid descriptor_type_code provided: None", [good_target(descriptor_type_code=None)])
        both_ways("empty target", "ValueError", "Invalid descriptor_type_code provided: None", [{}])
        e = refused("%s unhashable type code" % tag, lambda: marshall_one(good_target(descriptor_type_code=[0xE4])), "TypeError")

        # ---- unknown peripheral device types ------------------------------------
        bad_pdt = [0x02, 0x06, 0x08, 0x0D, 0x0F, 0x1F, 0x20, -1, "Disk", "", "block"]
        if tag == "x5":
            bad_pdt += [0x04, 0x07, "Write-once device (e.g., some optical disks)"]
        for pdt in bad_pdt:
            msg = "Invalid peripheral_device_type provided: %s" % (pdt,)
            both_ways("target device type %r" % (pdt,), "ValueError", msg, [good_target(peripheral_device_type=pdt)])
            refused("%s get_code_int pdt %r" % (tag, pdt), lambda: cls.get_code_int("peripheral_device_type", {"peripheral_device_type": pdt}, cls._device_type_codes), "ValueError", msg)
        missing = good_target()
        del missing["peripheral_device_type"]
        both_ways("target without device type", "ValueError", "Invalid peripheral_device_type provided: None", [missing])
        # the type code is looked at before the device type
        both_ways("both bad", "ValueError", "Invalid descriptor_type_code provided: 0", [good_target(descriptor_type_code=0, peripheral_device_type=0x1F)])

        # ---- lu_id_type ----------------------------------------------------------
        for lu in (1, 2, 3, -1, True):
            both_ways("target lu_id_type %r" % lu, "ValueError", "Invalid lu_id_type provided: %d" % lu, [good_target(lu_id_type=lu)])

        # ---- known but unsupported type codes -------------------------------------
        for code, info in sorted(type_codes.items()):
            if code == 0xE4:
                continue
            if tag == "x4" and code == 0xE3:
                msg = "Invalid descriptor type code: %s" % code
                both_ways("target type code %#x" % code, "ValueError", msg, [good_target(descriptor_type_code=code)])
                both_ways("target type name %r" % info["name"], "ValueError", msg, [good_target(descriptor_type_code=info["name"])])
                continue
            if code == 0xE3:
                continue
            msg = "CSCD descriptor parameter not yet implemented for %s (%s)" % (hex(code), info["name"])
            both_ways("target type code %#x" % code, "NotImplementedError", msg, [good_target(descriptor_type_code=code)])
            both_ways("target type name %r" % info["name"], "NotImplementedError", msg, [good_target(descriptor_type_code=info["name"])])
        param_fn = cls.marshall_target_descriptor_parameters if tag == "x4" else cls.marshall_cscd_descriptor_parameters
        for code in (0x00, 0xE3, 0xDF, 0xED, 0xFD, 0xFF, 0x1E4, None, "x"):
            refused("%s descriptor parameters %r" % (tag, code), lambda: param_fn(code, bytearray(32), {}), "ValueError", "Invalid descriptor type code: %s" % (code,))
        if tag == "x4":
            for code in (0xEB, 0xEC, 0xFE):
                refused("x4 descriptor parameters %r (no table entry)" % code, lambda: param_fn(code, bytearray(32), {}), "KeyError", repr(code))

        # ---- segment descriptors ------------------------------------------------
        seg_codes = cls._segment_descriptor_type_codes
        unknown_seg = [0x1A, 0x20, 0xBD, 0xC0, 0xFF, 0x100, -1, "nonsense", "", "Block", None, 2.5]
        if tag == "x4":
            unknown_seg += [0x16, 0x17, 0xBE, 0xBF, "Verify CSCD"]
        else:
            unknown_seg += [0x11, 0x12, "space -> tape", "Verify"]
        for code in unknown_seg:
            msg = "Invalid descriptor_type_code provided: %s" % (code,)
            both_ways("segment type code %r" % (code,), "ValueError", msg, [good_target(), good_target()], [good_segment(descriptor_type_code=code)])
            both_ways("second segment type code %r" % (code,), "ValueError", msg, [], [good_segment(), good_segment(descriptor_type_code=code)])
            refused("%s marshall_segment %r" % (tag, code), lambda: cls.marshall_segment(good_segment(descriptor_type_code=code)), "ValueError", msg)
        seg = good_segment()
        del seg["descriptor_type_code"]
        both_ways("segment without type code", "ValueError", "Invalid descriptor_type_code provided: None", [], [seg])
        both_ways("empty segment", "ValueError", "Invalid descriptor_type_code provided: None", [], [{}])
        for code, info in sorted(seg_codes.items()):
            if code in (0x00, 0x0B, 0x01, 0x0C, 0x02, 0x0D):
                continue
            msg = "segment descriptor parameter not yet implemented for %s (%s)" % (hex(code), info["name"])
            both_ways("segment type code %#x" % code, "NotImplementedError", msg, [], [good_segment(descriptor_type_code=code)])
            if list(v["name"] for v in seg_codes.values()).count(info["name"]) == 1:
                both_ways("segment type name %r" % info["name"], "NotImplementedError", msg, [], [good_segment(descriptor_type_code=info["name"])])

        # unknown keys in a segment descriptor
        b2b = ["descriptor_type_code", "cat", "dc", "descriptor_length", "source_%s_descriptor_id" % infix, "destination_%s_descriptor_id" % infix, "block_device_number_of_blocks", "source_block_device_logical_block_address", "destination_block_device_logical_block_address"]
        if tag == "x5":
            b2b.append("fco")
        b2s = ["descriptor_type_code", "cat", "descriptor_length", "source_%s_descriptor_id" % infix, "destination_%s_descriptor_id" % infix, "stream_device_transfer_length", "block_device_number_of_blocks", "block_device_logical_block_address"]
        wrong_infix = "cscd" if tag == "x4" else "target"
        seg_bad_keys = ["bogus", "pad", "source_%s_descriptor_id" % wrong_infix, "stream_device_transfer_length", ""]
        if tag == "x4":
            seg_bad_keys.append("fco")
        for bad_key in seg_bad_keys:
            for code in (0x02, 0x0D, "block -> block", "Copy from block device to block device"):
                seg = good_segment(descriptor_type_code=code, **{bad_key: 1})
                e = both_ways("b2b segment %r unknown key %r" % (code, bad_key), "ValueError", None, [good_target()], [seg], pattern=KEYMSG)
                key_error_ok("%s b2b %r" % (tag, bad_key), e, list(seg.keys()) + ["descriptor_length"], b2b)
        for bad_key in ("bogus", "dc", "source_block_device_logical_block_address"):
            for code in (0x00, 0x0B, 0x01, 0x0C, "block -> stream", "stream -> block"):
                seg = {"descriptor_type_code": code, "cat": 1, bad_key: 1}
                e = both_ways("b2s segment %r unknown key %r" % (code, bad_key), "ValueError", None, [], [seg], pattern=KEYMSG)
                key_error_ok("%s b2s %r" % (tag, bad_key), e, list(seg.keys()) + ["descriptor_length"], b2s)
        e = refused("%s encode_segment_dict" % tag, lambda: cls.encode_segment_dict({"zzz": 1}, {"a": [0xFF, 0]}, 8), "ValueError", None, None, KEYMSG)
        key_error_ok("%s encode_segment_dict" % tag, e, ["zzz", "descriptor_length"], ["a"])
        # a segment that encodes to nothing
        s, dev = make(sbc, 0)

        # the caller's segment dict is normalised in place (documented quirk)
        seg = good_segment(descriptor_type_code="block -> block")
        golden(tag + "/marshall_segment/b2b", cls.marshall_segment(seg))
        check(seg["descriptor_type_code"] == 0x02 and seg["descriptor_length"] == 24, "%s: segment dict normalised in place" % tag)

        # ---- accepted -----------------------------------------------------------
        s, dev = make(sbc, 0)
        accepted(tag + "/empty", dev, getattr(s, facade)(), cls)
        accepted(tag + "/inline", dev, getattr(s, facade)(inline_data=bytearray.fromhex("deadbeef"), priority=3, list_identifier=0x34, sequential_striped=1), cls)
        vendor = good_target(
            descriptor_type_code=ident_name,
            relative_initiator_port_identifier=42,
            device_type_specific_parameters={"pad": 1},
        )
        vendor[param_kw] = {"designator_type": DESIGNATOR.VENDOR_SPECIFIC, "designator": {"vendor_specific": bytearray.fromhex("deadbeef")}}
        accepted(tag + "/vendor", dev, getattr(s, facade)(**{list_kw: [vendor]}), cls)
        full = {
            list_kw: [
                good_target(),
                good_target(peripheral_device_type="Stream or Tape", device_type_specific_parameters={"fixed": 1, "pad": 1, "stream_block_length": 0x010203}),
                good_target(peripheral_device_type=0x03, device_type_specific_parameters={"pad": 1}, lu_id_type=0),
                good_target(peripheral_device_type="CD/DVD device", device_type_specific_parameters={}),
                good_target(peripheral_device_type=0x0E),
            ],
            "segment_descriptor_list": [
                good_segment(),
                good_segment(descriptor_type_code="Copy from block device to block device", cat=1),
                good_segment(descriptor_type_code=0x0D),
                {"descriptor_type_code": 0x00, "cat": 1, "stream_device_transfer_length": 0x0A0B0C, "block_device_number_of_blocks": 3, "block_device_logical_block_address": 0x1122334455667788},
                {"descriptor_type_code": "stream -> block", "source_%s_descriptor_id" % infix: 1, "destination_%s_descriptor_id" % infix: 0},
                {"descriptor_type_code": 0x0B},
                {"descriptor_type_code": 0x0C},
            ],
            "inline_data": bytearray(b"inline"),
            "priority": 1,
        }
        if tag == "x4":
            full["nrcr"] = 1
            full[list_kw].append(good_target(peripheral_device_type=0x04))
            full[list_kw].append(good_target(peripheral_device_type=0x07))
        else:
            full.update(g_sense=1, immed=1, list_id_usage=2, list_identifier=0x01020304)
            full["segment_descriptor_list"].append(good_segment(fco=1))
        accepted(tag + "/full", dev, getattr(s, facade)(**copy.deepcopy(full)), cls)
        check(len(dev.executed) == 0, "bookkeeping")
        golden(tag + "/get_code_int/True", repr(cls.get_code_int("peripheral_device_type", {"peripheral_device_type": True}, cls._device_type_codes)))
        golden(tag + "/get_code_int/0.0", repr(cls.get_code_int("peripheral_device_type", {"peripheral_device_type": 0.0}, cls._device_type_codes)))
        golden(tag + "/get_code_int/Block", repr(cls.get_code_int("peripheral_device_type", {"peripheral_device_type": "Block"}, cls._device_type_codes)))
        golden(tag + "/get_code_int/Processor", repr(cls.get_code_int("k", {"k": "Processor device"}, cls._device_type_codes)))
        golden(tag + "/get_code_int/Stream", repr(cls.get_code_int("k", {"k": "Stream"}, cls._device_type_codes)))
        for code, info in sorted(seg_codes.items()):
            golden(tag + "/seg-name/%x" % code, repr(cls.get_code_int("descriptor_type_code", {"descriptor_type_code": info["name"]}, seg_codes)))
            golden(tag + "/seg-desc/%x" % code, repr(cls.get_code_int("descriptor_type_code", {"descriptor_type_code": info["description"]}, seg_codes)))


# ----------------------------------------------------------------------------
# 5. TransportID
# ----------------------------------------------------------------------------


def part_transportid():
    RFS = PersistentReserveInReadFullStatus
    sa_out = sbc.PERSISTENT_RESERVE_OUT.serviceaction
    E_ISID = "Must specify iscsi_initiator_session_id"
    E_FMT = "Must specify tpid_format=1"
    iqn = "iqn.2005-10.org.freenas.ctl:test"

    inconsistent = [
        ("fmt1 without isid", {"protocol_id": PROTOCOL_ID.ISCSI, "tpid_format": 1, "iscsi_name": iqn}, E_ISID),
        ("fmt1 isid empty", {"protocol_id": PROTOCOL_ID.ISCSI, "tpid_format": 1, "iscsi_name": iqn, "iscsi_initiator_session_id": ""}, E_ISID),
        ("fmt1 isid None", {"protocol_id": PROTOCOL_ID.ISCSI, "tpid_format": 1, "iscsi_name": iqn, "iscsi_initiator_session_id": None}, E_ISID),
        ("fmt2 without isid", {"protocol_id": PROTOCOL_ID.ISCSI, "tpid_format": 2, "iscsi_name": iqn}, E_ISID),
        ("fmt3 without isid", {"protocol_id": PROTOCOL_ID.ISCSI, "tpid_format": 3, "iscsi_name": iqn}, E_ISID),
        ("fmtTrue without isid", {"protocol_id": PROTOCOL_ID.ISCSI, "tpid_format": True, "iscsi_name": iqn}, E_ISID),
        ("fmt1 without anything", {"protocol_id": PROTOCOL_ID.ISCSI, "tpid_format": 1}, E_ISID),
        ("isid without fmt", {"protocol_id": PROTOCOL_ID.ISCSI, "iscsi_name": iqn, "iscsi_initiator_session_id": "23d000000"}, E_FMT),
        ("isid with fmt0", {"protocol_id": PROTOCOL_ID.ISCSI, "tpid_format": 0, "iscsi_name": iqn, "iscsi_initiator_session_id": "23d000000"}, E_FMT),
        ("isid with fmt None", {"protocol_id": PROTOCOL_ID.ISCSI, "tpid_format": None, "iscsi_name": iqn, "iscsi_initiator_session_id": "23d000000"}, E_FMT),
        ("isid with fmt False", {"protocol_id": PROTOCOL_ID.ISCSI, "tpid_format": False, "iscsi_name": iqn, "iscsi_initiator_session_id": "1"}, E_FMT),
        ("isid without name and fmt", {"protocol_id": PROTOCOL_ID.ISCSI, "iscsi_initiator_session_id": "23d000000"}, E_FMT),
        ("protocol 5.0", {"protocol_id": 5.0, "tpid_format": 1, "iscsi_name": iqn}, E_ISID),
    ]
    consistent = [
        ("fc", {"protocol_id": PROTOCOL_ID.FIBRE_CHANNEL, "n_port_name": bytearray(b"\x01\x02\x03\x04\x05\x06\x07\x08")}),
        ("fc-long", {"protocol_id": PROTOCOL_ID.FIBRE_CHANNEL, "n_port_name": bytearray(range(12))}),
        ("1394", {"protocol_id": PROTOCOL_ID.IEEE_1394, "eui64_name": bytearray(b"ABCDEFGH")}),
        ("rdma", {"protocol_id": PROTOCOL_ID.RDMA, "initiator_port_identifier": bytearray(range(16, 32))}),
        ("rdma-long", {"protocol_id": PROTOCOL_ID.RDMA, "initiator_port_identifier": bytearray(range(16, 40))}),
        ("sas", {"protocol_id": PROTOCOL_ID.SAS, "sas_address": bytearray(b"\x50\x01\x02\x03\x04\x05\x06\x07")}),
        ("sop", {"protocol_id": PROTOCOL_ID.SOP, "routing_id": bytearray(b"\x00\x01\x00\x02\x00\x03\x00\x04")}),
        ("sop-fmt", {"protocol_id": PROTOCOL_ID.SOP, "tpid_format": 2, "routing_id": bytearray(8)}),
        ("iscsi", {"protocol_id": PROTOCOL_ID.ISCSI, "iscsi_name": iqn}),
        ("iscsi-fmt0", {"protocol_id": PROTOCOL_ID.ISCSI, "tpid_format": 0, "iscsi_name": iqn}),
        ("iscsi-fmt0-isid-empty", {"protocol_id": PROTOCOL_ID.ISCSI, "tpid_format": 0, "iscsi_name": iqn, "iscsi_initiator_session_id": ""}),
        ("iscsi-isid", {"protocol_id": PROTOCOL_ID.ISCSI, "tpid_format": 1, "iscsi_name": iqn, "iscsi_initiator_session_id": "23d000000"}),
        ("iscsi-isid-fmt2", {"protocol_id": PROTOCOL_ID.ISCSI, "tpid_format": 2, "iscsi_name": iqn, "iscsi_initiator_session_id": "ab"}),
        ("iscsi-empty-name", {"protocol_id": PROTOCOL_ID.ISCSI, "iscsi_name": ""}),
        ("unknown-protocol", {"protocol_id": 0x0F, "tpid_format": 1, "sas_address": bytearray(b"12345678")}),
        ("unknown-protocol-1", {"protocol_id": 1}),
    ]
    for n in range(0, 9):
        consistent.append(("iscsi-len%d" % n, {"protocol_id": PROTOCOL_ID.ISCSI, "iscsi_name": "n" * n}))
        consistent.append(("iscsi-isid-len%d" % n, {"protocol_id": PROTOCOL_ID.ISCSI, "tpid_format": 1, "iscsi_name": "n" * n, "iscsi_initiator_session_id": "f" * (n + 1)}))

    for name, tid, msg in inconsistent:
        w = "transport id %s" % name
        refused(w + " (marshall)", lambda: RFS.marshall_transport_id(dict(tid)), "ValueError", msg)
        s, dev = make(sbc, 0)
        before = prime()
        refused(w + " (register and move)", lambda: s.persistentreserveout(sa_out.REGISTER_AND_MOVE, reservation_key=1, service_action_reservation_key=2, relative_target_port_id=1, transport_id=dict(tid)), "ValueError", msg, dev)
        check(class_state() == before, w + ": class-wide state untouched")
        refused(w + " (register, spec_i_pt)", lambda: s.persistentreserveout(sa_out.REGISTER, service_action_reservation_key=2, spec_i_pt=1, transport_ids=[dict(tid)]), "ValueError", msg, dev)
        refused(w + " (register, second id)", lambda: s.persistentreserveout(sa_out.REGISTER, spec_i_pt=1, transport_ids=[dict(consistent[0][1]), dict(consistent[8][1]), dict(tid), {"nonsense": 1}]), "ValueError", msg, dev)
        check(class_state() == before, w + ": class-wide state untouched (2)")
        refused(w + " (ctor)", lambda: PersistentReserveOut(sbc.PERSISTENT_RESERVE_OUT, sa_out.REGISTER_AND_MOVE, transport_id=dict(tid)), "ValueError", msg)
        refused(w + " (marshall_dataout)", lambda: PersistentReserveOut.marshall_dataout(sbc.PERSISTENT_RESERVE_OUT, sa_out.REGISTER_AND_MOVE, {"transport_id": dict(tid)}), "ValueError", msg)
        # the id is only looked at when it is going to be used
        accepted("tid-ignored/" + name, dev, s.persistentreserveout(sa_out.REGISTER, reservation_key=1, transport_ids=[dict(tid)]), PersistentReserveOut)
        accepted("tid-ignored2/" + name, dev, s.persistentreserveout(sa_out.RESERVE, reservation_key=1, transport_id=dict(tid), pr_type=3), PersistentReserveOut)

    # other malformed ids
    refused("transport id without protocol", lambda: RFS.marshall_transport_id({"iscsi_name": iqn}), "KeyError", "'protocol_id'")
    refused("empty transport id", lambda: RFS.marshall_transport_id({}), "KeyError", "'protocol_id'")
    refused("iscsi without name", lambda: RFS.marshall_transport_id({"protocol_id": PROTOCOL_ID.ISCSI}), "KeyError", "'iscsi_name'")
    refused("iscsi fmt0 without name", lambda: RFS.marshall_transport_id({"protocol_id": PROTOCOL_ID.ISCSI, "tpid_format": 0}), "KeyError", "'iscsi_name'")
    refused("iscsi isid without name", lambda: RFS.marshall_transport_id({"protocol_id": PROTOCOL_ID.ISCSI, "tpid_format": 1, "iscsi_initiator_session_id": "1"}), "KeyError", "'iscsi_name'")
    refused("fc without name", lambda: RFS.marshall_transport_id({"protocol_id": PROTOCOL_ID.FIBRE_CHANNEL}), "KeyError", "'n_port_name'")
    refused("1394 without name", lambda: RFS.marshall_transport_id({"protocol_id": PROTOCOL_ID.IEEE_1394}), "KeyError", "'eui64_name'")
    refused("rdma without id", lambda: RFS.marshall_transport_id({"protocol_id": PROTOCOL_ID.RDMA}), "KeyError", "'initiator_port_identifier'")
    refused("sas without address", lambda: RFS.marshall_transport_id({"protocol_id": PROTOCOL_ID.SAS, "routing_id": bytearray(8)}), "KeyError", "'sas_address'")
    refused("sop without id", lambda: RFS.marshall_transport_id({"protocol_id": PROTOCOL_ID.SOP, "sas_address": bytearray(8)}), "KeyError", "'routing_id'")
    s, dev = make(sbc, 0)
    refused("register and move, id without protocol", lambda: s.persistentreserveout(sa_out.REGISTER_AND_MOVE, transport_id={"iscsi_name": iqn}), "KeyError", "'protocol_id'", dev)

    for name, tid in consistent:
        orig = copy.deepcopy(tid)
        ba = RFS.marshall_transport_id(tid)
        check(type(ba) is bytearray, "marshall_transport_id returns a bytearray (%s)" % name)
        check(tid == orig, "marshall_transport_id leaves its argument alone (%s)" % name)
        golden("tid/" + name, ba)
        if tid["protocol_id"] == PROTOCOL_ID.ISCSI and tid.get("tpid_format", 0) > 1:
            refused("unmarshall reserved format (%s)" % name, lambda: RFS.unmarshall_transport_id(ba), "ValueError", "Invalid TPID FORMAT: %s" % tid["tpid_format"])
        elif tid["protocol_id"] in (0, 3, 4, 5, 6, 0x0A):
            back = RFS.unmarshall_transport_id(ba)
            golden("tid-back/" + name, repr(sorted((k, bytes(v) if isinstance(v, (bytes, bytearray)) else v) for k, v in back.items())))
        else:
            refused("unmarshall unknown protocol (%s)" % name, lambda: RFS.unmarshall_transport_id(ba), "ValueError", "Invalid PROTOCOL ID: %s" % tid["protocol_id"])
        accepted("prout-ram/" + name, dev, s.persistentreserveout(sa_out.REGISTER_AND_MOVE, reservation_key=0xABCD, service_action_reservation_key=0x1234, unreg=1, aptpl=1, relative_target_port_id=3, transport_id=copy.deepcopy(tid)), PersistentReserveOut)
    accepted("prout-reg/all", dev, s.persistentreserveout(sa_out.REGISTER, service_action_reservation_key=0x1234, spec_i_pt=1, transport_ids=[copy.deepcopy(t) for _, t in consistent]), PersistentReserveOut)
    accepted("prout-reg/none", dev, s.persistentreserveout(sa_out.REGISTER, service_action_reservation_key=0x1234, spec_i_pt=1), PersistentReserveOut)
    accepted("prout-ram/none", dev, s.persistentreserveout(sa_out.REGISTER_AND_MOVE, reservation_key=1), PersistentReserveOut)

    # received TransportIDs
    for pid in range(0, 16):
        for fmt in range(0, 4):
            raw = bytearray(range(1, 41))
            raw[0] = (fmt << 6) | pid
            raw[2:4] = b"\x00\x10"
            raw[4:20] = b"iqn.a,i,0x12\0\0\0\0"
            name = "untid/%d/%d" % (pid, fmt)
            if pid not in (0, 3, 4, 5, 6, 0x0A):
                refused(name, lambda: RFS.unmarshall_transport_id(raw), "ValueError", "Invalid PROTOCOL ID: %s" % pid)
            elif pid == 5 and fmt > 1:
                refused(name, lambda: RFS.unmarshall_transport_id(raw), "ValueError", "Invalid TPID FORMAT: %s" % fmt)
            else:
                back = RFS.unmarshall_transport_id(raw)
                golden(name, repr(sorted((k, bytes(v) if isinstance(v, (bytes, bytearray)) else v) for k, v in back.items())))
    # READ FULL STATUS data with descriptors
    desc = bytearray(24)
    desc[0:8] = b"\x00\x00\x00\x00\xde\xad\xbe\xef"
    desc[12] = 0x03
    desc[13] = 0x15
    desc[18:20] = b"\x00\x07"
    tid = RFS.marshall_transport_id({"protocol_id": PROTOCOL_ID.ISCSI, "tpid_format": 1, "iscsi_name": iqn, "iscsi_initiator_session_id": "23d000000"})
    desc[20:24] = len(tid).to_bytes(4, "big")
    tid2 = RFS.marshall_transport_id({"protocol_id": PROTOCOL_ID.SAS, "sas_address": bytearray(b"\x50\x01\x02\x03\x04\x05\x06\x07")})
    desc2 = bytearray(desc)
    desc2[20:24] = len(tid2).to_bytes(4, "big")
    body = desc + tid + desc2 + tid2
    data = bytearray(b"\x00\x00\x00\x09") + len(body).to_bytes(4, "big") + body
    res = RFS.unmarshall_datain(data)
    golden("rfs/two", repr([(sorted((k, (sorted((a, bytes(b) if isinstance(b, (bytes, bytearray)) else b) for a, b in v.items()) if isinstance(v, dict) else v)) for k, v in d.items())) for d in res["full_status"]]) + repr(res["pr_generation"]))
    bad = bytearray(data)
    bad[8 + 24] = 0x01  # unknown protocol in the first TransportID
    refused("rfs with unknown protocol", lambda: RFS.unmarshall_datain(bad), "ValueError", "Invalid PROTOCOL ID: 1")
    bad = bytearray(data)
    bad[8 + 24] = 0x85  # iSCSI with reserved format
    refused("rfs with reserved format", lambda: RFS.unmarshall_datain(bad), "ValueError", "Invalid TPID FORMAT: 2")
    # READ KEYS / READ RESERVATION / REPORT CAPABILITIES decoders
    keys = bytearray(b"\x00\x00\x00\x05\x00\x00\x00\x18") + bytearray(range(1, 25)) + bytearray(b"\xff" * 8)
    golden("rk/three", repr(PersistentReserveInReadKeys.unmarshall_datain(keys)))
    golden("rk/odd", repr(PersistentReserveInReadKeys.unmarshall_datain(keys[:8 + 13])))
    golden("rk/short", repr(PersistentReserveInReadKeys.unmarshall_datain(keys[:6])))
    rr = bytearray(b"\x00\x00\x00\x05\x00\x00\x00\x10") + bytearray(range(1, 17))
    golden("rr/ok", repr(sorted(PersistentReserveInReadReservation.unmarshall_datain(rr).items())))
    rr[7] = 0x11
    refused("rr bad length", lambda: PersistentReserveInReadReservation.unmarshall_datain(rr), "ValueError", "READ RESERVATION has incorrect additional length")
    rc = bytearray(b"\x00\x08\x95\x81\xea\x01\x00\x00")
    golden("rc/ok", repr(sorted((k, sorted(v.items()) if isinstance(v, dict) else v) for k, v in PersistentReserveInReportCapabilities.unmarshall_datain(rc).items())))
    rc[1] = 9
    refused("rc bad length", lambda: PersistentReserveInReportCapabilities.unmarshall_datain(rc), "ValueError", "REPORT CAPABILITIES has incorrect additional length")


# ----------------------------------------------------------------------------
# 6. the command object itself
# ----------------------------------------------------------------------------


def part_command():
    cmd = Inquiry(sbc.INQUIRY, alloclen=8)
    for attr, value in (("result", {"a": 1}), ("cdb", bytearray(b"\x12\0\0\0\x08\0")), ("datain", bytearray(3)), ("dataout", bytearray(2)), ("sense", bytearray(1)), ("raw_sense_data", b"x"), ("pagecode", 0x83), ("opcode", sbc.READ_10)):
        setattr(cmd, attr, value)
        check(getattr(cmd, attr) is value, "SCSICommand.%s round trip" % attr)
    check(cmd._page_code == 0x83 and cmd.page_code is None, "pagecode is kept in _page_code")
    other = Inquiry(sbc.INQUIRY)
    check(other.result == {} and other.sense is None and other.opcode is sbc.INQUIRY, "fields are per instance")
    for attr in ("result", "cdb", "datain", "dataout", "sense", "raw_sense_data", "pagecode", "opcode"):
        check(hasattr(type(getattr(SCSICommand, attr)), "__get__") and hasattr(type(getattr(SCSICommand, attr)), "__set__"), "SCSICommand.%s is a data descriptor" % attr)
    check(hasattr(type(SCSI.__dict__["blocksize"]), "__set__"), "SCSI.blocksize is a data descriptor")
    plain = SCSICommand(sbc.INQUIRY, 0, 0)
    caught = None
    try:
        plain.unmarshall()
    except NotImplementedError as e:
        caught = e
    check(caught is not None and str(caught) == "SCSICommand has no method to unmarshall datain data", "unmarshall without decoder")
    s = SCSI(None, 7)
    check(s.device is None and s.blocksize == 7, "SCSI(None) does not touch a device")
    dev = Dev(sbc)
    with SCSI(dev, 512) as s2:
        check(s2.blocksize == 512, "context manager")
    check(dev.closed == 1, "device closed on exit")


GOLDEN = {}
# GOLDEN-BEGIN (recorded on the unmodified code with --record)
GOLDEN.update({'ata16-lba/0': 0,
 'ata16-lba/1': 4294967296,
 'ata16-lba/1000000000000': 0,
 'ata16-lba/102030405': 2220515131395,
 'ata16-lba/1a1b2c3d4e5f6': 215464330764756,
 'ata16-lba/a1b2c3d4e5f6': 215464330764756,
 'ata16-lba/ffffffffffff': 281474976710655,
 'ata16-lba/ffffffffffffffff': 281474976710655,
 'bs0/ata16-512/cdb': '85090e00000003000000000000002000',
 'bs0/ata16-512/datain_len': 1536,
 'bs0/ata16-512/dataout': '',
 'bs0/ata16-bytes-ttype0/cdb': '85090200000007000000000000003000',
 'bs0/ata16-bytes-ttype0/datain_len': 0,
 'bs0/ata16-bytes-ttype0/dataout': '00000000000000',
 'bs0/ata16-bytes/cdb': '8509190010000000000000000000ec00',
 'bs0/ata16-bytes/datain_len': 16,
 'bs0/ata16-bytes/dataout': '',
 'bs0/ata16-datain-preset/cdb': '85091e00000001000500000000002500',
 'bs0/ata16-datain-preset/datain_len': 8,
 'bs0/ata16-datain-preset/dataout': '',
 'bs0/ata16-nodata/cdb': '85071c0000000000000000000000e500',
 'bs0/ata16-nodata/datain_len': 0,
 'bs0/ata16-nodata/dataout': '',
 'bs0/ata16-nodata2/cdb': '85066000d000010000004f00c2a0b001',
 'bs0/ata16-nodata2/datain_len': 0,
 'bs0/ata16-nodata2/dataout': '',
 'bs0/ata16-own-blocksize/cdb': '85091e00000002000500000000002500',
 'bs0/ata16-own-blocksize/datain_len': 1040,
 'bs0/ata16-own-blocksize/dataout': '',
 'bs0/ata16-tl3-extra/cdb': '85090f00000001000000000000002500',
 'bs0/ata16-tl3-extra/datain_len': 2048,
 'bs0/ata16-tl3-extra/dataout': '',
 'bs0/writesame16-ndob1/cdb': '93110000000000000001000000020700',
 'bs0/writesame16-ndob1/datain_len': 0,
 'bs0/writesame16-ndob1/dataout': '',
 'bs0/writesame16-ndob2/cdb': '93020000000000000001000000020000',
 'bs0/writesame16-ndob2/datain_len': 0,
 'bs0/writesame16-ndob2/dataout': '',
 'bs0/writesame16-ndobTrue/cdb': '93010000000000000001000000020000',
 'bs0/writesame16-ndobTrue/datain_len': 0,
 'bs0/writesame16-ndobTrue/dataout': '',
 'bs4096/read10/cdb': '28000000000100000200',
 'bs4096/read10/datain_len': 8192,
 'bs4096/read10/dataout': '',
 'bs512/ata16/cdb': '85091e00000002030602050104002500',
 'bs512/ata16/datain_len': 8192,
 'bs512/ata16/dataout': '',
 'bs512/read10-tl0/cdb': '28000000000000000000',
 'bs512/read10-tl0/datain_len': 0,
 'bs512/read10-tl0/dataout': '',
 'bs512/read10/cdb': '283c0102030409000300',
 'bs512/read10/datain_len': 1536,
 'bs512/read10/dataout': '',
 'bs512/write10/cdb': '2a580a0b0c0d04000100',
 'bs512/write10/datain_len': 0,
 'bs512/write10/dataout': 'a5a5a5a5a5a5a5a5a5a5a5a5a5a5a5a5a5a5a5a5a5a5a5a5a5a5a5a5a5a5a5a5a5a5a5a5a5a5a5a5a5a5a5a5a5a5a5a5a5a5a5a5a5a5a5a5a5a5a5a5a5a5a5a5a5a5a5a5a5a5a5a5a5a5a5a5a5a5a5a5a5a5a5a5a5a5a5a5a5a5a5a5a5a5a5a5a5a5a5a5a5a5a5a5a5a5a5a5a5a5a5a5a5a5a5a5a5a5a5a5a5a5a5a5a5a5a5a5a5a5a5a5a5a5a5a5a5a5a5a5a5a5a5a5a5a5a5a5a5a5a5a5a5a5a5a5a5a5a5a5a5a5a5a5a5a5a5a5a5a5a5a5a5a5a5a5a5a5a5a5a5a5a5a5a5a5a5a5a5a5a5a5a5a5a5a5a5a5a5a5a5a5a5a5a5a5a5a5a5a5a5a5a5a5a5a5a5a5a5a5a5a5a5a5a5a5a5a5a5a5a5a5a5a5a5a5a5a5a5a5a5a5a5a5a5a5a5a5a5a5a5a5a5a5a5a5a5a5a5a5a5a5a5a5a5a5a5a5a5a5a5a5a5a5a5a5a5a5a5a5a5a5a5a5a5a5a5a5a5a5a5a5a5a5a5a5a5a5a5a5a5a5a5a5a5a5a5a5a5a5a5a5a5a5a5a5a5a5a5a5a5a5a5a5a5a5a5a5a5a5a5a5a5a5a5a5a5a5a5a5a5a5a5a5a5a5a5a5a5a5a5a5a5a5a5a5a5a5a5a5a5a5a5a5a5a5a5a5a5a5a5a5a5a5a5a5a5a5a5a5a5a5a5a5a5a5a5a5a5a5a5a5a5a5a5a5a5a5a5a5a5a5a5a5a5a5a5a5a5a5a5a5a5a5a5a5a5a5a5a5a5a5a5a5a5a5a5a5a5a5a5a5a5a5a5a5a5a5a5a5a5a5a5a5a5a5a5a5a5a5a5a5a5a5a5a5a5a5a5a5a5a5a5a5a5a5a5a5a5a5a5a5a5a5a5a5a5a5a5a5a5a5a5a5a5a5a5a5a5a5a5a5a5a5a5a5a5a5a5a5a5a5a5a5a5a5a5a5a5a5a5a5',
 'bs512/writesame16-ndob/cdb': '93010000000000000009000000080000',
 'bs512/writesame16-ndob/datain_len': 0,
 'bs512/writesame16-ndob/dataout': '',
 'bs512/writesame16/cdb': '933801020304050607080000004d0200',
 'bs512/writesame16/datain_len': 0,
 'bs512/writesame16/dataout': 'a5a5a5a5a5a5a5a5a5a5a5a5a5a5a5a5a5a5a5a5a5a5a5a5a5a5a5a5a5a5a5a5a5a5a5a5a5a5a5a5a5a5a5a5a5a5a5a5a5a5a5a5a5a5a5a5a5a5a5a5a5a5a5a5a5a5a5a5a5a5a5a5a5a5a5a5a5a5a5a5a5a5a5a5a5a5a5a5a5a5a5a5a5a5a5a5a5a5a5a5a5a5a5a5a5a5a5a5a5a5a5a5a5a5a5a5a5a5a5a5a5a5a5a5a5a5a5a5a5a5a5a5a5a5a5a5a5a5a5a5a5a5a5a5a5a5a5a5a5a5a5a5a5a5a5a5a5a5a5a5a5a5a5a5a5a5a5a5a5a5a5a5a5a5a5a5a5a5a5a5a5a5a5a5a5a5a5a5a5a5a5a5a5a5a5a5a5a5a5a5a5a5a5a5a5a5a5a5a5a5a5a5a5a5a5a5a5a5a5a5a5a5a5a5a5a5a5a5a5a5a5a5a5a5a5a5a5a5a5a5a5a5a5a5a5a5a5a5a5a5a5a5a5a5a5a5a5a5a5a5a5a5a5a5a5a5a5a5a5a5a5a5a5a5a5a5a5a5a5a5a5a5a5a5a5a5a5a5a5a5a5a5a5a5a5a5a5a5a5a5a5a5a5a5a5a5a5a5a5a5a5a5a5a5a5a5a5a5a5a5a5a5a5a5a5a5a5a5a5a5a5a5a5a5a5a5a5a5a5a5a5a5a5a5a5a5a5a5a5a5a5a5a5a5a5a5a5a5a5a5a5a5a5a5a5a5a5a5a5a5a5a5a5a5a5a5a5a5a5a5a5a5a5a5a5a5a5a5a5a5a5a5a5a5a5a5a5a5a5a5a5a5a5a5a5a5a5a5a5a5a5a5a5a5a5a5a5a5a5a5a5a5a5a5a5a5a5a5a5a5a5a5a5a5a5a5a5a5a5a5a5a5a5a5a5a5a5a5a5a5a5a5a5a5a5a5a5a5a5a5a5a5a5a5a5a5a5a5a5a5a5a5a5a5a5a5a5a5a5a5a5a5a5a5a5a5a5a5a5a5a5a5a5a5a5a5a5a5a5a5a5a5a5a5a5a5a5a5a5a5a5a5',
 'prin/0/alloclen/cdb': '5e000000000000012c00',
 'prin/0/alloclen/datain_len': 300,
 'prin/0/alloclen/dataout': '',
 'prin/0/cdb': '5e000000000000040000',
 'prin/0/datain_len': 1024,
 'prin/0/dataout': '',
 'prin/0/extra-kw/cdb': '5e000000000000000800',
 'prin/0/extra-kw/datain_len': 8,
 'prin/0/extra-kw/dataout': '',
 'prin/1/alloclen/cdb': '5e010000000000012c00',
 'prin/1/alloclen/datain_len': 300,
 'prin/1/alloclen/dataout': '',
 'prin/1/cdb': '5e010000000000040000',
 'prin/1/datain_len': 1024,
 'prin/1/dataout': '',
 'prin/2/alloclen/cdb': '5e020000000000012c00',
 'prin/2/alloclen/datain_len': 300,
 'prin/2/alloclen/dataout': '',
 'prin/2/cdb': '5e020000000000040000',
 'prin/2/datain_len': 1024,
 'prin/2/dataout': '',
 'prin/3/alloclen/cdb': '5e030000000000012c00',
 'prin/3/alloclen/datain_len': 300,
 'prin/3/alloclen/dataout': '',
 'prin/3/cdb': '5e030000000000040000',
 'prin/3/datain_len': 1024,
 'prin/3/dataout': '',
 'prout-ram/1394/cdb': '5f070000000000003000',
 'prout-ram/1394/datain_len': 0,
 'prout-ram/1394/dataout': '000000000000abcd00000000000012340003000300000018030000000000000041424344454647480000000000000000',
 'prout-ram/fc-long/cdb': '5f070000000000003000',
 'prout-ram/fc-long/datain_len': 0,
 'prout-ram/fc-long/dataout': '000000000000abcd00000000000012340003000300000018000000000000000000010203040506070000000000000000',
 'prout-ram/fc/cdb': '5f070000000000003000',
 'prout-ram/fc/datain_len': 0,
 'prout-ram/fc/dataout': '000000000000abcd00000000000012340003000300000018000000000000000001020304050607080000000000000000',
 'prout-ram/iscsi-empty-name/cdb': '5f070000000000002000',
 'prout-ram/iscsi-empty-name/datain_len': 0,
 'prout-ram/iscsi-empty-name/dataout': '000000000000abcd000000000000123400030003000000080500000400000000',
 'prout-ram/iscsi-fmt0-isid-empty/cdb': '5f070000000000004000',
 'prout-ram/iscsi-fmt0-isid-empty/datain_len': 0,
 'prout-ram/iscsi-fmt0-isid-empty/dataout': '000000000000abcd000000000000123400030003000000280500002469716e2e323030352d31302e6f72672e667265656e61732e63746c3a7465737400000000',
 'prout-ram/iscsi-fmt0/cdb': '5f070000000000004000',
 'prout-ram/iscsi-fmt0/datain_len': 0,
 'prout-ram/iscsi-fmt0/dataout': '000000000000abcd000000000000123400030003000000280500002469716e2e323030352d31302e6f72672e667265656e61732e63746c3a7465737400000000',
 'prout-ram/iscsi-isid-fmt2/cdb': '5f070000000000004400',
 'prout-ram/iscsi-isid-fmt2/datain_len': 0,
 'prout-ram/iscsi-isid-fmt2/dataout': '000000000000abcd0000000000001234000300030000002c8500002869716e2e323030352d31302e6f72672e667265656e61732e63746c3a746573742c692c3078616200',
 'prout-ram/iscsi-isid-len0/cdb': '5f070000000000002400',
 'prout-ram/iscsi-isid-len0/datain_len': 0,
 'prout-ram/iscsi-isid-len0/dataout': '000000000000abcd0000000000001234000300030000000c450000082c692c3078660000',
 'prout-ram/iscsi-isid-len1/cdb': '5f070000000000002800',
 'prout-ram/iscsi-isid-len1/datain_len': 0,
 'prout-ram/iscsi-isid-len1/dataout': '000000000000abcd000000000000123400030003000000104500000c6e2c692c3078666600000000',
 'prout-ram/iscsi-isid-len2/cdb': '5f070000000000002800',
 'prout-ram/iscsi-isid-len2/datain_len': 0,
 'prout-ram/iscsi-isid-len2/dataout': '000000000000abcd000000000000123400030003000000104500000c6e6e2c692c30786666660000',
 'prout-ram/iscsi-isid-len3/cdb': '5f070000000000002c00',
 'prout-ram/iscsi-isid-len3/datain_len': 0,
 'prout-ram/iscsi-isid-len3/dataout': '000000000000abcd00000000000012340003000300000014450000106e6e6e2c692c30786666666600000000',
 'prout-ram/iscsi-isid-len4/cdb': '5f070000000000002c00',
 'prout-ram/iscsi-isid-len4/datain_len': 0,
 'prout-ram/iscsi-isid-len4/dataout': '000000000000abcd00000000000012340003000300000014450000106e6e6e6e2c692c307866666666660000',
 'prout-ram/iscsi-isid-len5/cdb': '5f070000000000003000',
 'prout-ram/iscsi-isid-len5/datain_len': 0,
 'prout-ram/iscsi-isid-len5/dataout': '000000000000abcd00000000000012340003000300000018450000146e6e6e6e6e2c692c307866666666666600000000',
 'prout-ram/iscsi-isid-len6/cdb': '5f070000000000003000',
 'prout-ram/iscsi-isid-len6/datain_len': 0,
 'prout-ram/iscsi-isid-len6/dataout': '000000000000abcd00000000000012340003000300000018450000146e6e6e6e6e6e2c692c3078666666666666660000',
 'prout-ram/iscsi-isid-len7/cdb': '5f070000000000003400',
 'prout-ram/iscsi-isid-len7/datain_len': 0,
 'prout-ram/iscsi-isid-len7/dataout': '000000000000abcd0000000000001234000300030000001c450000186e6e6e6e6e6e6e2c692c3078666666666666666600000000',
 'prout-ram/iscsi-isid-len8/cdb': '5f070000000000003400',
 'prout-ram/iscsi-isid-len8/datain_len': 0,
 'prout-ram/iscsi-isid-len8/dataout': '000000000000abcd0000000000001234000300030000001c450000186e6e6e6e6e6e6e6e2c692c30786666666666666666660000',
 'prout-ram/iscsi-isid/cdb': '5f070000000000004c00',
 'prout-ram/iscsi-isid/datain_len': 0,
 'prout-ram/iscsi-isid/dataout': '000000000000abcd000000000000123400030003000000344500003069716e2e323030352d31302e6f72672e667265656e61732e63746c3a746573742c692c30783233643030303030300000',
 'prout-ram/iscsi-len0/cdb': '5f070000000000002000',
 'prout-ram/iscsi-len0/datain_len': 0,
 'prout-ram/iscsi-len0/dataout': '000000000000abcd000000000000123400030003000000080500000400000000',
 'prout-ram/iscsi-len1/cdb': '5f070000000000002000',
 'prout-ram/iscsi-len1/datain_len': 0,
 'prout-ram/iscsi-len1/dataout': '000000000000abcd00000000000012340003000300000008050000046e000000',
 'prout-ram/iscsi-len2/cdb': '5f070000000000002000',
 'prout-ram/iscsi-len2/datain_len': 0,
 'prout-ram/iscsi-len2/dataout': '000000000000abcd00000000000012340003000300000008050000046e6e0000',
 'prout-ram/iscsi-len3/cdb': '5f070000000000002000',
 'prout-ram/iscsi-len3/datain_len': 0,
 'prout-ram/iscsi-len3/dataout': '000000000000abcd00000000000012340003000300000008050000046e6e6e00',
 'prout-ram/iscsi-len4/cdb': '5f070000000000002400',
 'prout-ram/iscsi-len4/datain_len': 0,
 'prout-ram/iscsi-len4/dataout': '000000000000abcd0000000000001234000300030000000c050000086e6e6e6e00000000',
 'prout-ram/iscsi-len5/cdb': '5f070000000000002400',
 'prout-ram/iscsi-len5/datain_len': 0,
 'prout-ram/iscsi-len5/dataout': '000000000000abcd0000000000001234000300030000000c050000086e6e6e6e6e000000',
 'prout-ram/iscsi-len6/cdb': '5f070000000000002400',
 'prout-ram/iscsi-len6/datain_len': 0,
 'prout-ram/iscsi-len6/dataout': '000000000000abcd0000000000001234000300030000000c050000086e6e6e6e6e6e0000',
 'prout-ram/iscsi-len7/cdb': '5f070000000000002400',
 'prout-ram/iscsi-len7/datain_len': 0,
 'prout-ram/iscsi-len7/dataout': '000000000000abcd0000000000001234000300030000000c050000086e6e6e6e6e6e6e00',
 'prout-ram/iscsi-len8/cdb': '5f070000000000002800',
 'prout-ram/iscsi-len8/datain_len': 0,
 'prout-ram/iscsi-len8/dataout': '000000000000abcd000000000000123400030003000000100500000c6e6e6e6e6e6e6e6e00000000',
 'prout-ram/iscsi/cdb': '5f070000000000004000',
 'prout-ram/iscsi/datain_len': 0,
 'prout-ram/iscsi/dataout': '000000000000abcd000000000000123400030003000000280500002469716e2e323030352d31302e6f72672e667265656e61732e63746c3a7465737400000000',
 'prout-ram/none/cdb': '5f070000000000001800',
 'prout-ram/none/datain_len': 0,
 'prout-ram/none/dataout': '000000000000000100000000000000000000000000000000',
 'prout-ram/rdma-long/cdb': '5f070000000000003000',
 'prout-ram/rdma-long/datain_len': 0,
 'prout-ram/rdma-long/dataout': '000000000000abcd000000000000123400030003000000180400000000000000101112131415161718191a1b1c1d1e1f',
 'prout-ram/rdma/cdb': '5f070000000000003000',
 'prout-ram/rdma/datain_len': 0,
 'prout-ram/rdma/dataout': '000000000000abcd000000000000123400030003000000180400000000000000101112131415161718191a1b1c1d1e1f',
 'prout-ram/sas/cdb': '5f070000000000003000',
 'prout-ram/sas/datain_len': 0,
 'prout-ram/sas/dataout': '000000000000abcd00000000000012340003000300000018060000005001020304050607000000000000000000000000',
 'prout-ram/sop-fmt/cdb': '5f070000000000003000',
 'prout-ram/sop-fmt/datain_len': 0,
 'prout-ram/sop-fmt/dataout': '000000000000abcd000000000000123400030003000000188a0000000000000000000000000000000000000000000000',
 'prout-ram/sop/cdb': '5f070000000000003000',
 'prout-ram/sop/datain_len': 0,
 'prout-ram/sop/dataout': '000000000000abcd000000000000123400030003000000180a0000000001000200030004000000000000000000000000',
 'prout-ram/unknown-protocol-1/cdb': '5f070000000000003000',
 'prout-ram/unknown-protocol-1/datain_len': 0,
 'prout-ram/unknown-protocol-1/dataout': '000000000000abcd00000000000012340003000300000018010000000000000000000000000000000000000000000000',
 'prout-ram/unknown-protocol/cdb': '5f070000000000003000',
 'prout-ram/unknown-protocol/datain_len': 0,
 'prout-ram/unknown-protocol/dataout': '000000000000abcd000000000000123400030003000000184f0000000000000000000000000000000000000000000000',
 'prout-reg/all/cdb': '5f000000000000030800',
 'prout-reg/all/datain_len': 0,
 'prout-reg/all/dataout': '000000000000000000000000000012340000000008000000000002ec0000000000000000010203040506070800000000000000000000000000000000000102030405060700000000000000000300000000000000414243444546474800000000000000000400000000000000101112131415161718191a1b1c1d1e1f0400000000000000101112131415161718191a1b1c1d1e1f0600000050010203040506070000000000000000000000000a00000000010002000300040000000000000000000000008a00000000000000000000000000000000000000000000000500002469716e2e323030352d31302e6f72672e667265656e61732e63746c3a74657374000000000500002469716e2e323030352d31302e6f72672e667265656e61732e63746c3a74657374000000000500002469716e2e323030352d31302e6f72672e667265656e61732e63746c3a74657374000000004500003069716e2e323030352d31302e6f72672e667265656e61732e63746c3a746573742c692c307832336430303030303000008500002869716e2e323030352d31302e6f72672e667265656e61732e63746c3a746573742c692c307861620005000004000000004f00000000000000000000000000000000000000000000000100000000000000000000000000000000000000000000000500000400000000450000082c692c3078660000050000046e0000004500000c6e2c692c3078666600000000050000046e6e00004500000c6e6e2c692c30786666660000050000046e6e6e00450000106e6e6e2c692c30786666666600000000050000086e6e6e6e00000000450000106e6e6e6e2c692c307866666666660000050000086e6e6e6e6e000000450000146e6e6e6e6e2c692c307866666666666600000000050000086e6e6e6e6e6e0000450000146e6e6e6e6e6e2c692c3078666666666666660000050000086e6e6e6e6e6e6e00450000186e6e6e6e6e6e6e2c692c30786666666666666666000000000500000c6e6e6e6e6e6e6e6e00000000450000186e6e6e6e6e6e6e6e2c692c30786666666666666666660000',
 'prout-reg/none/cdb': '5f000000000000001c00',
 'prout-reg/none/datain_len': 0,
 'prout-reg/none/dataout': '00000000000000000000000000001234000000000800000000000000',
 'rc/ok': "[('allow_commands', 0), ('atp_c', 1), ('crh', 1), ('pr_type_mask', [('ex_ac', 1), ('ex_ac_ar', 1), ('ex_ac_ro', 1), ('wr_ex', 1), ('wr_ex_ar', 1), ('wr_ex_ro', 1)]), ('ptpl_a', 1), "
          "('ptpl_c', 1), ('rlr_c', 1), ('sip_c', 0), ('tmv', 1)]",
 'rfs/two': "[[('all_tg_pt', 1), ('r_holder', 1), ('relative_target_port_id', 7), ('reservation_key', 3735928559), ('scope', 1), ('transport_id', [('iscsi_initiator_session_id', '23d000000'), "
            "('iscsi_name', 'iqn.2005-10.org.freenas.ctl:test'), ('protocol_id', 5), ('tpid_format', 1)]), ('type', 5)], [('all_tg_pt', 1), ('r_holder', 1), ('relative_target_port_id', 7), "
            "('reservation_key', 3735928559), ('scope', 1), ('transport_id', [('protocol_id', 6), ('sas_address', b'P\\x01\\x02\\x03\\x04\\x05\\x06\\x07'), ('tpid_format', 0)]), ('type', 5)]]9",
 'rk/odd': "{'pr_generation': 5, 'reservation_keys': [72623859790382856, 38823201805]}",
 'rk/short': "{'pr_generation': 5, 'reservation_keys': []}",
 'rk/three': "{'pr_generation': 5, 'reservation_keys': [72623859790382856, 651345242494996240, 1230066625199609624]}",
 'rr/ok': "[('pr_generation', 5), ('reservation_key', 72623859790382856), ('scope', 0), ('type', 14)]",
 'tid-back/1394': "[('eui64_name', b'ABCDEFGH'), ('protocol_id', 3), ('tpid_format', 0)]",
 'tid-back/fc': "[('n_port_name', b'\\x01\\x02\\x03\\x04\\x05\\x06\\x07\\x08'), ('protocol_id', 0), ('tpid_format', 0)]",
 'tid-back/fc-long': "[('n_port_name', b'\\x00\\x01\\x02\\x03\\x04\\x05\\x06\\x07'), ('protocol_id', 0), ('tpid_format', 0)]",
 'tid-back/iscsi': "[('iscsi_name', 'iqn.2005-10.org.freenas.ctl:test'), ('protocol_id', 5), ('tpid_format', 0)]",
 'tid-back/iscsi-empty-name': "[('iscsi_name', ''), ('protocol_id', 5), ('tpid_format', 0)]",
 'tid-back/iscsi-fmt0': "[('iscsi_name', 'iqn.2005-10.org.freenas.ctl:test'), ('protocol_id', 5), ('tpid_format', 0)]",
 'tid-back/iscsi-fmt0-isid-empty': "[('iscsi_name', 'iqn.2005-10.org.freenas.ctl:test'), ('protocol_id', 5), ('tpid_format', 0)]",
 'tid-back/iscsi-isid': "[('iscsi_initiator_session_id', '23d000000'), ('iscsi_name', 'iqn.2005-10.org.freenas.ctl:test'), ('protocol_id', 5), ('tpid_format', 1)]",
 'tid-back/iscsi-isid-len0': "[('iscsi_initiator_session_id', 'f'), ('iscsi_name', ''), ('protocol_id', 5), ('tpid_format', 1)]",
 'tid-back/iscsi-isid-len1': "[('iscsi_initiator_session_id', 'ff'), ('iscsi_name', 'n'), ('protocol_id', 5), ('tpid_format', 1)]",
 'tid-back/iscsi-isid-len2': "[('iscsi_initiator_session_id', 'fff'), ('iscsi_name', 'nn'), ('protocol_id', 5), ('tpid_format', 1)]",
 'tid-back/iscsi-isid-len3': "[('iscsi_initiator_session_id', 'ffff'), ('iscsi_name', 'nnn'), ('protocol_id', 5), ('tpid_format', 1)]",
 'tid-back/iscsi-isid-len4': "[('iscsi_initiator_session_id', 'fffff'), ('iscsi_name', 'nnnn'), ('protocol_id', 5), ('tpid_format', 1)]",
 'tid-back/iscsi-isid-len5': "[('iscsi_initiator_session_id', 'ffffff'), ('iscsi_name', 'nnnnn'), ('protocol_id', 5), ('tpid_format', 1)]",
 'tid-back/iscsi-isid-len6': "[('iscsi_initiator_session_id', 'fffffff'), ('iscsi_name', 'nnnnnn'), ('protocol_id', 5), ('tpid_format', 1)]",
 'tid-back/iscsi-isid-len7': "[('iscsi_initiator_session_id', 'ffffffff'), ('iscsi_name', 'nnnnnnn'), ('protocol_id', 5), ('tpid_format', 1)]",
 'tid-back/iscsi-isid-len8': "[('iscsi_initiator_session_id', 'fffffffff'), ('iscsi_name', 'nnnnnnnn'), ('protocol_id', 5), ('tpid_format', 1)]",
 'tid-back/iscsi-len0': "[('iscsi_name', ''), ('protocol_id', 5), ('tpid_format', 0)]",
 'tid-back/iscsi-len1': "[('iscsi_name', 'n'), ('protocol_id', 5), ('tpid_format', 0)]",
 'tid-back/iscsi-len2': "[('iscsi_name', 'nn'), ('protocol_id', 5), ('tpid_format', 0)]",
 'tid-back/iscsi-len3': "[('iscsi_name', 'nnn'), ('protocol_id', 5), ('tpid_format', 0)]",
 'tid-back/iscsi-len4': "[('iscsi_name', 'nnnn'), ('protocol_id', 5), ('tpid_format', 0)]",
 'tid-back/iscsi-len5': "[('iscsi_name', 'nnnnn'), ('protocol_id', 5), ('tpid_format', 0)]",
 'tid-back/iscsi-len6': "[('iscsi_name', 'nnnnnn'), ('protocol_id', 5), ('tpid_format', 0)]",
 'tid-back/iscsi-len7': "[('iscsi_name', 'nnnnnnn'), ('protocol_id', 5), ('tpid_format', 0)]",
 'tid-back/iscsi-len8': "[('iscsi_name', 'nnnnnnnn'), ('protocol_id', 5), ('tpid_format', 0)]",
 'tid-back/rdma': "[('initiator_port_identifier', b'\\x10\\x11\\x12\\x13\\x14\\x15\\x16\\x17\\x18\\x19\\x1a\\x1b\\x1c\\x1d\\x1e\\x1f'), ('protocol_id', 4), ('tpid_format', 0)]",
 'tid-back/rdma-long': "[('initiator_port_identifier', b'\\x10\\x11\\x12\\x13\\x14\\x15\\x16\\x17\\x18\\x19\\x1a\\x1b\\x1c\\x1d\\x1e\\x1f'), ('protocol_id', 4), ('tpid_format', 0)]",
 'tid-back/sas': "[('protocol_id', 6), ('sas_address', b'P\\x01\\x02\\x03\\x04\\x05\\x06\\x07'), ('tpid_format', 0)]",
 'tid-back/sop': "[('protocol_id', 10), ('routing_id', b'\\x00\\x01\\x00\\x02\\x00\\x03\\x00\\x04'), ('tpid_format', 0)]",
 'tid-back/sop-fmt': "[('protocol_id', 10), ('routing_id', b'\\x00\\x00\\x00\\x00\\x00\\x00\\x00\\x00'), ('tpid_format', 2)]",
 'tid-ignored/fmt1 isid None/cdb': '5f000000000000001800',
 'tid-ignored/fmt1 isid None/datain_len': 0,
 'tid-ignored/fmt1 isid None/dataout': '000000000000000100000000000000000000000000000000',
 'tid-ignored/fmt1 isid empty/cdb': '5f000000000000001800',
 'tid-ignored/fmt1 isid empty/datain_len': 0,
 'tid-ignored/fmt1 isid empty/dataout': '000000000000000100000000000000000000000000000000',
 'tid-ignored/fmt1 without anything/cdb': '5f000000000000001800',
 'tid-ignored/fmt1 without anything/datain_len': 0,
 'tid-ignored/fmt1 without anything/dataout': '000000000000000100000000000000000000000000000000',
 'tid-ignored/fmt1 without isid/cdb': '5f000000000000001800',
 'tid-ignored/fmt1 without isid/datain_len': 0,
 'tid-ignored/fmt1 without isid/dataout': '000000000000000100000000000000000000000000000000',
 'tid-ignored/fmt2 without isid/cdb': '5f000000000000001800',
 'tid-ignored/fmt2 without isid/datain_len': 0,
 'tid-ignored/fmt2 without isid/dataout': '000000000000000100000000000000000000000000000000',
 'tid-ignored/fmt3 without isid/cdb': '5f000000000000001800',
 'tid-ignored/fmt3 without isid/datain_len': 0,
 'tid-ignored/fmt3 without isid/dataout': '000000000000000100000000000000000000000000000000',
 'tid-ignored/fmtTrue without isid/cdb': '5f000000000000001800',
 'tid-ignored/fmtTrue without isid/datain_len': 0,
 'tid-ignored/fmtTrue without isid/dataout': '000000000000000100000000000000000000000000000000',
 'tid-ignored/isid with fmt False/cdb': '5f000000000000001800',
 'tid-ignored/isid with fmt False/datain_len': 0,
 'tid-ignored/isid with fmt False/dataout': '000000000000000100000000000000000000000000000000',
 'tid-ignored/isid with fmt None/cdb': '5f000000000000001800',
 'tid-ignored/isid with fmt None/datain_len': 0,
 'tid-ignored/isid with fmt None/dataout': '000000000000000100000000000000000000000000000000',
 'tid-ignored/isid with fmt0/cdb': '5f000000000000001800',
 'tid-ignored/isid with fmt0/datain_len': 0,
 'tid-ignored/isid with fmt0/dataout': '000000000000000100000000000000000000000000000000',
 'tid-ignored/isid without fmt/cdb': '5f000000000000001800',
 'tid-ignored/isid without fmt/datain_len': 0,
 'tid-ignored/isid without fmt/dataout': '000000000000000100000000000000000000000000000000',
 'tid-ignored/isid without name and fmt/cdb': '5f000000000000001800',
 'tid-ignored/isid without name and fmt/datain_len': 0,
 'tid-ignored/isid without name and fmt/dataout': '000000000000000100000000000000000000000000000000',
 'tid-ignored/protocol 5.0/cdb': '5f000000000000001800',
 'tid-ignored/protocol 5.0/datain_len': 0,
 'tid-ignored/protocol 5.0/dataout': '000000000000000100000000000000000000000000000000',
 'tid-ignored2/fmt1 isid None/cdb': '5f010300000000001800',
 'tid-ignored2/fmt1 isid None/datain_len': 0,
 'tid-ignored2/fmt1 isid None/dataout': '000000000000000100000000000000000000000000000000',
 'tid-ignored2/fmt1 isid empty/cdb': '5f010300000000001800',
 'tid-ignored2/fmt1 isid empty/datain_len': 0,
 'tid-ignored2/fmt1 isid empty/dataout': '000000000000000100000000000000000000000000000000',
 'tid-ignored2/fmt1 without anything/cdb': '5f010300000000001800',
 'tid-ignored2/fmt1 without anything/datain_len': 0,
 'tid-ignored2/fmt1 without anything/dataout': '000000000000000100000000000000000000000000000000',
 'tid-ignored2/fmt1 without isid/cdb': '5f010300000000001800',
 'tid-ignored2/fmt1 without isid/datain_len': 0,
 'tid-ignored2/fmt1 without isid/dataout': '000000000000000100000000000000000000000000000000',
 'tid-ignored2/fmt2 without isid/cdb': '5f010300000000001800',
 'tid-ignored2/fmt2 without isid/datain_len': 0,
 'tid-ignored2/fmt2 without isid/dataout': '000000000000000100000000000000000000000000000000',
 'tid-ignored2/fmt3 without isid/cdb': '5f010300000000001800',
 'tid-ignored2/fmt3 without isid/datain_len': 0,
 'tid-ignored2/fmt3 without isid/dataout': '000000000000000100000000000000000000000000000000',
 'tid-ignored2/fmtTrue without isid/cdb': '5f010300000000001800',
 'tid-ignored2/fmtTrue without isid/datain_len': 0,
 'tid-ignored2/fmtTrue without isid/dataout': '000000000000000100000000000000000000000000000000',
 'tid-ignored2/isid with fmt False/cdb': '5f010300000000001800',
 'tid-ignored2/isid with fmt False/datain_len': 0,
 'tid-ignored2/isid with fmt False/dataout': '000000000000000100000000000000000000000000000000',
 'tid-ignored2/isid with fmt None/cdb': '5f010300000000001800',
 'tid-ignored2/isid with fmt None/datain_len': 0,
 'tid-ignored2/isid with fmt None/dataout': '000000000000000100000000000000000000000000000000',
 'tid-ignored2/isid with fmt0/cdb': '5f010300000000001800',
 'tid-ignored2/isid with fmt0/datain_len': 0,
 'tid-ignored2/isid with fmt0/dataout': '000000000000000100000000000000000000000000000000',
 'tid-ignored2/isid without fmt/cdb': '5f010300000000001800',
 'tid-ignored2/isid without fmt/datain_len': 0,
 'tid-ignored2/isid without fmt/dataout': '000000000000000100000000000000000000000000000000',
 'tid-ignored2/isid without name and fmt/cdb': '5f010300000000001800',
 'tid-ignored2/isid without name and fmt/datain_len': 0,
 'tid-ignored2/isid without name and fmt/dataout': '000000000000000100000000000000000000000000000000',
 'tid-ignored2/protocol 5.0/cdb': '5f010300000000001800',
 'tid-ignored2/protocol 5.0/datain_len': 0,
 'tid-ignored2/protocol 5.0/dataout': '000000000000000100000000000000000000000000000000',
 'tid/1394': '030000000000000041424344454647480000000000000000',
 'tid/fc': '000000000000000001020304050607080000000000000000',
 'tid/fc-long': '000000000000000000010203040506070000000000000000',
 'tid/iscsi': '0500002469716e2e323030352d31302e6f72672e667265656e61732e63746c3a7465737400000000',
 'tid/iscsi-empty-name': '0500000400000000',
 'tid/iscsi-fmt0': '0500002469716e2e323030352d31302e6f72672e667265656e61732e63746c3a7465737400000000',
 'tid/iscsi-fmt0-isid-empty': '0500002469716e2e323030352d31302e6f72672e667265656e61732e63746c3a7465737400000000',
 'tid/iscsi-isid': '4500003069716e2e323030352d31302e6f72672e667265656e61732e63746c3a746573742c692c30783233643030303030300000',
 'tid/iscsi-isid-fmt2': '8500002869716e2e323030352d31302e6f72672e667265656e61732e63746c3a746573742c692c3078616200',
 'tid/iscsi-isid-len0': '450000082c692c3078660000',
 'tid/iscsi-isid-len1': '4500000c6e2c692c3078666600000000',
 'tid/iscsi-isid-len2': '4500000c6e6e2c692c30786666660000',
 'tid/iscsi-isid-len3': '450000106e6e6e2c692c30786666666600000000',
 'tid/iscsi-isid-len4': '450000106e6e6e6e2c692c307866666666660000',
 'tid/iscsi-isid-len5': '450000146e6e6e6e6e2c692c307866666666666600000000',
 'tid/iscsi-isid-len6': '450000146e6e6e6e6e6e2c692c3078666666666666660000',
 'tid/iscsi-isid-len7': '450000186e6e6e6e6e6e6e2c692c3078666666666666666600000000',
 'tid/iscsi-isid-len8': '450000186e6e6e6e6e6e6e6e2c692c30786666666666666666660000',
 'tid/iscsi-len0': '0500000400000000',
 'tid/iscsi-len1': '050000046e000000',
 'tid/iscsi-len2': '050000046e6e0000',
 'tid/iscsi-len3': '050000046e6e6e00',
 'tid/iscsi-len4': '050000086e6e6e6e00000000',
 'tid/iscsi-len5': '050000086e6e6e6e6e000000',
 'tid/iscsi-len6': '050000086e6e6e6e6e6e0000',
 'tid/iscsi-len7': '050000086e6e6e6e6e6e6e00',
 'tid/iscsi-len8': '0500000c6e6e6e6e6e6e6e6e00000000',
 'tid/rdma': '0400000000000000101112131415161718191a1b1c1d1e1f',
 'tid/rdma-long': '0400000000000000101112131415161718191a1b1c1d1e1f',
 'tid/sas': '060000005001020304050607000000000000000000000000',
 'tid/sop': '0a0000000001000200030004000000000000000000000000',
 'tid/sop-fmt': '8a0000000000000000000000000000000000000000000000',
 'tid/unknown-protocol': '4f0000000000000000000000000000000000000000000000',
 'tid/unknown-protocol-1': '010000000000000000000000000000000000000000000000',
 'untid/0/0': "[('n_port_name', b'a,i,0x12'), ('protocol_id', 0), ('tpid_format', 0)]",
 'untid/0/1': "[('n_port_name', b'a,i,0x12'), ('protocol_id', 0), ('tpid_format', 1)]",
 'untid/0/2': "[('n_port_name', b'a,i,0x12'), ('protocol_id', 0), ('tpid_format', 2)]",
 'untid/0/3': "[('n_port_name', b'a,i,0x12'), ('protocol_id', 0), ('tpid_format', 3)]",
 'untid/10/0': "[('protocol_id', 10), ('routing_id', b'iqn.a,i,'), ('tpid_format', 0)]",
 'untid/10/1': "[('protocol_id', 10), ('routing_id', b'iqn.a,i,'), ('tpid_format', 1)]",
 'untid/10/2': "[('protocol_id', 10), ('routing_id', b'iqn.a,i,'), ('tpid_format', 2)]",
 'untid/10/3': "[('protocol_id', 10), ('routing_id', b'iqn.a,i,'), ('tpid_format', 3)]",
 'untid/3/0': "[('eui64_name', b'a,i,0x12'), ('protocol_id', 3), ('tpid_format', 0)]",
 'untid/3/1': "[('eui64_name', b'a,i,0x12'), ('protocol_id', 3), ('tpid_format', 1)]",
 'untid/3/2': "[('eui64_name', b'a,i,0x12'), ('protocol_id', 3), ('tpid_format', 2)]",
 'untid/3/3': "[('eui64_name', b'a,i,0x12'), ('protocol_id', 3), ('tpid_format', 3)]",
 'untid/4/0': "[('initiator_port_identifier', b'a,i,0x12\\x00\\x00\\x00\\x00\\x15\\x16\\x17\\x18'), ('protocol_id', 4), ('tpid_format', 0)]",
 'untid/4/1': "[('initiator_port_identifier', b'a,i,0x12\\x00\\x00\\x00\\x00\\x15\\x16\\x17\\x18'), ('protocol_id', 4), ('tpid_format', 1)]",
 'untid/4/2': "[('initiator_port_identifier', b'a,i,0x12\\x00\\x00\\x00\\x00\\x15\\x16\\x17\\x18'), ('protocol_id', 4), ('tpid_format', 2)]",
 'untid/4/3': "[('initiator_port_identifier', b'a,i,0x12\\x00\\x00\\x00\\x00\\x15\\x16\\x17\\x18'), ('protocol_id', 4), ('tpid_format', 3)]",
 'untid/5/0': "[('iscsi_name', 'iqn.a,i,0x12'), ('protocol_id', 5), ('tpid_format', 0)]",
 'untid/5/1': "[('iscsi_initiator_session_id', '12'), ('iscsi_name', 'iqn.a'), ('protocol_id', 5), ('tpid_format', 1)]",
 'untid/6/0': "[('protocol_id', 6), ('sas_address', b'iqn.a,i,'), ('tpid_format', 0)]",
 'untid/6/1': "[('protocol_id', 6), ('sas_address', b'iqn.a,i,'), ('tpid_format', 1)]",
 'untid/6/2': "[('protocol_id', 6), ('sas_address', b'iqn.a,i,'), ('tpid_format', 2)]",
 'untid/6/3': "[('protocol_id', 6), ('sas_address', b'iqn.a,i,'), ('tpid_format', 3)]",
 'x4/empty/cdb': '83000000000000000000000000100000',
 'x4/empty/datain_len': 0,
 'x4/empty/dataout': '00000000000000000000000000000000',
 'x4/full/cdb': '83000000000000000000000001aa0000',
 'x4/full/datain_len': 0,
 'x4/full/dataout': '001100e000000000000000b400000006e4000000010300106589cfc000000c44c482cc288fbc0d750000000000000200e4010000010300106589cfc000000c44c482cc288fbc0d750000000005010203e4030000010300106589cfc000000c44c482cc288fbc0d750000000004000000e4050000010300106589cfc000000c44c482cc288fbc0d750000000000000000e40e0000010300106589cfc000000c44c482cc288fbc0d750000000000000200e4040000010300106589cfc000000c44c482cc288fbc0d750000000000000200e4070000010300106589cfc000000c44c482cc288fbc0d7500000000000002000202001800000001000000040000000000000001000000000000000a0203001800000001000000040000000000000001000000000000000a0d02001800000001000000040000000000000001000000000000000a0001001400000000000a0b0c0000000311223344556677880100001400010000000000000000000000000000000000000b00001400000000000000000000000000000000000000000c0000140000000000000000000000000000000000000000696e6c696e65',
 'x4/get_code_int/0.0': '0.0',
 'x4/get_code_int/Block': '0',
 'x4/get_code_int/Processor': '3',
 'x4/get_code_int/Stream': '3',
 'x4/get_code_int/True': 'True',
 'x4/inline/cdb': '83000000000000000000000000140000',
 'x4/inline/datain_len': 0,
 'x4/inline/dataout': '34230000000000000000000000000004deadbeef',
 'x4/marshall_segment/b2b': '0202001800000001000000040000000000000001000000000000000a',
 'x4/seg-desc/0': '0',
 'x4/seg-desc/1': '1',
 'x4/seg-desc/10': '16',
 'x4/seg-desc/11': '17',
 'x4/seg-desc/12': '18',
 'x4/seg-desc/13': '19',
 'x4/seg-desc/14': '20',
 'x4/seg-desc/15': '21',
 'x4/seg-desc/2': '2',
 'x4/seg-desc/3': '3',
 'x4/seg-desc/4': '4',
 'x4/seg-desc/5': '5',
 'x4/seg-desc/6': '6',
 'x4/seg-desc/7': '7',
 'x4/seg-desc/8': '8',
 'x4/seg-desc/9': '9',
 'x4/seg-desc/a': '10',
 'x4/seg-desc/b': '11',
 'x4/seg-desc/c': '12',
 'x4/seg-desc/d': '13',
 'x4/seg-desc/e': '14',
 'x4/seg-desc/f': '15',
 'x4/seg-name/0': '0',
 'x4/seg-name/1': '1',
 'x4/seg-name/10': '16',
 'x4/seg-name/11': '17',
 'x4/seg-name/12': '18',
 'x4/seg-name/13': '19',
 'x4/seg-name/14': '20',
 'x4/seg-name/15': '21',
 'x4/seg-name/2': '2',
 'x4/seg-name/3': '3',
 'x4/seg-name/4': '4',
 'x4/seg-name/5': '5',
 'x4/seg-name/6': '6',
 'x4/seg-name/7': '7',
 'x4/seg-name/8': '8',
 'x4/seg-name/9': '9',
 'x4/seg-name/a': '10',
 'x4/seg-name/b': '11',
 'x4/seg-name/c': '12',
 'x4/seg-name/d': '13',
 'x4/seg-name/e': '14',
 'x4/seg-name/f': '15',
 'x4/vendor/cdb': '83000000000000000000000000300000',
 'x4/vendor/datain_len': 0,
 'x4/vendor/dataout': '00000020000000000000000000000000e400002a00000004deadbeef0000000000000000000000000000000004000000',
 'x5/empty/cdb': '83010000000000000000000000300000',
 'x5/empty/datain_len': 0,
 'x5/empty/dataout': '01000020000000000000000000000000ff00000000000000000000000000000000000000000000000000000000000000',
 'x5/full/cdb': '83010000000000000000000001a60000',
 'x5/full/datain_len': 0,
 'x5/full/dataout': '01110020000000000000000000000003ff0000000102030400000000000000000000000000000000000000a000d00006e4000000010300106589cfc000000c44c482cc288fbc0d750000000000000200e4010000010300106589cfc000000c44c482cc288fbc0d750000000005010203e4030000010300106589cfc000000c44c482cc288fbc0d750000000004000000e4050000010300106589cfc000000c44c482cc288fbc0d750000000000000000e40e0000010300106589cfc000000c44c482cc288fbc0d7500000000000002000202001800000001000000040000000000000001000000000000000a0203001800000001000000040000000000000001000000000000000a0d02001800000001000000040000000000000001000000000000000a0001001400000000000a0b0c0000000311223344556677880100001400010000000000000000000000000000000000000b00001400000000000000000000000000000000000000000c00001400000000000000000000000000000000000000000206001800000001000000040000000000000001000000000000000a696e6c696e65',
 'x5/get_code_int/0.0': '0.0',
 'x5/get_code_int/Block': '0',
 'x5/get_code_int/Processor': '3',
 'x5/get_code_int/Stream': '3',
 'x5/get_code_int/True': 'True',
 'x5/inline/cdb': '83010000000000000000000000340000',
 'x5/inline/datain_len': 0,
 'x5/inline/dataout': '01230020000000000000000000000000ff00000000000034000000000000000000000000000000000000000000000004deadbeef',
 'x5/marshall_segment/b2b': '0202001800000001000000040000000000000001000000000000000a',
 'x5/seg-desc/0': '0',
 'x5/seg-desc/1': '1',
 'x5/seg-desc/10': '16',
 'x5/seg-desc/13': '19',
 'x5/seg-desc/14': '20',
 'x5/seg-desc/15': '21',
 'x5/seg-desc/16': '22',
 'x5/seg-desc/17': '23',
 'x5/seg-desc/18': '24',
 'x5/seg-desc/19': '25',
 'x5/seg-desc/2': '2',
 'x5/seg-desc/3': '3',
 'x5/seg-desc/4': '4',
 'x5/seg-desc/5': '5',
 'x5/seg-desc/6': '6',
 'x5/seg-desc/7': '7',
 'x5/seg-desc/8': '8',
 'x5/seg-desc/9': '9',
 'x5/seg-desc/a': '10',
 'x5/seg-desc/b': '11',
 'x5/seg-desc/be': '190',
 'x5/seg-desc/bf': '191',
 'x5/seg-desc/c': '12',
 'x5/seg-desc/d': '13',
 'x5/seg-desc/e': '14',
 'x5/seg-desc/f': '15',
 'x5/seg-name/0': '0',
 'x5/seg-name/1': '1',
 'x5/seg-name/10': '16',
 'x5/seg-name/13': '19',
 'x5/seg-name/14': '20',
 'x5/seg-name/15': '21',
 'x5/seg-name/16': '22',
 'x5/seg-name/17': '23',
 'x5/seg-name/18': '24',
 'x5/seg-name/19': '25',
 'x5/seg-name/2': '2',
 'x5/seg-name/3': '3',
 'x5/seg-name/4': '4',
 'x5/seg-name/5': '5',
 'x5/seg-name/6': '6',
 'x5/seg-name/7': '7',
 'x5/seg-name/8': '8',
 'x5/seg-name/9': '9',
 'x5/seg-name/a': '10',
 'x5/seg-name/b': '11',
 'x5/seg-name/be': '190',
 'x5/seg-name/bf': '191',
 'x5/seg-name/c': '12',
 'x5/seg-name/d': '13',
 'x5/seg-name/e': '14',
 'x5/seg-name/f': '15',
 'x5/vendor/cdb': '83010000000000000000000000500000',
 'x5/vendor/datain_len': 0,
 'x5/vendor/dataout': '01000020000000000000000000000000ff00000000000000000000000000000000000000000000000000002000000000e400002a00000004deadbeef0000000000000000000000000000000004000000'})
# GOLDEN-END


def main():
    part_blocksize()
    part_opcode()
    part_prin()
    part_xcopy()
    part_transportid()
    part_command()
    if RECORD:
        import pprint

        print("GOLDEN = " + pprint.pformat(RECORDED, width=200))
        return 0
    if FAILURES:
        print("FAIL (%d of %d checks failed)" % (len(FAILURES), CHECKS[0]))
        return 1
    print("PASS (%d checks)" % CHECKS[0])
    return 0


if __name__ == "__main__":
    sys.exit(main())
