#!/usr/bin/env python
# Demo / regression check for property C10 (pyscsi.utils.converter):
#
#   Integer-to-bytes conversion is big-endian and inverse to bytes-to-integer
#   for every width.  For any layout of non-overlapping fields (bit masks of any
#   width at any byte offset, aligned or not, and byte/word/dword blobs),
#   encoding writes a value into exactly the bits of its field and no others,
#   decoding reads exactly those bits, decoding after encoding returns the value,
#   and the result does not depend on the order in which fields are supplied.
#
# Run:  cd /tmp/seed/C10u && PYTHONPATH=/tmp/seed/C10u /venv/bin/python SEED/demo.py
import importlib
import inspect
import pkgutil
import random
import sys
import types

# --------------------------------------------------------------------------
# fake external bindings (not installed); harmless if never imported
# --------------------------------------------------------------------------
for _name in ("sgio", "iscsi"):
    if _name not in sys.modules:
        try:
            importlib.import_module(_name)
        except Exception:
            _fake = types.ModuleType(_name)
            _fake.__dict__.update(
                execute=lambda *a, **k: 0,
                Context=type("Context", (), {"__init__": lambda self, *a, **k: None}),
                URL=type("URL", (), {"__init__": lambda self, *a, **k: None}),
                Task=type("Task", (), {"__init__": lambda self, *a, **k: None}),
            )
            sys.modules[_name] = _fake

import pyscsi.utils
import pyscsi.utils.converter as convert
from pyscsi.utils.converter import (
    CheckDict,
    decode_bits,
    encode_dict,
    get_opcode,
    print_data,
    scsi_ba_to_int,
    scsi_int_to_ba,
)

RNG = random.Random(0xC10)
CHECKS = 0


def check(cond, msg):
    global CHECKS
    CHECKS += 1
    if not cond:
        raise AssertionError(msg)


def raises(exc, fn, *args, **kwargs):
    try:
        fn(*args, **kwargs)
    except exc as e:
        return e
    except BaseException as e:  # noqa
        raise AssertionError(
            "expected %s, got %s: %r" % (exc.__name__, type(e).__name__, e)
        )
    raise AssertionError("expected %s, nothing raised" % exc.__name__)


# --------------------------------------------------------------------------
# independent reference model
# --------------------------------------------------------------------------
UNIT = {"b": 1, "w": 2, "dw": 4}


def ref_width(mask):
    return max(1, (mask.bit_length() + 7) // 8)


def ref_tz(mask):
    return (mask & -mask).bit_length() - 1


def ref_int(buf):
    n = 0
    for b in buf:
        n = n * 256 + b
    return n


def ref_bytes(value, size):
    out = []
    for _ in range(size):
        out.append(value % 256)
        value //= 256
    return bytearray(reversed(out))


def ref_decode(data, layout):
    out = {}
    for key, spec in layout.items():
        if len(spec) == 2:
            mask, pos = spec
            window = ref_int(data[pos : pos + ref_width(mask)])
            out[key] = (window >> ref_tz(mask)) & (mask >> ref_tz(mask))
        else:
            kind, off, length = spec
            out[key] = data[off : off + length * UNIT[kind]]
    return out


def ref_encode(values, layout, buf):
    for key, value in values.items():
        if key not in layout:
            continue
        spec = layout[key]
        if len(spec) == 2:
            mask, pos = spec
            n = ref_width(mask)
            assert pos + n <= len(buf)
            window = ref_int(buf[pos : pos + n])
            window ^= (value << ref_tz(mask)) % (1 << (8 * n))
            buf[pos : pos + n] = ref_bytes(window, n)
        else:
            kind, off, length = spec
            buf[off : off + length * UNIT[kind]] = value


def field_for_bits(start, end):
    """legacy [mask, pos] notation for the absolute bit range [start, end)
    (bit 0 = msb of byte 0)"""
    pos = start // 8
    nbytes = (end - 1) // 8 - pos + 1
    mask = ((1 << (end - start)) - 1) << (8 * (pos + nbytes) - end)
    return mask, pos


def random_layout(nbytes, rng, seq_type=list):
    """a random partition of a buffer into non-overlapping fields and gaps"""
    layout = {}
    bits = {}  # key -> (start, end) absolute bit positions
    cur = 0
    total = nbytes * 8
    i = 0
    while cur < total:
        choice = rng.random()
        if choice < 0.2:
            cur += rng.choice([1, 1, 2, 3, 5, 8, 13])
            continue
        key = "f%d" % i
        i += 1
        if choice < 0.4 and cur % 8 == 0:
            kind = rng.choice(["b", "w", "dw"])
            length = rng.randint(0, 3)
            size = length * UNIT[kind]
            if cur + size * 8 > total:
                continue
            layout[key] = (kind, cur // 8, length)
            bits[key] = (cur, cur + size * 8)
            cur += size * 8
        else:
            width = rng.choice(
                [1, 1, 1, 2, 3, 4, 5, 7, 8, 9, 12, 16, 17, 24, 31, 32, 33, 48, 64, 65, 100]
            )
            width = min(width, total - cur)
            mask, pos = field_for_bits(cur, cur + width)
            layout[key] = seq_type([mask, pos])
            bits[key] = (cur, cur + width)
            cur += width
    return layout, bits


def random_values(layout, bits, rng, extreme=None):
    values = {}
    for key, spec in layout.items():
        s, e = bits[key]
        if len(spec) == 2:
            top = (1 << (e - s)) - 1
            if extreme == "max":
                values[key] = top
            elif extreme == "zero":
                values[key] = 0
            else:
                values[key] = rng.choice([rng.randint(0, top), top, 0, 1])
        else:
            size = (e - s) // 8
            values[key] = bytearray(rng.randrange(256) for _ in range(size))
    return values


def shuffled(d, rng):
    items = list(d.items())
    rng.shuffle(items)
    return dict(items)


# --------------------------------------------------------------------------
# 0. public names, import paths, signatures
# --------------------------------------------------------------------------
def test_api():
    for name in (
        "scsi_int_to_ba",
        "scsi_ba_to_int",
        "decode_bits",
        "encode_dict",
        "print_data",
        "get_opcode",
        "CheckDict",
    ):
        check(hasattr(convert, name), "converter lacks %s" % name)
        check(
            getattr(pyscsi.utils, name) is getattr(convert, name),
            "pyscsi.utils.%s is not the converter object" % name,
        )
    sig = inspect.signature
    check(
        str(sig(scsi_int_to_ba)) == "(to_convert=0, array_size=4)",
        "scsi_int_to_ba signature %s" % sig(scsi_int_to_ba),
    )
    check(str(sig(scsi_ba_to_int)) == "(ba)", "scsi_ba_to_int signature")
    check(
        str(sig(decode_bits)) == "(data, check_dict, result_dict)",
        "decode_bits signature",
    )
    check(
        str(sig(encode_dict)) == "(data_dict, check_dict, result)",
        "encode_dict signature",
    )
    check(str(sig(print_data)) == "(data_dict)", "print_data signature")
    check(str(sig(get_opcode)) == "(enum, part)", "get_opcode signature")
    for fn in (scsi_int_to_ba, scsi_ba_to_int, decode_bits, encode_dict):
        check(inspect.isfunction(fn), "%r is not a plain function" % fn)


# --------------------------------------------------------------------------
# 1. int <-> bytes
# --------------------------------------------------------------------------
def test_int_bytes():
    check(scsi_int_to_ba() == bytearray(4), "defaults")
    check(scsi_int_to_ba(34, 4) == bytearray(b'\x00\x00\x00"'), "docstring example")
    check(scsi_int_to_ba(34) == bytearray(b'\x00\x00\x00"'), "default width")
    check(
        scsi_int_to_ba(array_size=2, to_convert=0x1234) == bytearray(b"\x12\x34"),
        "keywords",
    )
    check(scsi_int_to_ba(to_convert=0x0102) == bytearray(b"\x00\x00\x01\x02"), "kw 1")
    check(scsi_int_to_ba(5, 0) == bytearray(), "width 0")
    check(scsi_int_to_ba(0, 0) == bytearray(), "width 0 zero")
    check(scsi_ba_to_int(b"") == 0, "empty")
    check(scsi_ba_to_int(bytearray()) == 0, "empty ba")
    check(scsi_ba_to_int([]) == 0, "empty list")
    check(scsi_int_to_ba(True, 1) == bytearray(b"\x01"), "bool")
    check(scsi_int_to_ba(False, 2) == bytearray(2), "bool false")

    for width in list(range(0, 21)) + [32, 33, 64, 100, 255, 256, 1000]:
        for _ in range(12 if width < 40 else 3):
            value = RNG.getrandbits(8 * width) if width else 0
            for v in {value, 0, (1 << (8 * width)) - 1, 1 if width else 0}:
                ba = scsi_int_to_ba(v, width)
                check(type(ba) is bytearray, "result type %r" % type(ba))
                check(len(ba) == width, "length")
                check(ba == v.to_bytes(width, "big"), "big endian %d/%d" % (v, width))
                check(ba == ref_bytes(v, width), "ref bytes")
                check(scsi_ba_to_int(ba) == v, "inverse ba")
                check(scsi_ba_to_int(bytes(ba)) == v, "inverse bytes")
                check(scsi_ba_to_int(memoryview(bytes(ba))) == v, "inverse memoryview")
                check(scsi_ba_to_int(list(ba)) == v, "inverse list")
                check(scsi_ba_to_int(tuple(ba)) == v, "inverse tuple")
                check(type(scsi_ba_to_int(ba)) is int, "int type")
                # fresh object each time
                check(scsi_int_to_ba(v, width) is not ba, "fresh object")
        # bytes -> int -> bytes
        for _ in range(5):
            raw = bytes(RNG.randrange(256) for _ in range(width))
            n = scsi_ba_to_int(raw)
            check(n == int.from_bytes(raw, "big"), "from_bytes")
            check(scsi_int_to_ba(n, width) == raw, "bytes->int->bytes")
            check(scsi_ba_to_int(bytearray(raw)[0:width]) == n, "slice")
            # leading zero bytes do not matter, trailing ones scale by 256
            check(scsi_ba_to_int(b"\x00\x00" + raw) == n, "leading zeros")
            check(scsi_ba_to_int(raw + b"\x00") == n * 256, "trailing zero")

    # truncation of too-wide values and two's complement of negatives
    for width in range(0, 10):
        mod = 1 << (8 * width)
        for _ in range(20):
            v = RNG.getrandbits(8 * width + 17)
            check(scsi_int_to_ba(v, width) == ref_bytes(v % mod, width), "truncate")
            check(scsi_int_to_ba(-v, width) == ref_bytes((-v) % mod, width), "negative")
        if width:
            check(scsi_int_to_ba(-1, width) == b"\xff" * width, "-1")
            check(scsi_int_to_ba(mod, width) == bytearray(width), "2**n wraps")
            check(scsi_int_to_ba(mod + 1, width)[-1] == 1, "2**n+1 wraps")
    # single bytes: most significant first
    for i in range(8):
        ba = scsi_int_to_ba(0xAB << (8 * i), 8)
        check(ba[7 - i] == 0xAB and sum(ba) == 0xAB, "byte position %d" % i)
    # non-integers are refused
    raises(TypeError, scsi_int_to_ba, 1.5, 2)
    raises(TypeError, scsi_int_to_ba, "12", 2)
    raises(TypeError, scsi_int_to_ba, None, 2)
    raises(TypeError, scsi_ba_to_int, 5)
    raises(TypeError, scsi_ba_to_int, None)


# --------------------------------------------------------------------------
# 2. fields
# --------------------------------------------------------------------------
def test_single_fields():
    nbytes = 12
    for start in range(0, 40):
        for width in list(range(1, 20)) + [24, 31, 32, 33, 40, 47, 48, 56]:
            end = start + width
            if end > nbytes * 8:
                continue
            mask, pos = field_for_bits(start, end)
            layout = {"x": [mask, pos]}
            top = (1 << width) - 1
            fieldbits = top << (nbytes * 8 - end)
            for value in {0, 1, top, top >> 1, RNG.randint(0, top), 1 << (width - 1)}:
                buf = bytearray(nbytes)
                ret = encode_dict({"x": value}, layout, buf)
                check(ret is None, "encode returns None")
                check(len(buf) == nbytes, "buffer length kept")
                got = ref_int(buf)
                check(
                    got == value << (nbytes * 8 - end),
                    "encode %d into bits [%d,%d): %s" % (value, start, end, buf.hex()),
                )
                check(got & ~fieldbits == 0, "bits outside field touched")
                out = {}
                ret = decode_bits(buf, layout, out)
                check(ret is None, "decode returns None")
                check(out == {"x": value}, "roundtrip %r" % out)
                check(type(out["x"]) is int, "decoded type")
                # decode ignores every bit outside of the field
                noise = RNG.getrandbits(nbytes * 8) & ~fieldbits
                noisy = ref_bytes(got | noise, nbytes)
                for data in (noisy, bytes(noisy), memoryview(bytes(noisy))):
                    out = {}
                    decode_bits(data, layout, out)
                    check(out == {"x": value}, "noise leaked into field")
                # encoding onto existing content only flips field bits (xor)
                buf2 = ref_bytes(noise, nbytes)
                encode_dict({"x": value}, layout, buf2)
                check(ref_int(buf2) == noise | got, "encode over noise")
            # all-ones buffer decodes to the maximum
            out = {}
            decode_bits(b"\xff" * nbytes, layout, out)
            check(out["x"] == top, "all ones")
            out = {}
            decode_bits(bytes(nbytes), layout, out)
            check(out["x"] == 0, "all zeros")
            # tuple notation is the same as list notation
            buf = bytearray(nbytes)
            encode_dict({"x": top}, {"x": (mask, pos)}, buf)
            check(ref_int(buf) == fieldbits, "tuple notation")
            out = {}
            decode_bits(buf, {"x": (mask, pos)}, out)
            check(out["x"] == top, "tuple notation decode")


def test_sparse_masks():
    # masks with holes: decode = (window & mask) >> trailing zeros
    for _ in range(400):
        nbytes = RNG.randint(1, 5)
        mask = RNG.getrandbits(8 * nbytes) | (1 << (8 * nbytes - 1 - RNG.randrange(8)))
        pos = RNG.randint(0, 3)
        data = bytes(RNG.randrange(256) for _ in range(pos + nbytes + 2))
        layout = {"m": [mask, pos]}
        out = {}
        decode_bits(data, layout, out)
        window = int.from_bytes(data[pos : pos + ref_width(mask)], "big")
        check(out["m"] == (window & mask) >> ref_tz(mask), "sparse mask decode")
        check(out == ref_decode(data, layout), "sparse ref")
        value = RNG.getrandbits(8 * nbytes + 3)
        buf = bytearray(data)
        exp = bytearray(data)
        encode_dict({"m": value}, layout, buf)
        ref_encode({"m": value}, layout, exp)
        check(buf == exp, "sparse/oversized encode %s vs %s" % (buf.hex(), exp.hex()))


def test_blobs():
    data = bytes(range(1, 41))
    layout = {
        "b": ("b", 3, 5),
        "w": ("w", 8, 3),
        "dw": ("dw", 16, 2),
        "b0": ("b", 7, 0),
        "bl": ["b", 30, 2],
        "tail": ("dw", 36, 4),  # runs past the end: short slice
    }
    for src in (data, bytearray(data), memoryview(data)):
        out = {}
        decode_bits(src, layout, out)
        check(list(out) == list(layout), "key order")
        check(bytes(out["b"]) == data[3:8], "b blob")
        check(bytes(out["w"]) == data[8:14], "w blob")
        check(bytes(out["dw"]) == data[16:24], "dw blob")
        check(bytes(out["b0"]) == b"", "empty blob")
        check(bytes(out["bl"]) == data[30:32], "list notation blob")
        check(bytes(out["tail"]) == data[36:40], "short blob")
        for k in out:
            check(type(out[k]) is type(src[0:1]), "blob type follows buffer type")
    buf = bytearray(40)
    encode_dict(
        {"dw": b"ABCDEFGH", "b": b"12345", "w": bytearray(b"uvwxyz"), "b0": b""},
        layout,
        buf,
    )
    exp = bytearray(40)
    exp[3:8] = b"12345"
    exp[8:14] = b"uvwxyz"
    exp[16:24] = b"ABCDEFGH"
    check(buf == exp, "blob encode %r" % buf)
    # blobs overwrite (no xor)
    buf = bytearray(b"\xff" * 40)
    encode_dict({"b": b"\x0f" * 5}, layout, buf)
    check(buf == b"\xff" * 3 + b"\x0f" * 5 + b"\xff" * 32, "blob overwrites")
    # slice assignment semantics for wrong-sized blobs are kept
    buf = bytearray(10)
    encode_dict({"v": b"xy"}, {"v": ("b", 2, 4)}, buf)
    check(buf == b"\x00\x00xy\x00\x00\x00\x00", "short blob shrinks buffer")
    buf = bytearray(6)
    encode_dict({"v": b"abcdef"}, {"v": ("w", 1, 1)}, buf)
    check(buf == b"\x00abcdef\x00\x00\x00", "long blob grows buffer")
    # the encoded blob is copied, not aliased
    blob = bytearray(b"qrst")
    buf = bytearray(8)
    encode_dict({"v": blob}, {"v": ("dw", 4, 1)}, buf)
    blob[0] = 0
    check(buf == b"\x00\x00\x00\x00qrst", "blob copied")


def test_random_layouts():
    for rnd in range(300):
        nbytes = RNG.randint(1, 40)
        seq_type = RNG.choice([list, tuple])
        layout, bits = random_layout(nbytes, RNG, seq_type)
        if not layout:
            continue
        total = nbytes * 8
        for extreme in (None, "max", "zero", None):
            values = random_values(layout, bits, RNG, extreme)
            buf = bytearray(nbytes)
            encode_dict(values, layout, buf)
            check(len(buf) == nbytes, "length changed")
            # exact bits
            expected = 0
            for key, (s, e) in bits.items():
                v = values[key]
                if not isinstance(v, int):
                    v = ref_int(v)
                expected |= v << (total - e)
            check(
                ref_int(buf) == expected,
                "layout %r values %r -> %s" % (layout, values, buf.hex()),
            )
            exp = bytearray(nbytes)
            ref_encode(values, layout, exp)
            check(buf == exp, "reference encode")
            # decode returns the values
            out = {"untouched": 1}
            decode_bits(buf, layout, out)
            check(out.pop("untouched") == 1, "existing keys kept")
            check(list(out) == list(layout), "decode key order")
            check(out == values, "roundtrip %r != %r" % (out, values))
            check(out == ref_decode(buf, layout), "reference decode")
            # bytes / memoryview input
            out2 = {}
            decode_bits(bytes(buf), layout, out2)
            check(out2 == values, "bytes input")
            out2 = {}
            decode_bits(memoryview(buf), layout, out2)
            check(out2 == values, "memoryview input")
            # order independence
            for _ in range(3):
                buf2 = bytearray(nbytes)
                encode_dict(shuffled(values, RNG), shuffled(layout, RNG), buf2)
                check(buf2 == buf, "encode depends on order")
                lay2 = shuffled(layout, RNG)
                out2 = {}
                decode_bits(buf, lay2, out2)
                check(out2 == values, "decode depends on order")
                check(list(out2) == list(lay2), "decode key order follows layout")
            # one field at a time, accumulating
            buf3 = bytearray(nbytes)
            for key in shuffled(values, RNG):
                before = ref_int(buf3)
                encode_dict({key: values[key]}, layout, buf3)
                s, e = bits[key]
                fieldbits = ((1 << (e - s)) - 1) << (total - e)
                check((ref_int(buf3) ^ before) & ~fieldbits == 0, "field %s leaked" % key)
            check(buf3 == buf, "incremental encode")
            # subsets + unknown keys
            subset = {k: v for k, v in values.items() if RNG.random() < 0.5}
            data_dict = dict(subset)
            data_dict["not_in_layout"] = 123
            data_dict = shuffled(data_dict, RNG)
            buf4 = bytearray(nbytes)
            encode_dict(data_dict, layout, buf4)
            expected = 0
            for key in subset:
                s, e = bits[key]
                v = values[key]
                if not isinstance(v, int):
                    v = ref_int(v)
                expected |= v << (total - e)
            check(ref_int(buf4) == expected, "subset encode")
            check(
                data_dict.get("not_in_layout") == 123 and len(data_dict) == len(subset) + 1,
                "data_dict modified",
            )
        # decode of arbitrary contents
        data = bytes(RNG.randrange(256) for _ in range(nbytes))
        out = {}
        decode_bits(data, layout, out)
        big = ref_int(data)
        for key, (s, e) in bits.items():
            want = (big >> (total - e)) & ((1 << (e - s)) - 1)
            got = out[key] if isinstance(out[key], int) else ref_int(out[key])
            check(got == want, "random decode of %s" % key)
            if not isinstance(out[key], int):
                check(len(out[key]) == (e - s) // 8, "blob length")
        # re-encoding what was decoded reproduces the covered bits
        buf = bytearray(nbytes)
        encode_dict(out, layout, buf)
        covered = 0
        for s, e in bits.values():
            covered |= ((1 << (e - s)) - 1) << (total - e)
        check(ref_int(buf) == big & covered, "decode->encode")
        # layout and input untouched
        check(ref_int(data) == big, "input modified")


def test_mapping_types():
    # any Mapping works as layout / data dict
    from collections import OrderedDict
    from types import MappingProxyType

    layout = {"a": [0xF0, 0], "b": [0x0F, 0], "c": [0x3FFC, 1], "d": ("b", 3, 2)}
    values = {"a": 9, "b": 6, "c": 0xABC, "d": b"hi"}
    want = bytearray(5)
    encode_dict(values, layout, want)
    check(want == bytes([0x96, 0x2A, 0xF0]) + b"hi", "fixed example %s" % want.hex())
    for lay in (OrderedDict(layout), MappingProxyType(layout)):
        for vals in (OrderedDict(values), MappingProxyType(values)):
            buf = bytearray(5)
            encode_dict(vals, lay, buf)
            check(buf == want, "mapping types")
            out = OrderedDict()
            decode_bits(bytes(buf), lay, out)
            check(dict(out) == values, "ordered result")
    # bool / IntEnum values
    import enum

    class E(enum.IntEnum):
        X = 5

    buf = bytearray(3)
    encode_dict({"a": True, "b": E.X, "c": False}, layout, buf)
    check(buf == b"\x15\x00\x00", "bool / enum values")
    buf = bytearray(2)
    encode_dict({"a": E.X, "b": True}, layout, buf)
    check(buf == b"\x51\x00", "bool / enum values 2")


def test_quirks():
    # xor semantics, oversized and negative values (kept bit-for-bit)
    for _ in range(300):
        nbytes = RNG.randint(1, 6)
        width = RNG.randint(1, 8 * nbytes)
        start = RNG.randint(0, 7)
        if start + width > 8 * nbytes:
            continue
        mask, pos = field_for_bits(start, start + width)
        pos += 1
        buf = bytearray(RNG.randrange(256) for _ in range(nbytes + 3))
        exp = bytearray(buf)
        value = RNG.choice([1, -1]) * RNG.getrandbits(8 * nbytes + 5)
        encode_dict({"x": value}, {"x": [mask, pos]}, buf)
        ref_encode({"x": value}, {"x": [mask, pos]}, exp)
        check(buf == exp, "xor/oversized/negative encode")
    # encoding the same value twice cancels out
    buf = bytearray(4)
    encode_dict({"x": 0x155}, {"x": [0x1FF0, 1]}, buf)
    check(buf == b"\x00\x15\x50\x00", "unaligned 9 bit field: %s" % buf.hex())
    encode_dict({"x": 0x155}, {"x": [0x1FF0, 1]}, buf)
    check(buf == bytearray(4), "double encode cancels")
    # buffer too short for a bit field: IndexError, leading bytes already written
    buf = bytearray(3)
    raises(IndexError, encode_dict, {"x": 0x11223344}, {"x": [0xFFFFFFFF, 1]}, buf)
    check(buf == b"\x00\x11\x22", "partial write before IndexError: %s" % buf.hex())
    buf = bytearray(2)
    raises(IndexError, encode_dict, {"x": 1}, {"x": [0x01, 2]}, buf)
    check(buf == bytearray(2), "nothing written")
    # earlier fields stay written when a later one fails
    buf = bytearray(2)
    raises(
        IndexError,
        encode_dict,
        {"a": 3, "x": 1, "z": 1},
        {"a": [0x0F, 0], "x": [0x01, 2], "z": [0x80, 1]},
        buf,
    )
    check(buf == b"\x03\x00", "fields before failure are kept")
    # immutable result buffer
    raises(TypeError, encode_dict, {"x": 1}, {"x": [0x01, 0]}, bytes(2))
    # a list works as a result buffer too
    lst = [0, 0, 0]
    encode_dict({"x": 0x1FF}, {"x": [0x3FE, 1]}, lst)
    check(lst == [0, 0x03, 0xFE], "list result %r" % lst)
    # data too short for a bit field: the available bytes are used
    out = {}
    decode_bits(b"\x12\x34", {"x": [0xFFFFFF, 1], "y": [0xFF, 5], "z": [0xFFF0, 1]}, out)
    check(out == {"x": 0x34, "y": 0, "z": 0x03}, "short data decode %r" % out)
    raises(TypeError, decode_bits, None, {"x": [0xFF, 0]}, {})
    # non-integer values in a bit field are refused, buffer untouched
    for bad in (1.0, "1", None, b"\x01"):
        for m in (0x01, 0x80, 0x0FF0):
            buf = bytearray(3)
            raises(TypeError, encode_dict, {"x": bad}, {"x": [m, 0]}, buf)
            check(buf == bytearray(3), "buffer touched by bad value")
    # missing key in result dict is an error only for layout values
    out = {}
    decode_bits(b"\x00", {}, out)
    check(out == {}, "empty layout")
    buf = bytearray(1)
    encode_dict({}, {"x": [0xFF, 0]}, buf)
    encode_dict({"y": 5}, {}, buf)
    check(buf == b"\x00", "nothing to encode")
    # unknown notation kinds: ignored by encode
    buf = bytearray(4)
    encode_dict({"q": b"zz", "x": 1}, {"q": ("qq", 0, 2), "x": [0x01, 3]}, buf)
    check(buf == b"\x00\x00\x00\x01", "unknown kind ignored by encode")
    # malformed blob notation
    raises(ValueError, decode_bits, b"\x00" * 4, {"q": ("b", 0, 1, 2)}, {})
    raises(ValueError, decode_bits, b"\x00" * 4, {"q": ("w",)}, {})
    raises(ValueError, encode_dict, {"q": b""}, {"q": ("dw", 0, 1, 2)}, bytearray(4))


def test_real_layouts():
    """every CheckDict-like table of the library round-trips like the reference"""
    import pyscsi.pyscsi as pkg

    def is_layout(d):
        if not isinstance(d, dict) or not d:
            return False
        for k, v in d.items():
            if not isinstance(k, str) or not isinstance(v, (list, tuple)):
                return False
            if len(v) == 2:
                if not (
                    type(v[0]) is int and type(v[1]) is int and v[0] > 0 and v[1] >= 0
                ):
                    return False
            elif len(v) == 3:
                if v[0] not in UNIT or type(v[1]) is not int or type(v[2]) is not int:
                    return False
            else:
                return False
        return True

    seen = {}
    for info in pkgutil.walk_packages(pkg.__path__, pkg.__name__ + "."):
        try:
            mod = importlib.import_module(info.name)
        except Exception:
            continue
        stack = [(info.name, mod)]
        while stack:
            path, obj = stack.pop()
            for name, val in list(vars(obj).items()):
                if name.startswith("__"):
                    continue
                if is_layout(val):
                    seen.setdefault(id(val), (path + "." + name, val))
                elif inspect.isclass(val) and val.__module__ == info.name:
                    stack.append((path + "." + name, val))
    check(len(seen) > 50, "only %d layouts found" % len(seen))
    for name, layout in seen.values():
        size = 0
        for spec in layout.values():
            if len(spec) == 2:
                size = max(size, spec[1] + ref_width(spec[0]))
            else:
                size = max(size, spec[1] + spec[2] * UNIT[spec[0]])
        for _ in range(3):
            values = {}
            for key, spec in layout.items():
                if len(spec) == 2:
                    m = spec[0] >> ref_tz(spec[0])
                    values[key] = RNG.getrandbits(m.bit_length()) & m
                else:
                    values[key] = bytearray(
                        RNG.randrange(256) for _ in range(spec[2] * UNIT[spec[0]])
                    )
            values = shuffled(values, RNG)
            buf = bytearray(size)
            exp = bytearray(size)
            encode_dict(values, layout, buf)
            ref_encode(values, layout, exp)
            check(buf == exp, "real layout %s encode" % name)
            out = {}
            decode_bits(buf, layout, out)
            check(out == ref_decode(buf, layout), "real layout %s decode" % name)
            data = bytes(RNG.randrange(256) for _ in range(size))
            out = {}
            decode_bits(data, layout, out)
            check(out == ref_decode(data, layout), "real layout %s decode 2" % name)


def test_commands():
    """through the command classes (public API of the library)"""
    from pyscsi.pyscsi.scsi import SCSI
    from pyscsi.pyscsi.scsi_cdb_read16 import Read16
    from pyscsi.pyscsi.scsi_cdb_inquiry import Inquiry
    from pyscsi.pyscsi.scsi_enum_command import sbc, spc

    class Dev:
        def __init__(self, opcodes):
            self.opcodes = opcodes

        def execute(self, cmd, en_raw_sense=False):
            pass

        def open(self):
            pass

        def close(self):
            pass

    class Mock(SCSI):
        def __init__(self, dev):
            self.device = dev

    with Mock(Dev(sbc)) as s:
        s.blocksize = 512
        for _ in range(50):
            lba = RNG.getrandbits(64)
            tl = RNG.getrandbits(10)
            kw = dict(
                rdprotect=RNG.randrange(8),
                dpo=RNG.randrange(2),
                fua=RNG.randrange(2),
                rarc=RNG.randrange(2),
                group=RNG.randrange(32),
            )
            r = s.read16(lba, tl, **kw)
            cdb = r.cdb
            check(len(cdb) == 16, "cdb length")
            check(cdb[0] == 0x88, "opcode")
            check(
                cdb[1]
                == kw["rdprotect"] << 5 | kw["dpo"] << 4 | kw["fua"] << 3 | kw["rarc"] << 2,
                "flags byte",
            )
            check(bytes(cdb[2:10]) == lba.to_bytes(8, "big"), "lba bytes")
            check(bytes(cdb[10:14]) == tl.to_bytes(4, "big"), "tl bytes")
            check(cdb[14] == kw["group"] and cdb[15] == 0, "group byte")
            d = r.unmarshall_cdb(cdb)
            check(d == dict(kw, opcode=0x88, lba=lba, tl=tl), "unmarshall cdb")
            check(Read16.marshall_cdb(d) == cdb, "marshall(unmarshall)")
            d["tl"] = big_tl = RNG.getrandbits(32)
            cdb2 = Read16.marshall_cdb(d)
            check(bytes(cdb2[10:14]) == big_tl.to_bytes(4, "big"), "big tl")
            check(cdb2[:10] == cdb[:10] and cdb2[14:] == cdb[14:], "only tl changed")
            check(Read16.unmarshall_cdb(cdb2) == d, "big tl roundtrip")
    with Mock(Dev(spc)) as s:
        i = s.inquiry(evpd=1, page_code=0x83, alloclen=300)
        check(bytes(i.cdb) == bytes([0x12, 0x01, 0x83, 0x01, 0x2C, 0x00]), "inquiry cdb")
        d = i.unmarshall_cdb(i.cdb)
        check(
            d == {"opcode": 0x12, "evpd": 1, "page_code": 0x83, "alloc_len": 300},
            "inquiry unmarshall %r" % d,
        )


def test_misc():
    # the rest of the module still works
    import contextlib
    import io

    out = io.StringIO()
    with contextlib.redirect_stdout(out):
        print_data({"a": 1, "b": "x", "c": {"d": 255}})
    check(out.getvalue() == "a -> 0x01\nb -> x\nc\nd -> 0xFF\n", "print_data")
    from pyscsi.pyscsi.scsi_enum_command import spc

    ops = list(get_opcode(spc, "A3"))
    check(len(ops) == 1 and ops[0].value == 0xA3, "get_opcode %r" % ops)
    check([o.value for o in get_opcode(spc, "_6")] == [0x15, 0x1A], "get_opcode _6")


def main():
    test_api()
    test_int_bytes()
    test_single_fields()
    test_sparse_masks()
    test_blobs()
    test_random_layouts()
    test_mapping_types()
    test_quirks()
    test_real_layouts()
    test_commands()
    test_misc()
    print("PASS (%d checks)" % CHECKS)
    return 0


if __name__ == "__main__":
    try:
        sys.exit(main())
    except AssertionError as e:
        print("FAIL:", e)
        sys.exit(1)
