#!/usr/bin/env python
# coding: utf-8
"""
Demo / regression check for property C02 (CDB encode/decode round trip).

    For every command, decoding a CDB the library built returns exactly the
    field values it was built from, and re-encoding a decoded CDB reproduces
    the original bytes.  Changing one field's value changes only that field's
    decoded value.

Everything is exercised through the public API (command classes, the SCSI
convenience wrapper, SCSICommand.marshall_cdb / unmarshall_cdb / init_cdb and
the public helpers of pyscsi.utils.converter).

Run as:
    cd /tmp/seed/C02t && PYTHONPATH=/tmp/seed/C02t /venv/bin/python SEED/demo.py
"""
import hashlib
import random
import sys
import types

# --------------------------------------------------------------------------
# fake external bindings (not installed); only needed so that importing the
# SCSI wrapper can never fail because of them.
# --------------------------------------------------------------------------
for _name in ("sgio", "iscsi"):
    if _name not in sys.modules:
        try:
            __import__(_name)
        except Exception:  # pragma: no cover - depends on the environment
            _m = types.ModuleType(_name)

            class _CheckConditionError(Exception):
                pass

            _m.CheckConditionError = _CheckConditionError
            _m.execute = lambda *a, **k: 0
            sys.modules[_name] = _m

from pyscsi.pyscsi.scsi import SCSI  # noqa: E402
from pyscsi.pyscsi.scsi_cdb_atapassthrough12 import ATAPassThrough12  # noqa: E402
from pyscsi.pyscsi.scsi_cdb_atapassthrough16 import ATAPassThrough16  # noqa: E402
from pyscsi.pyscsi.scsi_cdb_exchangemedium import ExchangeMedium  # noqa: E402
from pyscsi.pyscsi.scsi_cdb_extended_copy_spc4 import (  # noqa: E402
    ExtendedCopy as ExtendedCopy4,
)
from pyscsi.pyscsi.scsi_cdb_extended_copy_spc5 import (  # noqa: E402
    ExtendedCopy as ExtendedCopy5,
)
from pyscsi.pyscsi.scsi_cdb_getlbastatus import GetLBAStatus  # noqa: E402
from pyscsi.pyscsi.scsi_cdb_initelementstatus import (  # noqa: E402
    InitializeElementStatus,
)
from pyscsi.pyscsi.scsi_cdb_initelementstatuswithrange import (  # noqa: E402
    InitializeElementStatusWithRange,
)
from pyscsi.pyscsi.scsi_cdb_inquiry import Inquiry  # noqa: E402
from pyscsi.pyscsi.scsi_cdb_modesense6 import ModeSelect6, ModeSense6  # noqa: E402
from pyscsi.pyscsi.scsi_cdb_modesense10 import ModeSelect10, ModeSense10  # noqa: E402
from pyscsi.pyscsi.scsi_cdb_movemedium import MoveMedium  # noqa: E402
from pyscsi.pyscsi.scsi_cdb_openclose_exportimport_element import (  # noqa: E402
    OpenCloseImportExportElement,
)
from pyscsi.pyscsi.scsi_cdb_persistentreservein import (  # noqa: E402
    PersistentReserveIn,
    PersistentReserveInReadFullStatus,
    PersistentReserveInReadKeys,
    PersistentReserveInReadReservation,
    PersistentReserveInReportCapabilities,
)
from pyscsi.pyscsi.scsi_cdb_persistentreserveout import (  # noqa: E402
    PersistentReserveOut,
)
from pyscsi.pyscsi.scsi_cdb_positiontoelement import PositionToElement  # noqa: E402
from pyscsi.pyscsi.scsi_cdb_preventallow_mediumremoval import (  # noqa: E402
    PreventAllowMediumRemoval,
)
from pyscsi.pyscsi.scsi_cdb_read10 import Read10  # noqa: E402
from pyscsi.pyscsi.scsi_cdb_read12 import Read12  # noqa: E402
from pyscsi.pyscsi.scsi_cdb_read16 import Read16  # noqa: E402
from pyscsi.pyscsi.scsi_cdb_readcapacity10 import ReadCapacity10  # noqa: E402
from pyscsi.pyscsi.scsi_cdb_readcapacity16 import ReadCapacity16  # noqa: E402
from pyscsi.pyscsi.scsi_cdb_readcd import ReadCd  # noqa: E402
from pyscsi.pyscsi.scsi_cdb_readdiscinformation import (  # noqa: E402
    ReadDiscInformation,
)
from pyscsi.pyscsi.scsi_cdb_readelementstatus import ReadElementStatus  # noqa: E402
from pyscsi.pyscsi.scsi_cdb_report_luns import ReportLuns  # noqa: E402
from pyscsi.pyscsi.scsi_cdb_report_priority import ReportPriority  # noqa: E402
from pyscsi.pyscsi.scsi_cdb_report_target_port_groups import (  # noqa: E402
    ReportTargetPortGroups,
)
from pyscsi.pyscsi.scsi_cdb_synchronize_cache10 import (  # noqa: E402
    SynchronizeCache10,
)
from pyscsi.pyscsi.scsi_cdb_synchronize_cache16 import (  # noqa: E402
    SynchronizeCache16,
)
from pyscsi.pyscsi.scsi_cdb_testunitready import TestUnitReady  # noqa: E402
from pyscsi.pyscsi.scsi_cdb_write10 import Write10  # noqa: E402
from pyscsi.pyscsi.scsi_cdb_write12 import Write12  # noqa: E402
from pyscsi.pyscsi.scsi_cdb_write16 import Write16  # noqa: E402
from pyscsi.pyscsi.scsi_cdb_writesame10 import WriteSame10  # noqa: E402
from pyscsi.pyscsi.scsi_cdb_writesame16 import WriteSame16  # noqa: E402
from pyscsi.pyscsi.scsi_command import SCSICommand  # noqa: E402
from pyscsi.pyscsi.scsi_enum_command import mmc, sbc, smc, spc, ssc  # noqa: E402
from pyscsi.pyscsi.scsi_opcode import OpCode  # noqa: E402
from pyscsi.utils.converter import (  # noqa: E402
    decode_bits,
    encode_dict,
    get_opcode,
    scsi_ba_to_int,
    scsi_int_to_ba,
)

# digest of every observable produced below, recorded on the unmodified tree
GOLDEN_DIGEST = "fef50ea8f71c0564297eb505e65938df7fd5fdc96b1a1091cb03cf806e8df00c"

FAILURES = []
_DIGEST = hashlib.sha256()
_COUNT = [0]


def check(cond, msg):
    _COUNT[0] += 1
    if not cond:
        FAILURES.append(msg)
        if len(FAILURES) <= 25:
            print("FAIL:", msg)


def record(*items):
    """feed an observable into the golden digest"""
    for it in items:
        if isinstance(it, (bytes, bytearray)):
            it = "%s:%s" % (type(it).__name__, bytes(it).hex())
        elif isinstance(it, dict):
            it = "{" + ",".join(
                "%r=%s" % (k, _norm(v)) for k, v in it.items()
            ) + "}"
        else:
            it = _norm(it)
        _DIGEST.update(it.encode("utf-8"))
        _DIGEST.update(b"\x00")


def _norm(v):
    if isinstance(v, (bytes, bytearray)):
        return "%s:%s" % (type(v).__name__, bytes(v).hex())
    if isinstance(v, bool):
        return "bool:%r" % v
    if isinstance(v, int):
        return "int:%d" % v
    return "%s:%r" % (type(v).__name__, v)


def outcome(fn, *a, **k):
    """(tag, value) where exceptions are reduced to their class name"""
    try:
        return ("ok", fn(*a, **k))
    except Exception as e:  # noqa: BLE001
        return ("exc", type(e).__name__)


# --------------------------------------------------------------------------
# command table
#
# every entry: (label, class, opcode, {ctor-field: bits or list-of-values},
#               make(opcode, v) -> instance,
#               expect(opcode, v) -> dict of *all* decoded cdb fields)
# --------------------------------------------------------------------------
OP_9E = next(get_opcode(sbc, "9E"))
OP_A3 = next(get_opcode(spc, "A3"))
PR_IN = spc.PERSISTENT_RESERVE_IN
PR_OUT = spc.PERSISTENT_RESERVE_OUT


def ata16_lba(lba):
    b = (lba & 0xFFFFFFFFFFFF).to_bytes(6, "little")
    return int.from_bytes(bytes([b[3], b[0], b[4], b[1], b[5], b[2]]), "big")


def ata12_lba(lba):
    b = (lba & 0xFFFFFF).to_bytes(3, "little")
    return int.from_bytes(bytes([b[0], b[1], b[2]]), "big")


def rw_spec(label, cls, op, lba_bits, tl_bits, write):
    prot = "wrprotect" if write else "rdprotect"
    fields = {
        "lba": lba_bits,
        "tl": min(tl_bits, 12),
        prot: 3,
        "dpo": 1,
        "fua": 1,
        "group": 5,
    }
    if not write:
        fields["rarc"] = 1

    def make(opc, v):
        if write:
            return cls(
                opc,
                1,
                v["lba"],
                v["tl"],
                bytearray(v["tl"]),
                wrprotect=v[prot],
                dpo=v["dpo"],
                fua=v["fua"],
                group=v["group"],
            )
        return cls(
            opc,
            1,
            v["lba"],
            v["tl"],
            rdprotect=v[prot],
            dpo=v["dpo"],
            fua=v["fua"],
            rarc=v["rarc"],
            group=v["group"],
        )

    def expect(opc, v):
        d = dict(v)
        d["opcode"] = opc.value
        return d

    return (label, cls, op, fields, make, expect)


def simple(label, cls, op, fields, make, expect):
    return (label, cls, op, fields, make, expect)


def _e(opc, v, **more):
    d = {"opcode": opc.value}
    d.update(more)
    return d


SPECS = [
    rw_spec("Read10", Read10, sbc.READ_10, 32, 16, False),
    rw_spec("Read12", Read12, sbc.READ_12, 32, 32, False),
    rw_spec("Read16", Read16, sbc.READ_16, 64, 32, False),
    rw_spec("Write10", Write10, sbc.WRITE_10, 32, 16, True),
    rw_spec("Write12", Write12, sbc.WRITE_12, 32, 32, True),
    rw_spec("Write16", Write16, sbc.WRITE_16, 64, 32, True),
    simple(
        "WriteSame10",
        WriteSame10,
        sbc.WRITE_SAME_10,
        {"lba": 32, "nb": 16, "wrprotect": 3, "anchor": 1, "unmap": 1, "group": 5},
        lambda o, v: WriteSame10(
            o,
            8,
            v["lba"],
            v["nb"],
            bytearray(8),
            wrprotect=v["wrprotect"],
            anchor=v["anchor"],
            unmap=v["unmap"],
            group=v["group"],
        ),
        lambda o, v: _e(o, v, **v),
    ),
    simple(
        "WriteSame16",
        WriteSame16,
        sbc.WRITE_SAME_16,
        {
            "lba": 64,
            "nb": 32,
            "wrprotect": 3,
            "anchor": 1,
            "unmap": 1,
            "ndob": 1,
            "group": 5,
        },
        lambda o, v: WriteSame16(
            o,
            8,
            v["lba"],
            v["nb"],
            bytearray(8),
            wrprotect=v["wrprotect"],
            anchor=v["anchor"],
            unmap=v["unmap"],
            ndob=v["ndob"],
            group=v["group"],
        ),
        lambda o, v: _e(o, v, **v),
    ),
    simple(
        "SynchronizeCache10",
        SynchronizeCache10,
        sbc.SYNCHRONIZE_CACHE_10,
        {"lba": 32, "numblks": 16, "immed": 1, "group": 5},
        lambda o, v: SynchronizeCache10(
            o, v["lba"], v["numblks"], immed=v["immed"], group=v["group"]
        ),
        lambda o, v: _e(o, v, **v),
    ),
    simple(
        "SynchronizeCache16",
        SynchronizeCache16,
        sbc.SYNCHRONIZE_CACHE_16,
        {"lba": 64, "numblks": 32, "immed": 1, "group": 5},
        lambda o, v: SynchronizeCache16(
            o, v["lba"], v["numblks"], immed=v["immed"], group=v["group"]
        ),
        lambda o, v: _e(o, v, **v),
    ),
    simple(
        "ReadCapacity10",
        ReadCapacity10,
        sbc.READ_CAPACITY_10,
        {"alloclen": 10},
        lambda o, v: ReadCapacity10(o, alloclen=v["alloclen"]),
        lambda o, v: _e(o, v),
    ),
    simple(
        "ReadCapacity16",
        ReadCapacity16,
        OP_9E,
        {"alloclen": 18},
        lambda o, v: ReadCapacity16(o, alloclen=v["alloclen"]),
        lambda o, v: _e(
            o,
            v,
            service_action=o.serviceaction.READ_CAPACITY_16,
            alloc_len=v["alloclen"],
        ),
    ),
    simple(
        "GetLBAStatus",
        GetLBAStatus,
        OP_9E,
        {"lba": 64, "alloclen": 18},
        lambda o, v: GetLBAStatus(o, v["lba"], alloclen=v["alloclen"]),
        lambda o, v: _e(
            o,
            v,
            service_action=o.serviceaction.GET_LBA_STATUS,
            lba=v["lba"],
            alloc_len=v["alloclen"],
        ),
    ),
    simple(
        "Inquiry",
        Inquiry,
        spc.INQUIRY,
        {"evpd": 1, "page_code": 8, "alloclen": 16},
        lambda o, v: Inquiry(
            o, evpd=v["evpd"], page_code=v["page_code"], alloclen=v["alloclen"]
        ),
        lambda o, v: _e(
            o, v, evpd=v["evpd"], page_code=v["page_code"], alloc_len=v["alloclen"]
        ),
    ),
    simple(
        "ModeSense6",
        ModeSense6,
        spc.MODE_SENSE_6,
        {"page_code": 6, "sub_page_code": 8, "dbd": 1, "pc": 2, "alloclen": 8},
        lambda o, v: ModeSense6(
            o,
            v["page_code"],
            sub_page_code=v["sub_page_code"],
            dbd=v["dbd"],
            pc=v["pc"],
            alloclen=v["alloclen"],
        ),
        lambda o, v: _e(
            o,
            v,
            page_code=v["page_code"],
            sub_page_code=v["sub_page_code"],
            dbd=v["dbd"],
            pc=v["pc"],
            alloc_len=v["alloclen"],
        ),
    ),
    simple(
        "ModeSense10",
        ModeSense10,
        spc.MODE_SENSE_10,
        {
            "page_code": 6,
            "sub_page_code": 8,
            "llbaa": 1,
            "dbd": 1,
            "pc": 2,
            "alloclen": 16,
        },
        lambda o, v: ModeSense10(
            o,
            v["page_code"],
            sub_page_code=v["sub_page_code"],
            llbaa=v["llbaa"],
            dbd=v["dbd"],
            pc=v["pc"],
            alloclen=v["alloclen"],
        ),
        lambda o, v: _e(
            o,
            v,
            page_code=v["page_code"],
            sub_page_code=v["sub_page_code"],
            llbaa=v["llbaa"],
            dbd=v["dbd"],
            pc=v["pc"],
            alloc_len=v["alloclen"],
        ),
    ),
    simple(
        "ModeSelect6",
        ModeSelect6,
        spc.MODE_SELECT_6,
        {"pf": 1, "sp": 1},
        lambda o, v: ModeSelect6(
            o,
            {"mode_pages": [{"spf": 0, "page_code": 0x0A, "tst": 1}]},
            pf=v["pf"],
            sp=v["sp"],
        ),
        lambda o, v: _e(o, v, pf=v["pf"], sp=v["sp"], parameter_list_length=16),
    ),
    simple(
        "ModeSelect10",
        ModeSelect10,
        spc.MODE_SELECT_10,
        {"pf": 1, "sp": 1},
        lambda o, v: ModeSelect10(
            o,
            {"mode_pages": [{"spf": 0, "page_code": 0x0A, "tst": 1}]},
            pf=v["pf"],
            sp=v["sp"],
        ),
        lambda o, v: _e(o, v, pf=v["pf"], sp=v["sp"], parameter_list_length=20),
    ),
    simple(
        "PreventAllowMediumRemoval",
        PreventAllowMediumRemoval,
        spc.PREVENT_ALLOW_MEDIUM_REMOVAL,
        {"prevent": 2},
        lambda o, v: PreventAllowMediumRemoval(o, prevent=v["prevent"]),
        lambda o, v: _e(o, v, prevent=v["prevent"]),
    ),
    simple(
        "TestUnitReady",
        TestUnitReady,
        spc.TEST_UNIT_READY,
        {},
        lambda o, v: TestUnitReady(o),
        lambda o, v: _e(o, v),
    ),
    simple(
        "ReportLuns",
        ReportLuns,
        spc.REPORT_LUNS,
        {"report": 8, "alloclen": 18},
        lambda o, v: ReportLuns(o, report=v["report"], alloclen=v["alloclen"]),
        lambda o, v: _e(o, v, select_report=v["report"], alloc_len=v["alloclen"]),
    ),
    simple(
        "ReportPriority",
        ReportPriority,
        OP_A3,
        {"priority": 2, "alloclen": 18},
        lambda o, v: ReportPriority(o, priority=v["priority"], alloclen=v["alloclen"]),
        lambda o, v: _e(
            o,
            v,
            service_action=o.serviceaction.REPORT_PRIORITY,
            priority_reported=v["priority"],
            alloc_len=v["alloclen"],
        ),
    ),
    simple(
        "ReportTargetPortGroups",
        ReportTargetPortGroups,
        OP_A3,
        {"data_format": 3, "alloclen": 18},
        lambda o, v: ReportTargetPortGroups(
            o, data_format=v["data_format"], alloclen=v["alloclen"]
        ),
        lambda o, v: _e(
            o,
            v,
            service_action=o.serviceaction.REPORT_TARGET_PORT_GROUPS,
            parameter_data_format=v["data_format"],
            alloc_len=v["alloclen"],
        ),
    ),
    simple(
        "PersistentReserveIn",
        PersistentReserveIn,
        PR_IN,
        {"service_action": 5, "alloclen": 16},
        lambda o, v: PersistentReserveIn(o, v["service_action"], alloclen=v["alloclen"]),
        lambda o, v: _e(
            o, v, service_action=v["service_action"], alloc_len=v["alloclen"]
        ),
    ),
    simple(
        "PersistentReserveInReadKeys",
        PersistentReserveInReadKeys,
        PR_IN,
        {"alloclen": 16},
        lambda o, v: PersistentReserveInReadKeys(o, alloclen=v["alloclen"]),
        lambda o, v: _e(o, v, service_action=0, alloc_len=v["alloclen"]),
    ),
    simple(
        "PersistentReserveInReadReservation",
        PersistentReserveInReadReservation,
        PR_IN,
        {"alloclen": 16},
        lambda o, v: PersistentReserveInReadReservation(o, alloclen=v["alloclen"]),
        lambda o, v: _e(o, v, service_action=1, alloc_len=v["alloclen"]),
    ),
    simple(
        "PersistentReserveInReportCapabilities",
        PersistentReserveInReportCapabilities,
        PR_IN,
        {"alloclen": 16},
        lambda o, v: PersistentReserveInReportCapabilities(o, alloclen=v["alloclen"]),
        lambda o, v: _e(o, v, service_action=2, alloc_len=v["alloclen"]),
    ),
    simple(
        "PersistentReserveInReadFullStatus",
        PersistentReserveInReadFullStatus,
        PR_IN,
        {"alloclen": 16},
        lambda o, v: PersistentReserveInReadFullStatus(o, alloclen=v["alloclen"]),
        lambda o, v: _e(o, v, service_action=3, alloc_len=v["alloclen"]),
    ),
    simple(
        "PersistentReserveOut",
        PersistentReserveOut,
        PR_OUT,
        {"service_action": [0, 1, 2, 3, 4, 5, 6, 8], "scope": 4, "pr_type": 4},
        lambda o, v: PersistentReserveOut(
            o,
            v["service_action"],
            scope=v["scope"],
            pr_type=v["pr_type"],
            reservation_key=0x1122334455667788,
        ),
        lambda o, v: _e(
            o,
            v,
            service_action=v["service_action"],
            scope=v["scope"],
            pr_type=v["pr_type"],
            parameter_list_length=24,
        ),
    ),
    simple(
        "ExtendedCopy4",
        ExtendedCopy4,
        spc.EXTENDED_COPY,
        {"n": 6},
        lambda o, v: ExtendedCopy4(o, list_identifier=7, inline_data=bytearray(v["n"])),
        lambda o, v: _e(o, v, service_action=0, parameter_list_length=16 + v["n"]),
    ),
    simple(
        "ExtendedCopy5",
        ExtendedCopy5,
        spc.EXTENDED_COPY,
        {"n": 6},
        lambda o, v: ExtendedCopy5(o, list_identifier=7, inline_data=bytearray(v["n"])),
        lambda o, v: _e(o, v, service_action=1, parameter_list_length=48 + v["n"]),
    ),
    simple(
        "ExchangeMedium",
        ExchangeMedium,
        smc.EXCHANGE_MEDIUM,
        {"xfer": 16, "source": 16, "dest1": 16, "dest2": 16, "inv1": 1, "inv2": 1},
        lambda o, v: ExchangeMedium(
            o,
            v["xfer"],
            v["source"],
            v["dest1"],
            v["dest2"],
            inv1=v["inv1"],
            inv2=v["inv2"],
        ),
        lambda o, v: _e(
            o,
            v,
            medium_transport_address=v["xfer"],
            source_address=v["source"],
            first_destination_address=v["dest1"],
            second_destination_address=v["dest2"],
            inv1=v["inv1"],
            inv2=v["inv2"],
        ),
    ),
    simple(
        "MoveMedium",
        MoveMedium,
        smc.MOVE_MEDIUM,
        {"xfer": 16, "source": 16, "dest": 16, "invert": 1},
        lambda o, v: MoveMedium(o, v["xfer"], v["source"], v["dest"], invert=v["invert"]),
        lambda o, v: _e(
            o,
            v,
            medium_transport_address=v["xfer"],
            source_address=v["source"],
            destination_address=v["dest"],
            invert=v["invert"],
        ),
    ),
    simple(
        "PositionToElement",
        PositionToElement,
        smc.POSITION_TO_ELEMENT,
        {"xfer": 16, "dest": 16, "invert": 1},
        lambda o, v: PositionToElement(o, v["xfer"], v["dest"], invert=v["invert"]),
        lambda o, v: _e(
            o,
            v,
            medium_transport_address=v["xfer"],
            destination_address=v["dest"],
            invert=v["invert"],
        ),
    ),
    simple(
        "InitializeElementStatus",
        InitializeElementStatus,
        smc.INITIALIZE_ELEMENT_STATUS,
        {},
        lambda o, v: InitializeElementStatus(o),
        lambda o, v: _e(o, v),
    ),
    simple(
        "InitializeElementStatusWithRange",
        InitializeElementStatusWithRange,
        smc.INITIALIZE_ELEMENT_STATUS_WITH_RANGE,
        {"xfer": 16, "elements": 16, "rng": 1, "fast": 1},
        lambda o, v: InitializeElementStatusWithRange(
            o, v["xfer"], v["elements"], rng=v["rng"], fast=v["fast"]
        ),
        lambda o, v: _e(
            o,
            v,
            starting_element_address=v["xfer"],
            number_of_elements=v["elements"],
            range=v["rng"],
            fast=v["fast"],
        ),
    ),
    simple(
        "OpenCloseImportExportElement",
        OpenCloseImportExportElement,
        smc.OPEN_CLOSE_IMPORT_EXPORT_ELEMENT,
        {"xfer": 16, "acode": 5},
        lambda o, v: OpenCloseImportExportElement(o, v["xfer"], v["acode"]),
        lambda o, v: _e(o, v, element_address=v["xfer"], action_code=v["acode"]),
    ),
    simple(
        "ReadElementStatus",
        ReadElementStatus,
        smc.READ_ELEMENT_STATUS,
        {
            "start": 16,
            "num": 16,
            "element_type": 4,
            "voltag": 1,
            "curdata": 1,
            "dvcid": 1,
            "alloclen": 18,
        },
        lambda o, v: ReadElementStatus(
            o,
            v["start"],
            v["num"],
            element_type=v["element_type"],
            voltag=v["voltag"],
            curdata=v["curdata"],
            dvcid=v["dvcid"],
            alloclen=v["alloclen"],
        ),
        lambda o, v: _e(
            o,
            v,
            starting_element_address=v["start"],
            num_elements=v["num"],
            element_type=v["element_type"],
            voltag=v["voltag"],
            curdata=v["curdata"],
            dvcid=v["dvcid"],
            alloc_len=v["alloclen"],
        ),
    ),
    simple(
        "ReadCd",
        ReadCd,
        mmc.READ_CD,
        {"lba": 32, "tl": 5, "est": 3, "dap": 1, "mcsb": 5, "c2ei": 2, "scsb": 3},
        lambda o, v: ReadCd(
            o,
            lba=v["lba"],
            tl=v["tl"],
            est=v["est"],
            dap=v["dap"],
            mcsb=v["mcsb"],
            c2ei=v["c2ei"],
            scsb=v["scsb"],
        ),
        lambda o, v: _e(o, v, **v),
    ),
    simple(
        "ReadDiscInformation",
        ReadDiscInformation,
        mmc.READ_DISC_INFORMATION,
        {"data_type": 3, "alloc_len": 16},
        lambda o, v: ReadDiscInformation(o, v["data_type"], alloc_len=v["alloc_len"]),
        lambda o, v: _e(o, v, data_type=v["data_type"], alloc_len=v["alloc_len"]),
    ),
    simple(
        "ATAPassThrough12",
        ATAPassThrough12,
        sbc.ATA_PASS_THROUGH_12,
        {
            "protocal": 4,
            "t_length": 2,
            "byte_block": 1,
            "t_dir": 1,
            "t_type": 1,
            "off_line": 2,
            "fetures": 8,
            "count": 8,
            "lba": 24,
            "command": 8,
            "ck_cond": 1,
            "device": 8,
            "control": 8,
        },
        lambda o, v: ATAPassThrough12(
            o,
            v["protocal"],
            v["t_length"],
            v["byte_block"],
            v["t_dir"],
            v["t_type"],
            v["off_line"],
            v["fetures"],
            v["count"],
            v["lba"],
            v["command"],
            blocksize=4,
            extra_tl=3,
            ck_cond=v["ck_cond"],
            device=v["device"],
            control=v["control"],
        ),
        lambda o, v: _e(
            o,
            v,
            protocol=v["protocal"],
            t_length=v["t_length"],
            byte_block=v["byte_block"],
            t_dir=v["t_dir"],
            t_type=v["t_type"],
            off_line=v["off_line"],
            fetures=v["fetures"],
            count=v["count"],
            lba=ata12_lba(v["lba"]),
            command=v["command"],
            ck_cond=v["ck_cond"],
            device=v["device"],
            control=v["control"],
        ),
    ),
    simple(
        "ATAPassThrough16",
        ATAPassThrough16,
        sbc.ATA_PASS_THROUGH_16,
        {
            "protocal": 4,
            "t_length": 2,
            "byte_block": 1,
            "t_dir": 1,
            "t_type": 1,
            "off_line": 2,
            "fetures": 16,
            "count": 16,
            "lba": 48,
            "command": 8,
            "ck_cond": 1,
            "device": 8,
            "control": 8,
            "extend": 1,
        },
        lambda o, v: ATAPassThrough16(
            o,
            v["protocal"],
            v["t_length"],
            v["byte_block"],
            v["t_dir"],
            v["t_type"],
            v["off_line"],
            v["fetures"],
            v["count"],
            v["lba"],
            v["command"],
            blocksize=4,
            extra_tl=3,
            ck_cond=v["ck_cond"],
            device=v["device"],
            control=v["control"],
            extend=v["extend"],
        ),
        lambda o, v: _e(
            o,
            v,
            protocol=v["protocal"],
            t_length=v["t_length"],
            byte_block=v["byte_block"],
            t_dir=v["t_dir"],
            t_type=v["t_type"],
            off_line=v["off_line"],
            fetures=v["fetures"],
            count=v["count"],
            lba=ata16_lba(v["lba"]),
            command=v["command"],
            ck_cond=v["ck_cond"],
            device=v["device"],
            control=v["control"],
            extend=v["extend"],
        ),
    ),
]

# the expected CDB length per command (SCSI opcode group rule)
EXPECTED_LEN = {
    "Read10": 10, "Read12": 12, "Read16": 16, "Write10": 10, "Write12": 12,
    "Write16": 16, "WriteSame10": 10, "WriteSame16": 16,
    "SynchronizeCache10": 10, "SynchronizeCache16": 16, "ReadCapacity10": 10,
    "ReadCapacity16": 16, "GetLBAStatus": 16, "Inquiry": 6, "ModeSense6": 6,
    "ModeSense10": 10, "ModeSelect6": 6, "ModeSelect10": 10,
    "PreventAllowMediumRemoval": 6, "TestUnitReady": 6, "ReportLuns": 12,
    "ReportPriority": 12, "ReportTargetPortGroups": 12,
    "PersistentReserveIn": 10, "PersistentReserveInReadKeys": 10,
    "PersistentReserveInReadReservation": 10,
    "PersistentReserveInReportCapabilities": 10,
    "PersistentReserveInReadFullStatus": 10, "PersistentReserveOut": 10,
    "ExtendedCopy4": 16, "ExtendedCopy5": 16, "ExchangeMedium": 12,
    "MoveMedium": 12, "PositionToElement": 10, "InitializeElementStatus": 6,
    "InitializeElementStatusWithRange": 10, "OpenCloseImportExportElement": 6,
    "ReadElementStatus": 12, "ReadCd": 12, "ReadDiscInformation": 10,
    "ATAPassThrough12": 12, "ATAPassThrough16": 16,
}  # fmt: skip


def field_values(spec_fields, rng, mode):
    """pick one value per constructor field"""
    v = {}
    for name, dom in spec_fields.items():
        if isinstance(dom, list):
            if mode == "zero":
                v[name] = dom[0]
            elif mode == "max":
                v[name] = dom[-1]
            else:
                v[name] = rng.choice(dom)
            continue
        top = (1 << dom) - 1
        if mode == "zero":
            v[name] = 0
        elif mode == "max":
            v[name] = top
        elif mode == "walk":
            v[name] = 1 << rng.randrange(dom)
        else:
            v[name] = rng.randint(0, top)
    return v


def other_value(dom, cur, rng):
    if isinstance(dom, list):
        return rng.choice([x for x in dom if x != cur])
    top = (1 << dom) - 1
    while True:
        n = rng.randint(0, top)
        if n != cur:
            return n


def check_instance(label, cls, op, cmd, want):
    """the three basic observations on one built command"""
    cdb = cmd.cdb
    check(isinstance(cdb, bytearray), "%s: cdb is not a bytearray" % label)
    check(
        len(cdb) == EXPECTED_LEN[label],
        "%s: cdb length %d != %d" % (label, len(cdb), EXPECTED_LEN[label]),
    )
    check(cdb[0] == op.value, "%s: byte 0 is not the opcode" % label)
    got = cmd.unmarshall_cdb(cdb)
    check(type(got) is dict, "%s: decoded cdb is not a dict" % label)
    check(got == want, "%s: decoded %r, expected %r" % (label, got, want))
    check(
        list(got.keys())[0] == "opcode" and set(got) == set(want),
        "%s: decoded key set differs" % label,
    )
    for k, val in got.items():
        check(
            type(val) is int,
            "%s: decoded field %s has type %s" % (label, k, type(val).__name__),
        )
    # decode via class and via base class must agree with the instance call
    check(cls.unmarshall_cdb(cdb) == got, "%s: class-level decode differs" % label)
    check(
        SCSICommand.unmarshall_cdb(bytes(cdb)) == got,
        "%s: decode of a bytes copy differs" % label,
    )
    # re-encode
    again = cls.marshall_cdb(got)
    check(isinstance(again, bytearray), "%s: re-encoded cdb is not bytearray" % label)
    check(again == cdb, "%s: re-encode %s != %s" % (label, again.hex(), cdb.hex()))
    check(cmd.marshall_cdb(got) == cdb, "%s: instance re-encode differs" % label)
    # re-encoding must not depend on dict order
    rev = dict(reversed(list(got.items())))
    check(cls.marshall_cdb(rev) == cdb, "%s: re-encode depends on key order" % label)
    # unknown keys are ignored by the encoder
    noisy = dict(got)
    noisy["__no_such_field__"] = 0xFFFF
    check(cls.marshall_cdb(noisy) == cdb, "%s: unknown key changed the cdb" % label)
    # build_cdb (the public builder used by the constructors) agrees
    check(cmd.build_cdb(**got) == cdb, "%s: build_cdb(**decoded) differs" % label)
    # decoding does not modify its input, encoding does not modify the dict
    check(cmd.cdb == cdb and got == want, "%s: inputs were modified" % label)
    record(label, cdb, got)
    return cdb, got


def run_command_checks():
    rng = random.Random(0xC02)
    for label, cls, op, fields, make, expect in SPECS:
        modes = ["zero", "max"] + ["walk"] * 6 + ["rand"] * 24
        for mode in modes:
            v = field_values(fields, rng, mode)
            cmd = make(op, v)
            want = expect(op, v)
            cdb, got = check_instance(label, cls, op, cmd, want)
            check(cmd.opcode is op, "%s: opcode property" % label)

            # one-field perturbation: only the mapped decoded key(s) change
            for name in fields:
                v2 = dict(v)
                v2[name] = other_value(fields[name], v[name], rng)
                cmd2 = make(op, v2)
                want2 = expect(op, v2)
                got2 = cmd2.unmarshall_cdb(cmd2.cdb)
                check(
                    got2 == want2,
                    "%s: after changing %s decoded %r expected %r"
                    % (label, name, got2, want2),
                )
                changed = {k for k in got if got[k] != got2[k]}
                allowed = {k for k in want if want[k] != want2[k]}
                check(
                    changed == allowed and len(changed) <= 1,
                    "%s: changing %s changed decoded fields %r (allowed %r)"
                    % (label, name, sorted(changed), sorted(allowed)),
                )
                check(
                    (cmd2.cdb != cdb) == bool(changed),
                    "%s: cdb bytes / decoded change mismatch for %s" % (label, name),
                )
                check(
                    cls.marshall_cdb(got2) == cmd2.cdb,
                    "%s: re-encode after changing %s" % (label, name),
                )
                record(label, name, cmd2.cdb)

        # full-range values through marshall_cdb / unmarshall_cdb directly
        base = make(op, field_values(fields, rng, "zero"))  # selects the layout
        keys = list(base.unmarshall_cdb(base.cdb).keys())
        # find each decoded field's width by probing with an all-ones cdb
        ones = cls.unmarshall_cdb(bytearray(b"\xff" * len(base.cdb)))
        for _ in range(20):
            d = {k: rng.randint(0, ones[k]) & ones[k] for k in keys}
            # (non contiguous masks do not exist in the library tables, but be
            #  safe: only use values that survive the mask)
            enc = cls.marshall_cdb(d)
            dec = cls.unmarshall_cdb(enc)
            check(dec == d, "%s: full-range dict %r decoded as %r" % (label, d, dec))
            check(cls.marshall_cdb(dec) == enc, "%s: full-range re-encode" % label)
            for k in keys:
                if ones[k] == 0:
                    continue
                d2 = dict(d)
                d2[k] = (d[k] + 1 + rng.randrange(ones[k])) % (ones[k] + 1)
                if d2[k] == d[k]:
                    continue
                dec2 = cls.unmarshall_cdb(cls.marshall_cdb(d2))
                diff = [x for x in keys if dec2[x] != dec[x]]
                check(
                    diff == [k] and dec2[k] == d2[k],
                    "%s: full-range change of %s altered %r" % (label, k, diff),
                )
            record(label, "full", enc, dec)
        # partially specified dicts: missing fields encode as zero
        for _ in range(5):
            sub = {k: ones[k] for k in keys if rng.random() < 0.5}
            enc = cls.marshall_cdb(sub)
            dec = cls.unmarshall_cdb(enc)
            check(
                dec == {k: sub.get(k, 0) for k in keys},
                "%s: partial dict %r decoded as %r" % (label, sub, dec),
            )
            record(label, "partial", enc)


# --------------------------------------------------------------------------
# literal golden vectors
# --------------------------------------------------------------------------
class _Dev:
    def __init__(self, opcodes):
        self.opcodes = opcodes

    def execute(self, cmd, en_raw_sense=False):
        pass

    def open(self):
        pass

    def close(self):
        pass


class _MockSCSI(SCSI):
    def __init__(self, dev):
        self.device = dev


def run_golden_vectors():
    s = _MockSCSI(_Dev(sbc))
    s.blocksize = 512
    vec = [
        (lambda: s.read10(1024, 27), "28000000040000001b00"),
        (
            lambda: s.read10(1024, 27, rdprotect=2, dpo=1, fua=1, rarc=1, group=19),
            "285c0000040013001b00",
        ),
        (lambda: s.read12(1024, 27, rdprotect=2, dpo=1, fua=1, rarc=1, group=19),
         "a85c000004000000001b1300"),
        (lambda: s.read16(0x0102030405060708, 27, rdprotect=7, group=31),
         "88e001020304050607080000001b1f00"),
        (lambda: s.write10(0xDEADBEEF, 1, bytearray(512), wrprotect=1, fua=1),
         "2a28deadbeef00000100"),
        (lambda: s.write16(1, 2, bytearray(1024), dpo=1, group=1),
         "8a10000000000000000100000002" + "0100"),
        (lambda: s.writesame10(7, 0xFFFF, bytearray(512), anchor=1, unmap=1, group=3),
         "411800000007" + "03ffff00"),
        (lambda: s.writesame16(7, 9, bytearray(512), wrprotect=5, ndob=1),
         "93a1000000000000000700000009" + "0000"),
        (lambda: s.synchronizecache10(0x01020304, 0x0506, immed=1, group=2),
         "350201020304020506" + "00"),
        (lambda: s.synchronizecache16(3, 4, immed=1), "9102000000000000000300000004" + "0000"),
        (lambda: s.readcapacity10(), "25000000000000000000"),
        (lambda: s.readcapacity16(alloclen=32), "9e10000000000000000000000020" + "0000"),
        (lambda: s.getlbastatus(0x1122334455667788, alloclen=0x100),
         "9e12112233445566778800000100" + "0000"),
        (lambda: s.inquiry(evpd=1, page_code=0x83, alloclen=0x1234), "120183123400"),
        (lambda: s.modesense6(0x3F, sub_page_code=0xFF, dbd=1, pc=3, alloclen=0xFE),
         "1a08ffff" + "fe00"),
        (lambda: s.modesense10(0x1C, sub_page_code=1, llbaa=1, dbd=1, pc=1, alloclen=0x200),
         "5a185c01000000020000"),
        (lambda: s.preventallowmediumremoval(prevent=3), "1e0000000300"),
        (lambda: s.testunitready(), "000000000000"),
        (lambda: s.reportluns(report=2, alloclen=0x01020304), "a00002000000010203040000"),
        (lambda: s.reportpriority(priority=3, alloclen=8), "a30ec0000000000000080000"),
        (lambda: s.reporttargetportgroups(data_format=1, alloclen=8),
         "a32a00000000000000080000"),
        (lambda: s.atapassthrough12(4, 2, 1, 1, 0, 0, 0xAB, 1, 0x123456, 0xEC,
                            ck_cond=1, device=0xA0, control=0x5A),
         "a1082eab01563412a0ec005a"),
        (lambda: s.atapassthrough16(4, 2, 1, 1, 0, 0, 0xABCD, 1, 0x123456789ABC, 0xEC,
                            ck_cond=1, device=0xA0, control=0x5A),
         "85092eabcd000156bc349a1278a0ec5a"),
        (lambda: s.atapassthrough16(6, 0, 0, 0, 0, 3, 0, 0, 0, 0x25, extend=0),
         "850cc00000000000000000000000" + "2500"),
    ]
    s2 = _MockSCSI(_Dev(spc))
    vec += [
        (lambda: s2.persistentreserveout(service_action=0, scope=1, pr_type=4),
         "5f001400000000001800"),
        (lambda: s2.persistentreservein(1, alloclen=0x400), "5e010000000000040000"),
        (lambda: s2.extendedcopy4(), "83000000000000000000000000100000"),
        (lambda: s2.extendedcopy5(inline_data=bytearray(4)),
         "83010000000000000000000000340000"),
    ]
    s3 = _MockSCSI(_Dev(smc))
    vec += [
        (lambda: s3.exchangemedium(1, 2, 3, 4, inv1=1), "a6000001000200030004" + "0200"),
        (lambda: s3.exchangemedium(1, 2, 3, 4, inv2=1), "a6000001000200030004" + "0100"),
        (lambda: s3.movemedium(0x1111, 0x2222, 0x3333, invert=1), "a500111122223333000001" + "00"),
        (lambda: s3.positiontoelement(0xFFFF, 1, invert=1), "2b00ffff000100000100"),
        (lambda: s3.initializeelementstatus(), "070000000000"),
        (lambda: s3.initializeelementstatuswithrange(5, 6, rng=1, fast=1),
         "37030005000000060000"),
        (lambda: s3.opencloseimportexportelement(0x0102, 1), "1b0001020100"),
        (lambda: s3.readelementstatus(0x10, 0x20, element_type=4, voltag=1, dvcid=1,
                              alloclen=0x010203),
         "b81400100020030102030000"),
    ]
    s4 = _MockSCSI(_Dev(mmc))
    vec += [
        (lambda: s4.readcd(0x01020304, 2, est=5, dap=1, mcsb=0x1F, c2ei=3, scsb=7),
         "be1601020304000002fe0700"),
        (lambda: s4.readdiscinformation(2, alloc_len=0x1000), "51020000000000100000"),
    ]
    for mk, hexstr in vec:
        cmd = mk()
        check(
            cmd.cdb.hex() == hexstr,
            "golden %s: %s != %s" % (cmd, cmd.cdb.hex(), hexstr),
        )
        d = cmd.unmarshall_cdb(cmd.cdb)
        check(
            type(cmd).marshall_cdb(d).hex() == hexstr,
            "golden %s: re-encode differs" % cmd,
        )
        record(repr(cmd), cmd.cdb, d)


# --------------------------------------------------------------------------
# unusual argument values
# --------------------------------------------------------------------------
def run_unusual_values():
    rng = random.Random(77)
    # booleans for flag fields decode to plain ints equal to 1 / 0
    r = Read10(sbc.READ_10, 1, 5, 6, dpo=True, fua=False, rarc=True)
    d = r.unmarshall_cdb(r.cdb)
    check(
        d == {"opcode": 0x28, "rdprotect": 0, "dpo": 1, "fua": 0, "rarc": 1,
              "lba": 5, "group": 0, "tl": 6},
        "bool flags decode %r" % d,
    )
    check(all(type(x) is int for x in d.values()), "bool flags leak bool type")
    record("bool", r.cdb, d)

    # int subclasses
    class MyInt(int):
        pass

    r = Read16(sbc.READ_16, 1, MyInt(0xABCDEF0123), MyInt(3), group=MyInt(9))
    d = r.unmarshall_cdb(r.cdb)
    check(d["lba"] == 0xABCDEF0123 and d["tl"] == 3 and d["group"] == 9, "MyInt")
    check(type(d["lba"]) is int, "MyInt leaks subclass")
    record("myint", r.cdb, d)

    # blocksize 0 still raises the class specific exception, nothing is built
    for cls, op in ((Read10, sbc.READ_10), (Write16, sbc.WRITE_16)):
        try:
            if cls is Read10:
                cls(op, 0, 1, 1)
            else:
                cls(op, 0, 1, 1, bytearray(1))
            check(False, "%s blocksize 0 accepted" % cls.__name__)
        except SCSICommand.MissingBlocksizeException:
            pass

    # values wider than their field: what the encoder does today is pinned by
    # the digest (high bits spill / are truncated); decode stays total.
    r0 = Read10(sbc.READ_10, 1, 0, 0)
    for d in (
        {"opcode": 0x28, "group": 0x3F},
        {"opcode": 0x28, "rdprotect": 9},
        {"opcode": 0x128, "lba": 1 << 32},
        {"opcode": 0x28, "tl": 0x12345},
        {"opcode": 0x28, "tl": -1},
        {"opcode": 0x28, "lba": -2, "dpo": 3},
        {"opcode": 0x28, "fua": 2, "rarc": 2},
        {"opcode": 0x28, "dpo": 1, "fua": 1, "rarc": 1, "rdprotect": 7},
        {},
        {"lba": 0},
        {"nope": 5},
    ):
        tag, enc = outcome(Read10.marshall_cdb, d)
        record("wide", d, tag, enc if tag == "ok" else str(enc))
        if tag == "ok":
            check(len(enc) == 10, "wide: length")
            dec = Read10.unmarshall_cdb(enc)
            check(
                Read10.unmarshall_cdb(Read10.marshall_cdb(dec)) == dec,
                "wide: %r decode not stable" % d,
            )
            record(dec)
    # wrong value types are rejected with TypeError, never silently accepted
    for bad in (None, "7", 1.5, b"\x01", [1], (1,)):
        for key in ("lba", "dpo", "rdprotect", "tl", "opcode"):
            tag, res = outcome(Read10.marshall_cdb, {"opcode": 0x28, key: bad})
            check(
                tag == "exc" and res == "TypeError",
                "bad value %r for %s -> %s %r" % (bad, key, tag, res),
            )
            tag, res = outcome(
                lambda: Read10(sbc.READ_10, 1, **{"lba": 1, "tl": 1, key: bad})
                if key != "opcode"
                else None
            )
            if key != "opcode":
                check(tag == "exc", "ctor accepted %r for %s" % (bad, key))
                record("badctor", key, repr(bad), res)
    del r0

    # decoding short / long / foreign buffers
    Read10(sbc.READ_10, 1, 0, 0)
    for buf in (
        bytearray(10),
        bytes(range(10)),
        bytearray(range(100, 116)),
        bytearray(b"\xff" * 10),
        bytearray(b"\x28\x5c"),
        bytearray(),
        list(range(10)),
        tuple(range(200, 210)),
        memoryview(bytes(range(10, 20))),
    ):
        tag, res = outcome(Read10.unmarshall_cdb, buf)
        record("decode-any", repr(bytes(buf)), tag, res if tag == "ok" else str(res))
        check(tag == "ok", "decode of %r failed: %r" % (buf, res))

    # random byte strings: decode is total and decode∘encode∘decode == decode
    for label, cls, op, fields, make, expect in SPECS:
        make(op, field_values(fields, rng, "zero"))
        n = EXPECTED_LEN[label]
        for _ in range(10):
            raw = bytearray(rng.getrandbits(8) for _ in range(n))
            d = cls.unmarshall_cdb(raw)
            enc = cls.marshall_cdb(d)
            check(len(enc) == n, "%s: random re-encode length" % label)
            check(
                cls.unmarshall_cdb(enc) == d,
                "%s: random bytes decode/encode/decode" % label,
            )
            # re-encoding only keeps the bits that belong to fields
            check(
                all((enc[i] & ~raw[i]) == 0 for i in range(n)),
                "%s: re-encode invented bits" % label,
            )
            record(label, "raw", raw, d, enc)


# --------------------------------------------------------------------------
# behaviour of the shared "current layout" and of init_cdb
# --------------------------------------------------------------------------
def run_layout_state_checks():
    # marshall_cdb / unmarshall_cdb always work with the layout (and length)
    # of the most recently constructed command, whatever class they are called
    # through.
    r10 = Read10(sbc.READ_10, 1, 0x11223344, 0x5566, group=3)
    first = bytearray(r10.cdb)
    inq = Inquiry(spc.INQUIRY, evpd=1, page_code=0x80, alloclen=0x0102)
    check(r10.cdb == first and len(r10.cdb) == 10, "older command's cdb changed")
    d_inq = inq.unmarshall_cdb(inq.cdb)
    check(
        d_inq == {"opcode": 0x12, "evpd": 1, "page_code": 0x80, "alloc_len": 0x0102},
        "inquiry decode %r" % d_inq,
    )
    cross = Read10.unmarshall_cdb(first)
    check(
        list(cross.keys()) == ["opcode", "evpd", "page_code", "alloc_len"],
        "layout is not the most recent one: %r" % cross,
    )
    check(cross == r10.unmarshall_cdb(first), "instance/class decode differ")
    check(len(Read10.marshall_cdb({"opcode": 0x28})) == 6, "length follows last ctor")
    record("cross", cross, Read10.marshall_cdb({"opcode": 0x28, "lba": 5}))
    r16 = Read16(sbc.READ_16, 1, 9, 1)
    check(len(Inquiry.marshall_cdb({"opcode": 0x12})) == 16, "length follows last ctor")
    check(
        Inquiry.unmarshall_cdb(r16.cdb)["lba"] == 9, "layout follows last ctor (2)"
    )
    # a failing constructor (blocksize 0 is checked first) leaves it untouched
    try:
        Read10(sbc.READ_10, 0, 1, 1)
    except SCSICommand.MissingBlocksizeException:
        pass
    check(len(SCSICommand.marshall_cdb({})) == 16, "failed ctor changed the layout")

    # a bare SCSICommand: zeroed cdb of the right size
    for value, size in ((0x00, 6), (0x1F, 6), (0x20, 10), (0x5F, 10), (0x80, 16),
                        (0x9F, 16), (0xA0, 12), (0xBF, 12)):
        c = SCSICommand(OpCode("X", value, {}), 2, 3)
        check(c.cdb == bytearray(size), "bare command cdb for %#x" % value)
        # (a bare command keeps whatever layout was current before it)
        check(
            not any(c.unmarshall_cdb(c.cdb).values()),
            "bare command decodes non zero fields",
        )
        check(c.build_cdb(foo=1) == bytearray(size), "bare build_cdb")
        check(c.dataout == bytearray(2) and c.datain == bytearray(3), "bare buffers")
        check(c.result == {} and c.pagecode is None, "bare result/pagecode")
        check(c.sense is None and c.raw_sense_data is None, "bare sense")
        check(repr(c) == "SCSICommand", "repr")
        c.cdb = bytearray(b"\x01")
        check(c.cdb == bytearray(b"\x01"), "cdb setter")
        for prop in ("result", "datain", "dataout", "sense", "raw_sense_data",
                     "pagecode", "opcode"):
            marker = object()
            setattr(c, prop, marker)
            check(getattr(c, prop) is marker, "property %s round trip" % prop)
            check(
                isinstance(getattr(SCSICommand, prop), property),
                "%s is not a property" % prop,
            )

    # init_cdb over the whole opcode space and beyond
    for value in list(range(-3, 260)) + [0x1F + 0.5, 0x5F + 0.5, 0x7F, 1000, 31.0]:
        op = OpCode("X", value, {})
        tag, res = outcome(SCSICommand.init_cdb, op)
        if 0 <= value <= 0x1F:
            exp = ("ok", bytearray(6))
        elif 0x20 <= value <= 0x5F:
            exp = ("ok", bytearray(10))
        elif 0x80 <= value <= 0x9F:
            exp = ("ok", bytearray(16))
        elif 0xA0 <= value <= 0xBF:
            exp = ("ok", bytearray(12))
        else:
            exp = ("exc", "OpcodeException")
        check((tag, res) == exp, "init_cdb(%r) -> %r %r" % (value, tag, res))
        if tag == "ok":
            check(type(res) is bytearray, "init_cdb type")
        # the constructor reports the same thing
        try:
            SCSICommand(op, 0, 0)
            check(exp[0] == "ok", "ctor accepted opcode %r" % value)
        except SCSICommand.OpcodeException:
            check(exp[0] == "exc", "ctor rejected opcode %r" % value)
    # two calls never share the buffer
    a = SCSICommand.init_cdb(sbc.READ_10)
    b = SCSICommand.init_cdb(sbc.READ_10)
    check(a is not b, "init_cdb shares buffers")
    r = Read10(sbc.READ_10, 1, 1, 1)
    x = Read10.marshall_cdb({"opcode": 1})
    y = Read10.marshall_cdb({"opcode": 1})
    x[0] = 9
    check(y[0] == 1 and r.cdb[0] == 0x28, "marshall_cdb shares buffers")

    # unmarshall() without an unmarshall_datain method
    c = SCSICommand(sbc.READ_10, 0, 0)
    try:
        c.unmarshall()
        check(False, "unmarshall() without unmarshall_datain did not raise")
    except NotImplementedError as e:
        check(
            str(e) == "SCSICommand has no method to unmarshall datain data",
            "unmarshall() message %r" % str(e),
        )


# --------------------------------------------------------------------------
# the converter helpers on synthetic layouts
# --------------------------------------------------------------------------
def run_converter_checks():
    rng = random.Random(4242)

    # integer <-> bytearray
    for size in range(0, 10):
        for _ in range(40):
            n = rng.getrandbits(8 * size) if size else 0
            ba = scsi_int_to_ba(n, size)
            check(type(ba) is bytearray and len(ba) == size, "int_to_ba type/len")
            check(bytes(ba) == n.to_bytes(size, "big"), "int_to_ba(%d,%d)" % (n, size))
            check(scsi_ba_to_int(ba) == n, "ba_to_int(int_to_ba(%d))" % n)
            check(scsi_ba_to_int(bytes(ba)) == n, "ba_to_int(bytes)")
            check(scsi_ba_to_int(list(ba)) == n, "ba_to_int(list)")
            # truncation / two's complement
            big = n + (rng.getrandbits(16) << (8 * size))
            check(scsi_int_to_ba(big, size) == ba, "int_to_ba truncation")
            neg = n - (1 << (8 * size))
            check(scsi_int_to_ba(neg, size) == ba, "int_to_ba negative")
    check(scsi_int_to_ba() == bytearray(4), "int_to_ba defaults")
    check(scsi_int_to_ba(34) == bytearray(b'\x00\x00\x00"'), "int_to_ba doc example")
    check(scsi_int_to_ba(True, 2) == bytearray(b"\x00\x01"), "int_to_ba(True)")
    check(scsi_ba_to_int(bytearray()) == 0 and scsi_ba_to_int(b"") == 0, "empty")
    check(type(scsi_ba_to_int(b"\x01")) is int, "ba_to_int type")
    for bad in (1.5, "1", None):
        check(outcome(scsi_int_to_ba, bad, 2) == ("exc", "TypeError"),
              "int_to_ba(%r)" % (bad,))
    check(outcome(scsi_ba_to_int, None) == ("exc", "TypeError"), "ba_to_int(None)")
    check(outcome(scsi_ba_to_int, "ab") == ("exc", "TypeError"), "ba_to_int(str)")

    # random non overlapping legacy layouts
    for trial in range(300):
        size = rng.randint(1, 24)
        layout = {}
        values = {}
        pos = 0  # bit cursor
        idx = 0
        while pos < size * 8:
            width = rng.randint(1, min(64, size * 8 - pos))
            gap = rng.random() < 0.3
            if not gap:
                first_byte = pos // 8
                last_bit = pos + width - 1
                last_byte = last_bit // 8
                nbytes = last_byte - first_byte + 1
                # mask relative to the nbytes window starting at first_byte
                shift = (nbytes * 8) - (last_bit - first_byte * 8) - 1
                mask = ((1 << width) - 1) << shift
                if mask >> (8 * (nbytes - 1)) == 0:
                    pass  # cannot happen: top byte always has a bit
                name = "f%d" % idx
                layout[name] = [mask, first_byte] if rng.random() < 0.5 else (
                    mask,
                    first_byte,
                )
                values[name] = rng.getrandbits(width)
                idx += 1
            pos += width
        if rng.random() < 0.5:
            items = list(layout.items())
            rng.shuffle(items)
            layout = dict(items)
        buf = bytearray(size)
        ret = encode_dict(values, layout, buf)
        check(ret is None, "encode_dict returns something")
        out = {"keep": "me"}
        ret = decode_bits(buf, layout, out)
        check(ret is None, "decode_bits returns something")
        check(out.pop("keep") == "me", "decode_bits dropped existing keys")
        check(out == values, "synthetic layout %r: %r != %r" % (layout, out, values))
        check(list(out.keys()) == list(layout.keys()), "decode key order")
        # independent model of the bytes
        model = 0
        for name, (mask, off) in layout.items():
            nbytes = max(1, (mask.bit_length() + 7) // 8)
            tz = (mask & -mask).bit_length() - 1
            model |= (values[name] << tz) << (8 * (size - off - nbytes))
        check(bytes(buf) == model.to_bytes(size, "big"), "synthetic bytes differ")
        # encode into a pre-filled buffer toggles (xor) bits
        pre = bytearray(rng.getrandbits(8) for _ in range(size))
        buf2 = bytearray(pre)
        encode_dict(values, layout, buf2)
        check(
            all(buf2[i] == pre[i] ^ buf[i] for i in range(size)),
            "encode_dict into prefilled buffer",
        )
        # single field change
        if values:
            name = rng.choice(list(values))
            width = bin(layout[name][0]).count("1")
            v2 = dict(values)
            v2[name] = values[name] ^ (1 << rng.randrange(width))
            buf3 = bytearray(size)
            encode_dict(v2, layout, buf3)
            out3 = {}
            decode_bits(bytes(buf3), layout, out3)
            check(
                [k for k in layout if out3[k] != out[k]] == [name],
                "synthetic single change",
            )
        record("synthetic", trial, buf)

    # non contiguous masks and masks wider than 8 bytes
    lay = {
        "a": [0xA5, 0],
        "b": [0x5A, 0],
        "c": [0xF00F, 1],
        "d": [0x0FF0, 1],
        "big": [(1 << 100) - 1, 3],
        "one": [0x01, 16],
        "hi": [0x80, 16],
        "mid": [0x0180, 16],
    }
    for _ in range(50):
        raw = bytearray(rng.getrandbits(8) for _ in range(20))
        out = {}
        decode_bits(raw, lay, out)
        check(out["a"] == (raw[0] & 0xA5), "mask a")
        check(out["b"] == ((raw[0] >> 1) & 0x2D), "mask b")
        w = (raw[1] << 8) | raw[2]
        check(out["c"] == (w & 0xF00F), "mask c")
        check(out["d"] == ((w >> 4) & 0xFF), "mask d")
        check(out["big"] == (int.from_bytes(raw[3:16], "big") & ((1 << 100) - 1)),
              "mask big")
        check(out["one"] == (raw[16] & 1) and out["hi"] == raw[16] >> 7, "bits")
        check(out["mid"] == (((raw[16] << 8 | raw[17]) >> 7) & 3), "mask mid")
        record("odd", raw, out)
        buf = bytearray(20)
        encode_dict({"d": out["d"], "big": out["big"], "mid": out["mid"]}, lay, buf)
        again = {}
        decode_bits(buf, lay, again)
        check(
            (again["d"], again["big"], again["mid"])
            == (out["d"], out["big"], out["mid"]),
            "odd masks round trip",
        )
        record(buf)

    # blob notations
    lay = {
        "n": [0xFFFF, 0],
        "blob": ("b", 2, 5),
        "words": ("w", 7, 3),
        "dwords": ("dw", 13, 2),
        "tail": [0x0F, 21],
    }
    for _ in range(30):
        vals = {
            "n": rng.getrandbits(16),
            "blob": bytearray(rng.getrandbits(8) for _ in range(5)),
            "words": bytes(rng.getrandbits(8) for _ in range(6)),
            "dwords": bytearray(rng.getrandbits(8) for _ in range(8)),
            "tail": rng.getrandbits(4),
        }
        buf = bytearray(22)
        encode_dict(vals, lay, buf)
        check(len(buf) == 22, "blob encode changed the buffer size")
        check(buf[2:7] == vals["blob"] and buf[7:13] == vals["words"], "blob bytes")
        check(buf[13:21] == vals["dwords"], "dword bytes")
        for src in (buf, bytes(buf)):
            out = {}
            decode_bits(src, lay, out)
            check(out == vals, "blob layout round trip")
            check(type(out["blob"]) is type(src), "blob slice type")
        out = {}
        decode_bits(buf, lay, out)
        out["blob"][0] ^= 0xFF
        check(buf[2] == vals["blob"][0], "decoded blob aliases the buffer")
        record("blob", buf)
    # short blobs shrink the buffer (slice assignment): pinned as is
    buf = bytearray(10)
    encode_dict({"x": b"\x01\x02"}, {"x": ("b", 2, 4)}, buf)
    record("shortblob", buf)
    check(buf == bytearray(b"\x00\x00\x01\x02\x00\x00\x00\x00"), "short blob")

    # keys of the data dict that are not in the layout are skipped, keys of the
    # layout that are not in the data dict stay zero; empty layouts / dicts
    buf = bytearray(4)
    encode_dict({"zz": 1, "a": 3}, {"a": [0x0F, 1], "b": [0xF0, 1]}, buf)
    check(buf == bytearray(b"\x00\x03\x00\x00"), "unknown keys")
    encode_dict({}, {"a": [0x0F, 1]}, buf)
    encode_dict({"a": 1}, {}, buf)
    check(buf == bytearray(b"\x00\x03\x00\x00"), "empty dicts")
    out = {}
    decode_bits(buf, {}, out)
    check(out == {}, "empty layout decode")
    # a field that does not fit the buffer
    check(
        outcome(encode_dict, {"a": 1}, {"a": [0xFFFF, 3]}, bytearray(4))
        == ("exc", "IndexError"),
        "encode beyond the buffer",
    )
    out = {}
    decode_bits(bytearray(b"\x01\x02\x03\x04"), {"a": [0xFFFF, 3], "b": [0xFF, 9]}, out)
    check(out == {"a": 4, "b": 0}, "decode beyond the buffer %r" % out)


def run_ata_lba_checks():
    rng = random.Random(99)
    samples = [0, 1, 0xFF, 0x100, 0xFFFF, 0x10000, 0xFFFFFF, 0x1000000,
               0xFFFFFFFFFFFF, 0x1000000000000, 0x123456789ABC, (1 << 64) - 1,
               -1, -256, True]
    samples += [rng.getrandbits(48) for _ in range(300)]
    samples += [rng.getrandbits(70) for _ in range(50)]
    samples += [-rng.getrandbits(50) for _ in range(50)]
    for lba in samples:
        a = ATAPassThrough16.scsi_to_ata_lba_convert(lba)
        b = ATAPassThrough12.scsi_to_ata_lba_convert(lba)
        check(type(a) is int and type(b) is int, "ata lba type")
        check(a == ata16_lba(int(lba)), "ata16 lba %#x -> %#x" % (lba, a))
        check(b == ata12_lba(int(lba)), "ata12 lba %#x -> %#x" % (lba, b))
        record("atalba", int(lba), a, b)
    for bad in (None, "1", 2.0):
        check(
            outcome(ATAPassThrough16.scsi_to_ata_lba_convert, bad)
            == ("exc", "TypeError"),
            "ata16 lba(%r)" % (bad,),
        )
        check(
            outcome(ATAPassThrough12.scsi_to_ata_lba_convert, bad)
            == ("exc", "TypeError"),
            "ata12 lba(%r)" % (bad,),
        )

    # data direction / buffer sizes of the pass through commands
    for cls, op in ((ATAPassThrough12, sbc.ATA_PASS_THROUGH_12),
                    (ATAPassThrough16, sbc.ATA_PASS_THROUGH_16)):
        for t_length in range(4):
            for byte_block in (0, 1):
                for t_type in (0, 1):
                    for t_dir in (0, 1):
                        for blocksize in (0, 7):
                            for extra in (None, 5):
                                for data in (None, bytearray(b"abc")):
                                    args = (op, 4, t_length, byte_block, t_dir,
                                            t_type, 0, 3, 2, 0x010203, 0xEC)
                                    kw = dict(blocksize=blocksize, extra_tl=extra,
                                              data=data)
                                    try:
                                        c = cls(*args, **kw)
                                    except cls.MissingBlocksizeException:
                                        record("ata", "noblk")
                                        check(False, "subclass exception raised")
                                        continue
                                    except SCSICommand.MissingBlocksizeException:
                                        check(
                                            byte_block and t_type and t_length
                                            and blocksize == 0,
                                            "unexpected MissingBlocksize",
                                        )
                                        record("ata", "noblk")
                                        continue
                                    record("ata", c.cdb, len(c.dataout),
                                           len(c.datain))
                                    d = c.unmarshall_cdb(c.cdb)
                                    check(
                                        d["t_length"] == t_length
                                        and d["byte_block"] == byte_block
                                        and d["t_type"] == t_type
                                        and d["t_dir"] == t_dir,
                                        "ata flags decode",
                                    )
                                    check(cls.marshall_cdb(d) == c.cdb, "ata re-encode")


def main():
    run_golden_vectors()
    run_command_checks()
    run_unusual_values()
    run_layout_state_checks()
    run_converter_checks()
    run_ata_lba_checks()

    digest = _DIGEST.hexdigest()
    if "--print-digest" in sys.argv:
        print(digest)
    check(
        digest == GOLDEN_DIGEST,
        "golden digest mismatch: %s (expected %s)" % (digest, GOLDEN_DIGEST),
    )
    if FAILURES:
        print("%d of %d checks FAILED" % (len(FAILURES), _COUNT[0]))
        return 1
    print("PASS (%d checks)" % _COUNT[0])
    return 0


if __name__ == "__main__":
    sys.exit(main())
