#!/usr/bin/env python
# coding: utf-8
"""
Demo / regression check for property C06 (parameter data build <-> parse).

    For every parameter-data structure the library can both build and parse,
    parsing what it built returns the original values.  Conversely, rebuilding
    what it parsed from a canonical device response reproduces that response
    byte for byte, so reading a mode page, changing one field and writing it
    back changes only that field's bits.

Run as:
    cd /tmp/seed/C06t && PYTHONPATH=/tmp/seed/C06t /venv/bin/python SEED/demo.py

Exit status 0 and "PASS" when everything holds.
"""
import contextlib
import copy
import hashlib
import importlib.util
import io
import os
import random
import sys
import types

# ---------------------------------------------------------------------------
# The real transports are not installed; give the library harmless fakes so
# that importing the device modules never depends on the host.
# ---------------------------------------------------------------------------
for _name in ("sgio", "iscsi"):
    if _name not in sys.modules:
        try:
            __import__(_name)
        except ImportError:
            sys.modules[_name] = types.ModuleType(_name)

from pyscsi.pyscsi import scsi_enum_modesense as MS_ENUM
from pyscsi.pyscsi import scsi_enum_inquiry as INQ_ENUM
from pyscsi.pyscsi.scsi import SCSI
from pyscsi.pyscsi.scsi_cdb_getlbastatus import GetLBAStatus
from pyscsi.pyscsi.scsi_cdb_inquiry import Inquiry
from pyscsi.pyscsi.scsi_cdb_modesense6 import ModeSelect6, ModeSense6
from pyscsi.pyscsi.scsi_cdb_modesense10 import ModeSelect10, ModeSense10
from pyscsi.pyscsi.scsi_cdb_persistentreservein import (
    PersistentReserveInReadFullStatus,
    PersistentReserveInReadKeys,
    PersistentReserveInReadReservation,
    PersistentReserveInReportCapabilities,
)
from pyscsi.pyscsi.scsi_cdb_readcapacity10 import ReadCapacity10
from pyscsi.pyscsi.scsi_cdb_readcapacity16 import ReadCapacity16
from pyscsi.pyscsi.scsi_cdb_readcd import ReadCd
from pyscsi.pyscsi.scsi_cdb_readdiscinformation import ReadDiscInformation
from pyscsi.pyscsi.scsi_cdb_readelementstatus import ReadElementStatus
from pyscsi.pyscsi.scsi_cdb_report_luns import ReportLuns
from pyscsi.pyscsi.scsi_cdb_report_priority import ReportPriority
from pyscsi.pyscsi.scsi_cdb_report_target_port_groups import ReportTargetPortGroups
from pyscsi.pyscsi.scsi_enum_command import mmc, sbc, smc, spc
from pyscsi.pyscsi.scsi_enum_persistentreserve import PROTOCOL_ID
from pyscsi.pyscsi.scsi_enum_readelementstatus import ELEMENT_TYPE
from pyscsi.pyscsi.scsi_enum_report_target_port_groups import DATA_FORMAT_TYPE
from pyscsi.utils.converter import scsi_ba_to_int, scsi_int_to_ba

HERE = os.path.dirname(os.path.abspath(__file__))
ROOT = os.path.dirname(HERE)

FAILURES = []
CHECKS = [0]
RECORDS = []  # (label, canonical outcome) -> golden digest


def check(cond, label):
    CHECKS[0] += 1
    if not cond:
        FAILURES.append(label)
        if len(FAILURES) <= 40:
            print("FAIL:", label)


def canon(obj):
    """Order independent, type-preserving textual form of a parsed result."""
    if isinstance(obj, dict):
        return (
            "{"
            + ",".join(
                "%s:%s" % (canon(k), canon(v))
                for k, v in sorted(obj.items(), key=lambda kv: repr(kv[0]))
            )
            + "}"
        )
    if isinstance(obj, (list, tuple)):
        return "[" + ",".join(canon(v) for v in obj) + "]"
    if isinstance(obj, (bytes, bytearray)):
        return type(obj).__name__ + ":" + bytes(obj).hex()
    if isinstance(obj, bool):
        return "bool:%r" % obj
    if isinstance(obj, int):
        return "int:%d" % obj
    if isinstance(obj, str):
        return "str:%r" % obj
    if obj is None:
        return "None"
    return type(obj).__name__ + ":" + repr(obj)


def strict(obj):
    """Like canon() but keeps the key order (used for twin comparison only)."""
    if isinstance(obj, dict):
        return "{" + ",".join("%s:%s" % (strict(k), strict(v)) for k, v in obj.items()) + "}"
    if isinstance(obj, (list, tuple)):
        return "[" + ",".join(strict(v) for v in obj) + "]"
    return canon(obj)


STRICT_RECORDS = []


def record(label, fn, *args, **kwargs):
    """Run fn, remember the outcome (value or exception type) for the digest."""
    try:
        out = fn(*args, **kwargs)
        RECORDS.append("%s => %s" % (label, canon(out)))
        STRICT_RECORDS.append("%s => %s" % (label, strict(out)))
        return out
    except Exception as e:  # noqa
        RECORDS.append("%s => !%s" % (label, type(e).__name__))
        STRICT_RECORDS.append("%s => !%s:%s" % (label, type(e).__name__, e))
        return e


# ---------------------------------------------------------------------------
# random helpers
# ---------------------------------------------------------------------------
def field_width(mask):
    while not mask & 1:
        mask >>= 1
    return mask.bit_length()


def rnd_value(rng, mask):
    top = (1 << field_width(mask)) - 1
    r = rng.random()
    if r < 0.15:
        return 0
    if r < 0.30:
        return top
    if r < 0.40:
        return 1
    return rng.randint(0, top)


def rnd_bytes(rng, n):
    return bytearray(rng.randint(0, 255) for _ in range(n))


def rnd_fields(rng, bits, skip=()):
    d = {}
    for k, v in bits.items():
        if k in skip:
            continue
        if len(v) == 2:
            d[k] = rnd_value(rng, v[0])
        elif v[0] == "b":
            d[k] = rnd_bytes(rng, v[2])
        elif v[0] == "w":
            d[k] = rnd_bytes(rng, v[2] * 2)
        elif v[0] == "dw":
            d[k] = rnd_bytes(rng, v[2] * 4)
    return d


def shuffled(rng, d):
    """Same mapping, different insertion order (builders must not care)."""
    items = list(d.items())
    rng.shuffle(items)
    return dict(items)


def roundtrip(label, cls, d, rng, parse_kwargs=None, expect=None):
    """build->parse gives d back; parse->build reproduces the bytes."""
    parse_kwargs = parse_kwargs or {}
    before = copy.deepcopy(d)
    raw = cls.marshall_datain(d)
    check(d == before, label + ": marshall must not modify its argument")
    check(isinstance(raw, bytearray), label + ": marshall returns bytearray")
    raw2 = cls.marshall_datain(shuffled(rng, d))
    check(raw2 == raw, label + ": marshall independent of key order")
    frozen = bytes(raw)
    parsed = cls.unmarshall_datain(raw, **parse_kwargs)
    check(bytes(raw) == frozen, label + ": unmarshall must not modify its buffer")
    want = d if expect is None else expect
    check(parsed == want, label + ": parse(build(d)) == d")
    again = cls.marshall_datain(parsed)
    check(again == raw, label + ": build(parse(raw)) == raw")
    # bytes input gives the same values as bytearray input
    parsed_b = cls.unmarshall_datain(bytes(raw), **parse_kwargs)
    check(canon_nobytes(parsed_b) == canon_nobytes(parsed), label + ": bytes vs bytearray input")
    # trailing garbage beyond the declared length / fixed size is ignored or
    # at least parsed deterministically
    RECORDS.append("%s raw=%s" % (label, frozen.hex()))
    STRICT_RECORDS.append("%s raw=%s parsed=%s" % (label, frozen.hex(), strict(parsed)))
    return raw, parsed


def canon_nobytes(obj):
    if isinstance(obj, dict):
        return {k: canon_nobytes(v) for k, v in obj.items()}
    if isinstance(obj, list):
        return [canon_nobytes(v) for v in obj]
    if isinstance(obj, (bytes, bytearray)):
        return bytes(obj)
    return obj


# ---------------------------------------------------------------------------
# 1. fixed size structures
# ---------------------------------------------------------------------------
def part_readcapacity(rng):
    for n in range(60):
        d = rnd_fields(rng, ReadCapacity10._datain_bits)
        raw, _ = roundtrip("rc10/%d" % n, ReadCapacity10, d, rng)
        check(len(raw) == 8, "rc10 length")
        check(scsi_ba_to_int(raw[0:4]) == d["returned_lba"], "rc10 lba bytes")
        check(scsi_ba_to_int(raw[4:8]) == d["block_length"], "rc10 blocklen bytes")
        d = rnd_fields(rng, ReadCapacity16._datain_bits)
        raw, _ = roundtrip("rc16/%d" % n, ReadCapacity16, d, rng)
        check(len(raw) == 32, "rc16 length")
        check(scsi_ba_to_int(raw[0:8]) == d["returned_lba"], "rc16 lba bytes")
        check(raw[12] == (d["p_type"] << 1 | d["prot_en"]), "rc16 byte 12")
        check(raw[16:] == bytearray(16), "rc16 reserved tail")
    # explicit device responses
    raw = bytearray.fromhex("0001e240" "00000200")
    p = ReadCapacity10.unmarshall_datain(raw)
    check(p == {"returned_lba": 123456, "block_length": 512}, "rc10 explicit")
    check(ReadCapacity10.marshall_datain(p) == raw, "rc10 explicit rebuild")
    raw = bytearray(32)
    raw[0:8] = scsi_int_to_ba(0x0102030405060708, 8)
    raw[8:12] = scsi_int_to_ba(4096, 4)
    raw[12] = 0x0B
    raw[13] = 0x93
    raw[14] = 0xC0 | 0x2A
    raw[15] = 0xBC
    p = ReadCapacity16.unmarshall_datain(raw)
    check(
        p
        == {
            "returned_lba": 0x0102030405060708,
            "block_length": 4096,
            "p_type": 5,
            "prot_en": 1,
            "p_i_exponent": 9,
            "lbppbe": 3,
            "lbpme": 1,
            "lbprz": 1,
            "lowest_aligned_lba": 0x2ABC,
        },
        "rc16 explicit",
    )
    check(ReadCapacity16.marshall_datain(p) == raw, "rc16 explicit rebuild")
    # read / modify / write of one field only touches that field
    for key, (mask, off) in ReadCapacity16._datain_bits.items():
        q = dict(p)
        q[key] = p[key] ^ 1
        new = ReadCapacity16.marshall_datain(q)
        diff = scsi_ba_to_int(new) ^ scsi_ba_to_int(raw)
        nbytes = (mask.bit_length() + 7) // 8
        allowed = mask << (8 * (32 - off - nbytes))
        check(diff != 0 and diff & ~allowed == 0, "rc16 rmw " + key)
    # truncated / short input is parsed deterministically
    for n in range(0, 33, 3):
        record("rc16/short/%d" % n, ReadCapacity16.unmarshall_datain, raw[:n])
        record("rc10/short/%d" % n, ReadCapacity10.unmarshall_datain, raw[:n])


# ---------------------------------------------------------------------------
# 2. lists of descriptors
# ---------------------------------------------------------------------------
def part_getlbastatus(rng):
    for n in range(40):
        cnt = rng.choice([0, 1, 1, 2, 3, 7, 20])
        d = {"lbas": [rnd_fields(rng, GetLBAStatus._datain_bits) for _ in range(cnt)]}
        raw, _ = roundtrip("glba/%d" % n, GetLBAStatus, d, rng)
        check(len(raw) == 8 + 16 * cnt, "glba length")
        check(scsi_ba_to_int(raw[:4]) == 4 + 16 * cnt, "glba header")
        # extra bytes after the declared length are not descriptors
        p = GetLBAStatus.unmarshall_datain(raw + rnd_bytes(rng, rng.randint(1, 40)))
        check(p == d, "glba trailing bytes ignored")
        # a shorter declared length hides descriptors
        if cnt > 1:
            cut = bytearray(raw)
            cut[:4] = scsi_int_to_ba(4 + 16 * (cnt - 1), 4)
            check(
                GetLBAStatus.unmarshall_datain(cut) == {"lbas": d["lbas"][:-1]},
                "glba declared length honoured",
            )
        for k in range(0, len(raw) + 1, 5):
            record("glba/%d/trunc/%d" % (n, k), GetLBAStatus.unmarshall_datain, raw[:k])
    raw = GetLBAStatus.marshall_datain({})
    check(raw == bytearray(b"\x00\x00\x00\x04\x00\x00\x00\x00"), "glba empty")
    check(GetLBAStatus.unmarshall_datain(raw) == {"lbas": []}, "glba empty parse")
    check(GetLBAStatus.marshall_datain({"lbas": []}) == raw, "glba empty list")
    for n in range(30):
        blob = rnd_bytes(rng, rng.randint(0, 70))
        if len(blob) >= 4:
            blob[:3] = b"\x00\x00\x00"
        record("glba/fuzz/%d" % n, GetLBAStatus.unmarshall_datain, blob)


def part_reportluns(rng):
    for n in range(40):
        cnt = rng.choice([0, 1, 2, 3, 11, 12])
        d = {
            "luns": [
                {"lun%s" % i: rnd_value(rng, 0xFFFFFFFFFFFFFFFF)} for i in range(cnt)
            ]
        }
        raw, _ = roundtrip("luns/%d" % n, ReportLuns, d, rng)
        check(len(raw) == 8 + 8 * cnt, "luns length")
        check(scsi_ba_to_int(raw[:4]) == 8 * cnt, "luns header")
        p = ReportLuns.unmarshall_datain(raw + rnd_bytes(rng, 9))
        check(p == d, "luns trailing bytes ignored")
        for k in range(0, len(raw) + 1, 3):
            record("luns/%d/trunc/%d" % (n, k), ReportLuns.unmarshall_datain, raw[:k])
    raw = ReportLuns.marshall_datain({})
    check(raw == bytearray(8), "luns empty")
    check(ReportLuns.unmarshall_datain(raw) == {"luns": []}, "luns empty parse")
    record("luns/badkey", ReportLuns.marshall_datain, {"luns": [{"lun1": 3}]})
    for n in range(30):
        blob = rnd_bytes(rng, rng.randint(0, 50))
        if len(blob) >= 4:
            blob[:3] = b"\x00\x00\x00"
        record("luns/fuzz/%d" % n, ReportLuns.unmarshall_datain, blob)


def part_reportpriority(rng):
    raw = record("prio/empty", ReportPriority.marshall_datain, {})
    check(raw == bytearray(b"\x00\x00\x00\x04"), "prio empty build")
    p = record("prio/empty/parse", ReportPriority.unmarshall_datain, raw)
    check(p == {"priority_descriptors": []}, "prio empty parse")
    check(ReportPriority.marshall_datain(p) == raw, "prio rebuild")
    record("prio/nonempty", ReportPriority.unmarshall_datain, bytearray(b"\x00\x00\x00\x10") + bytearray(12))
    record("prio/build-nonempty", ReportPriority.marshall_datain, {"priority_descriptors": [{"current_priority": 1}]})


def rnd_tpgd(rng, nports):
    d = rnd_fields(rng, ReportTargetPortGroups._tpgd_bits, skip=("target_port_count",))
    d["target_port_count"] = nports
    d["target_ports"] = [
        {"relative_target_port_id": rnd_value(rng, 0xFFFF)} for _ in range(nports)
    ]
    return d


def part_rtpg(rng):
    LEN_ONLY = DATA_FORMAT_TYPE.LENGTH_ONLY_HEADER_PARAMETER_DATA_FORMAT
    EXT = DATA_FORMAT_TYPE.EXTENDED_HEADER_PARAMETER_DATA_FORMAT
    for n in range(50):
        groups = [rnd_tpgd(rng, rng.choice([0, 1, 1, 2, 5])) for _ in range(rng.choice([1, 1, 2, 3, 6]))]
        d = {
            "format_type": EXT,
            "implicit_transition_time": rng.randint(0, 255),
            "target_port_group_descriptors": groups,
        }
        raw, _ = roundtrip("rtpg/ext/%d" % n, ReportTargetPortGroups, d, rng)
        total = 4 + sum(8 + 4 * len(g["target_ports"]) for g in groups)
        check(scsi_ba_to_int(raw[:4]) == total, "rtpg ext length")
        check(raw[4] == 0x10 and raw[5] == d["implicit_transition_time"], "rtpg ext header")
        check(ReportTargetPortGroups.unmarshall_datain(raw + rnd_bytes(rng, 5)) == d, "rtpg trailing bytes")
        for k in range(0, len(raw) + 1, 7):
            record("rtpg/%d/trunc/%d" % (n, k), ReportTargetPortGroups.unmarshall_datain, raw[:k])
        # length-only header: the first group descriptor is also looked at as
        # a possible extended header, so keep its format bits (0x70) clear of 1
        groups = copy.deepcopy(groups)
        groups[0]["pref"] = 0
        groups[0]["asymmetric_access_state"] = rng.choice([0, 1, 2, 3, 0xE, 0xF])
        d = {"format_type": LEN_ONLY, "target_port_group_descriptors": groups}
        raw, _ = roundtrip("rtpg/len/%d" % n, ReportTargetPortGroups, d, rng)
        check(scsi_ba_to_int(raw[:4]) == total - 4, "rtpg len-only length")
    d = {"target_port_group_descriptors": []}
    raw = ReportTargetPortGroups.marshall_datain(d)
    check(raw == bytearray(4), "rtpg empty build")
    p = ReportTargetPortGroups.unmarshall_datain(raw)
    check(p == {"format_type": LEN_ONLY, "target_port_group_descriptors": []}, "rtpg empty parse")
    check(ReportTargetPortGroups.marshall_datain(p) == raw, "rtpg empty rebuild")
    # hand written response
    raw = bytearray.fromhex(
        "00000014" "10070000"
        "80 0f 0011 00 02 00 02".replace(" ", "") + "00000001" "00000002"
    )
    p = ReportTargetPortGroups.unmarshall_datain(raw)
    check(p["implicit_transition_time"] == 7 and p["format_type"] == 1, "rtpg explicit header")
    g = p["target_port_group_descriptors"][0]
    check(g["pref"] == 1 and g["target_port_group"] == 0x11 and g["status_code"] == 2, "rtpg explicit group")
    check(g["ao_sup"] == g["an_sup"] == g["s_sup"] == g["u_sup"] == 1 and g["o_sup"] == 0, "rtpg sup bits")
    check(g["target_ports"] == [{"relative_target_port_id": 1}, {"relative_target_port_id": 2}], "rtpg ports")
    check(ReportTargetPortGroups.marshall_datain(p) == raw, "rtpg explicit rebuild")
    for n in range(40):
        blob = rnd_bytes(rng, rng.randint(0, 60))
        if len(blob) >= 4:
            blob[:3] = b"\x00\x00\x00"
        record("rtpg/fuzz/%d" % n, ReportTargetPortGroups.unmarshall_datain, blob)


def rnd_element(rng, etype, pvol, avol, with_tags=True):
    d = rnd_fields(rng, ReadElementStatus._element_status_descriptor_bits)
    if etype == ELEMENT_TYPE.DATA_TRANSFER:
        d.update(rnd_fields(rng, ReadElementStatus._data_transfer_descriptor_bits))
    if etype == ELEMENT_TYPE.STORAGE:
        d.update(rnd_fields(rng, ReadElementStatus._storage_descriptor_bits))
    if etype == ELEMENT_TYPE.IMPORT_EXPORT:
        d.update(rnd_fields(rng, ReadElementStatus._import_export_descriptor_bits))
    if pvol and with_tags:
        d["primary_volume_tag"] = rnd_bytes(rng, 36)
    if avol and with_tags:
        d["alternate_volume_tag"] = rnd_bytes(rng, 36)
    return d


def part_readelementstatus(rng):
    etypes = [
        ELEMENT_TYPE.MEDIUM_TRANSPORT,
        ELEMENT_TYPE.STORAGE,
        ELEMENT_TYPE.IMPORT_EXPORT,
        ELEMENT_TYPE.DATA_TRANSFER,
    ]
    n = 0
    for rep in range(6):
        for pvol in (0, 1):
            for avol in (0, 1):
                pages = []
                for etype in rng.sample(etypes, rng.choice([1, 2, 4])):
                    cnt = rng.choice([0, 1, 2, 5])
                    pages.append(
                        {
                            "element_type": etype,
                            "pvoltag": pvol,
                            "avoltag": avol,
                            "element_descriptors": [
                                rnd_element(rng, etype, pvol, avol) for _ in range(cnt)
                            ],
                        }
                    )
                d = rnd_fields(rng, ReadElementStatus._datain_bits)
                d["element_status_pages"] = pages
                raw, _ = roundtrip("res/%d" % n, ReadElementStatus, d, rng)
                edl = 16 + 36 * pvol + 36 * avol
                total = sum(8 + edl * len(p["element_descriptors"]) for p in pages)
                check(scsi_ba_to_int(raw[5:8]) == total, "res byte count")
                check(len(raw) == 8 + total, "res length")
                check(ReadElementStatus.unmarshall_datain(raw + rnd_bytes(rng, 11)) == d, "res trailing bytes")
                pos = 8
                for p in pages:
                    check(scsi_ba_to_int(raw[pos + 2 : pos + 4]) == edl, "res edl")
                    check(
                        scsi_ba_to_int(raw[pos + 5 : pos + 8]) == edl * len(p["element_descriptors"]),
                        "res page byte count",
                    )
                    pos += 8 + edl * len(p["element_descriptors"])
                for k in range(0, len(raw) + 1, 13):
                    record("res/%d/trunc/%d" % (n, k), ReadElementStatus.unmarshall_datain, raw[:k])
                n += 1
    # missing volume tags are built as 36 zero bytes and come back as such
    page = {
        "element_type": ELEMENT_TYPE.STORAGE,
        "pvoltag": 1,
        "avoltag": 1,
        "element_descriptors": [rnd_element(rng, ELEMENT_TYPE.STORAGE, 1, 1, with_tags=False)],
    }
    d = {"first_element_address": 7, "num_elements": 1, "element_status_pages": [page]}
    raw = ReadElementStatus.marshall_datain(d)
    p = ReadElementStatus.unmarshall_datain(raw)
    e = p["element_status_pages"][0]["element_descriptors"][0]
    check(e["primary_volume_tag"] == bytearray(36) and e["alternate_volume_tag"] == bytearray(36), "res default tags")
    check(ReadElementStatus.marshall_datain(p) == raw, "res default tags rebuild")
    # zero descriptor length with descriptors present is rejected
    bad = bytearray(raw)
    bad[8 + 2 : 8 + 4] = b"\x00\x00"
    out = record("res/zero-edl", ReadElementStatus.unmarshall_datain, bad)
    check(isinstance(out, ValueError), "res zero edl raises ValueError")
    for k in range(40):
        blob = rnd_bytes(rng, rng.randint(0, 90))
        if len(blob) >= 8:
            blob[5:7] = b"\x00\x00"
        if len(blob) >= 16:
            blob[13:15] = b"\x00\x00"
            blob[10] = 0
        record("res/fuzz/%d" % k, ReadElementStatus.unmarshall_datain, blob)


# ---------------------------------------------------------------------------
# 3. mode pages
# ---------------------------------------------------------------------------
def mode_page(rng, bits_enum, kind):
    PC = MS_ENUM.PAGE_CODE
    if kind == "eaa":
        mp = {"ps": rng.randint(0, 1), "spf": 0, "page_code": PC.ELEMENT_ADDRESS_ASSIGNMENT}
        mp.update(rnd_fields(rng, bits_enum.element_address_bits))
        size = 18
    elif kind == "control":
        mp = {"ps": rng.randint(0, 1), "spf": 0, "page_code": PC.CONTROL}
        mp.update(rnd_fields(rng, bits_enum.control_bits))
        size = 10
    elif kind == "control_ext":
        mp = {"ps": rng.randint(0, 1), "spf": 1, "page_code": PC.CONTROL, "sub_page_code": 1}
        mp.update(rnd_fields(rng, bits_enum.control_extension_1_bits))
        size = 28
    elif kind == "disconnect":
        mp = {"ps": rng.randint(0, 1), "spf": 0, "page_code": PC.DISCONNECT_RECONNECT}
        mp.update(rnd_fields(rng, bits_enum.disconnect_reconnect_bits))
        size = 14
    elif kind == "eaa_sub":
        # sub page format of a page that is not keyed on the sub page code
        mp = {
            "ps": rng.randint(0, 1),
            "spf": 1,
            "page_code": PC.ELEMENT_ADDRESS_ASSIGNMENT,
            "sub_page_code": rng.randint(0, 255),
        }
        mp.update(rnd_fields(rng, bits_enum.element_address_bits))
        size = 18
    return mp, size


KINDS = ["eaa", "control", "control_ext", "disconnect", "eaa_sub"]


def part_modesense(rng):
    for cls, sel, enum, hdr in (
        (ModeSense6, ModeSelect6, MS_ENUM.MODESENSE6, 4),
        (ModeSense10, ModeSelect10, MS_ENUM.MODESENSE10, 8),
    ):
        name = cls.__name__
        for n in range(30):
            for kind in KINDS:
                mp, size = mode_page(rng, enum, kind)
                d = rnd_fields(rng, enum.mode_parameter_header_bits)
                d["mode_pages"] = [mp]
                label = "%s/%s/%d" % (name, kind, n)
                raw, parsed = roundtrip(label, cls, d, rng)
                phdr = 4 if mp["spf"] else 2
                check(len(raw) == hdr + phdr + size, label + " length")
                if hdr == 4:
                    check(raw[0] == len(raw) - 1, label + " mode data length")
                    check(raw[3] == 0, label + " block descriptor length")
                else:
                    check(scsi_ba_to_int(raw[0:2]) == len(raw) - 2, label + " mode data length")
                    check(raw[6:8] == bytearray(2), label + " block descriptor length")
                if mp["spf"]:
                    check(scsi_ba_to_int(raw[hdr + 2 : hdr + 4]) == size, label + " page length")
                    check(raw[hdr + 1] == mp["sub_page_code"], label + " sub page")
                else:
                    check(raw[hdr + 1] == size, label + " page length")
                check(raw[hdr] & 0x3F == mp["page_code"], label + " page code")
                # the select commands send exactly the same bytes
                check(sel.marshall_dataout(d) == raw, label + " marshall_dataout")
                # block descriptors in a response are skipped when parsing
                bd = rnd_bytes(rng, 8)
                with_bd = bytearray(raw[:hdr]) + bd + raw[hdr:]
                with_bd[hdr - 1] = 8
                check(cls.unmarshall_datain(with_bd) == d, label + " block descriptor skipped")
                for k in range(0, len(raw) + 1, 4):
                    record("%s/trunc/%d" % (label, k), cls.unmarshall_datain, raw[:k])
                # read / modify / write: only the bits of the changed field move
                if kind in ("control", "control_ext", "disconnect", "eaa"):
                    table = {
                        "control": enum.control_bits,
                        "control_ext": enum.control_extension_1_bits,
                        "disconnect": enum.disconnect_reconnect_bits,
                        "eaa": enum.element_address_bits,
                    }[kind]
                    body = hdr + phdr
                    for key, (mask, off) in table.items():
                        q = copy.deepcopy(parsed)
                        top = (1 << field_width(mask)) - 1
                        newval = rng.choice([v for v in {0, 1, top, q["mode_pages"][0][key] ^ 1} if v != q["mode_pages"][0][key] and 0 <= v <= top])
                        q["mode_pages"][0][key] = newval
                        new = cls.marshall_datain(q)
                        check(len(new) == len(raw), label + " rmw length " + key)
                        nbytes = (mask.bit_length() + 7) // 8
                        allowed = mask << (8 * (len(raw) - body - off - nbytes))
                        diff = scsi_ba_to_int(new) ^ scsi_ba_to_int(raw)
                        check(diff != 0 and diff & ~allowed == 0, label + " rmw bits " + key)
                        check(cls.unmarshall_datain(new) == q, label + " rmw parse " + key)
        # header only responses
        hd = rnd_fields(rng, enum.mode_parameter_header_bits)
        hd["mode_pages"] = []
        raw, _ = roundtrip(name + "/header-only", cls, hd, rng)
        check(len(raw) == hdr, name + " header-only length")
        # pages the library does not model: parse keeps the page header only
        for n in range(20):
            blob = bytearray(hdr) + rnd_bytes(rng, rng.randint(1, 30))
            blob[hdr - 1] = 0
            if hdr == 8:
                blob[6] = 0
            record("%s/fuzz/%d" % (name, n), cls.unmarshall_datain, blob)
        # building a page the library has no layout for is an error, and a
        # second page does not disturb the first
        record(name + "/unknown-page", cls.marshall_datain, {"mode_pages": [{"ps": 0, "spf": 0, "page_code": 0x08}]})
        record(name + "/control-subpage-2", cls.marshall_datain, {"mode_pages": [{"ps": 0, "spf": 1, "page_code": 0x0A, "sub_page_code": 2}]})
        record(name + "/missing-spf", cls.marshall_datain, {"mode_pages": [{"ps": 0, "page_code": 0x0A}]})
        record(name + "/missing-page-code", cls.marshall_datain, {"mode_pages": [{"ps": 0, "spf": 0}]})
        record(name + "/missing-subpage", cls.marshall_datain, {"mode_pages": [{"ps": 0, "spf": 1, "page_code": 0x0A}]})
        record(name + "/subpage-not-needed", cls.marshall_datain, {"mode_pages": [{"ps": 0, "spf": 1, "page_code": 0x1D}]})
        record(name + "/disconnect-subpage", cls.marshall_datain, {"mode_pages": [{"ps": 0, "spf": 1, "page_code": 0x02, "sub_page_code": 0}]})
        record(name + "/no-mode-pages", cls.marshall_datain, {"medium_type": 1})
        mp1, _ = mode_page(rng, enum, "control")
        mp2, _ = mode_page(rng, enum, "disconnect")
        mp3, _ = mode_page(rng, enum, "control_ext")
        record(name + "/three-pages", cls.marshall_datain, {"medium_type": 3, "mode_pages": [mp1, mp2, mp3]})
        record(name + "/page-then-unknown", cls.marshall_datain, {"mode_pages": [mp1, {"ps": 1, "spf": 0, "page_code": 0x08}]})


class FakeDevice(object):
    """A device that answers INQUIRY and MODE SENSE and records MODE SELECT."""

    def __init__(self, mode_data, devtype=0x00):
        self.opcodes = spc
        self.devicetype = None
        self.mode_data = bytearray(mode_data)
        self.devtype = devtype
        self.written = []
        self.cdbs = []

    def execute(self, cmd, en_raw_sense=False):
        op = cmd.cdb[0]
        self.cdbs.append(bytes(cmd.cdb))
        if op == 0x12:
            cmd.datain[0] = self.devtype
        elif op in (0x1A, 0x5A):
            n = min(len(cmd.datain), len(self.mode_data))
            cmd.datain[:n] = self.mode_data[:n]
        elif op in (0x15, 0x55):
            self.written.append(bytes(cmd.dataout))
            # the device takes over what was written (a mode select payload
            # has a reserved mode data length, a sense response does not)
            self.mode_data = bytearray(cmd.dataout)

    def open(self):
        pass

    def close(self):
        pass


CONTROL6 = bytearray(
    [15, 0, 0x90, 0, 0x8A, 10, 0x9F, 0x9E, 0xF8, 0xF7, 0, 0, 0x01, 0xF4, 0x02, 0xBC]
)
CONTROL10 = bytearray(
    [0, 18, 0, 0x90, 0, 0, 0, 0, 0x8A, 10, 0x9F, 0x9E, 0xF8, 0xF7, 0, 0, 0x01, 0xF4, 0x02, 0xBC]
)


def part_mode_rmw_via_scsi(rng):
    """Read a mode page through SCSI(), flip one field, write it back."""
    for ten, canonical, hdr in ((False, CONTROL6, 4), (True, CONTROL10, 8)):
        name = "ms10" if ten else "ms6"
        bits = MS_ENUM.control_bits
        for key, (mask, off) in bits.items():
            dev = FakeDevice(canonical)
            s = SCSI(dev)
            sense = s.modesense10 if ten else s.modesense6
            select = s.modeselect10 if ten else s.modeselect6
            cmd = sense(page_code=MS_ENUM.PAGE_CODE.CONTROL)
            res = cmd.result
            check(res["mode_pages"][0]["page_code"] == 0x0A, name + " read page")
            # writing back unchanged reproduces the response byte for byte
            c = select(res)
            check(dev.written[-1] == bytes(canonical), name + " write-back identical " + key)
            check(c.cdb[0] == (0x55 if ten else 0x15), name + " select opcode")
            plen = scsi_ba_to_int(c.cdb[7:9]) if ten else c.cdb[4]
            check(plen == len(canonical), name + " parameter list length")
            check(c.cdb[1] == 0x10, name + " pf bit")
            top = (1 << field_width(mask)) - 1
            old = res["mode_pages"][0][key]
            for newval in sorted({0, top, old ^ 1, (old + 1) & top} - {old}):
                res2 = copy.deepcopy(res)
                res2["mode_pages"][0][key] = newval
                select(res2, sp=1)
                out = dev.written[-1]
                nbytes = (mask.bit_length() + 7) // 8
                body = hdr + 2
                allowed = mask << (8 * (len(canonical) - body - off - nbytes))
                diff = int.from_bytes(out, "big") ^ int.from_bytes(bytes(canonical), "big")
                check(diff != 0 and diff & ~allowed == 0, "%s rmw %s=%d" % (name, key, newval))
                back = sense(page_code=MS_ENUM.PAGE_CODE.CONTROL).result
                check(back == res2, "%s rmw read back %s" % (name, key))
                dev.mode_data = bytearray(canonical)
            RECORDS.append("%s/cdbs/%s=%s" % (name, key, b"|".join(dev.cdbs).hex()))
            STRICT_RECORDS.append(RECORDS[-1])


def part_swp_tool(rng):
    """tools/swp.py: show / set / clear the software write protect bit."""
    spec = importlib.util.spec_from_file_location("swp_tool", os.path.join(ROOT, "tools", "swp.py"))
    swp = importlib.util.module_from_spec(spec)
    spec.loader.exec_module(swp)

    def run(args, mode_data):
        dev = FakeDevice(mode_data)
        opened = []

        def fake_init_device(name, *a, **kw):
            opened.append(name)
            return dev

        swp.init_device = fake_init_device
        saved = sys.argv
        sys.argv = ["swp.py"] + list(args)
        buf = io.StringIO()
        try:
            with contextlib.redirect_stdout(buf):
                ret = swp.main()
            left = list(sys.argv)
        finally:
            sys.argv = saved
        return ret, buf.getvalue(), dev, opened, left

    on = bytearray(CONTROL6)
    off = bytearray(CONTROL6)
    off[8] &= ~0x08 & 0xFF

    ret, out, dev, opened, left = run(["/dev/sg9"], on)
    check(out == "SWP is ON\n" and ret is None, "swp show on")
    check(opened == ["/dev/sg9"] and dev.written == [], "swp show does not write")
    ret, out, dev, opened, left = run(["/dev/sg9"], off)
    check(out == "SWP is OFF\n", "swp show off")

    for args in (["--on", "/dev/sg9"], ["/dev/sg9", "--on"]):
        ret, out, dev, opened, left = run(args, off)
        check(out == "Set SWP ON\n", "swp --on output")
        check(dev.written == [bytes(on)], "swp --on flips only the SWP bit")
        check(left == ["swp.py", "/dev/sg9"], "swp --on argv")
        ret, out, dev, opened, left = run(args, on)
        check(dev.written == [bytes(on)], "swp --on when already on")
    for args in (["--off", "/dev/sg9"], ["/dev/sg9", "--off"]):
        ret, out, dev, opened, left = run(args, on)
        check(out == "Set SWP OFF\n", "swp --off output")
        check(dev.written == [bytes(off)], "swp --off flips only the SWP bit")
        ret, out, dev, opened, left = run(args, off)
        check(dev.written == [bytes(off)], "swp --off when already off")
    # both flags: on wins
    ret, out, dev, opened, left = run(["--off", "--on", "/dev/sg9"], off)
    check(out == "Set SWP ON\n" and dev.written == [bytes(on)], "swp --off --on")
    # usage
    for args in ([], ["--help"], ["--on"], ["--on", "--off"], ["/dev/sg9", "--help"], ["--on", "--help", "--off", "x"]):
        ret, out, dev, opened, left = run(args, on)
        check(out == "Usage: swp.py [--help] [--on|--off] <device>\n", "swp usage %r" % (args,))
        check(opened == [] and dev.written == [], "swp usage opens nothing %r" % (args,))
        RECORDS.append("swp/argv/%r=%r" % (args, left))
        STRICT_RECORDS.append(RECORDS[-1])
    # every other control bit combination survives the tool untouched
    for n in range(40):
        data = bytearray(CONTROL6)
        data[6:10] = rnd_bytes(rng, 4)
        data[9] &= 0xF7  # reserved bit of byte 3 (between rwwp and autoload mode)
        data[7] &= 0xFE  # obsolete bit
        data[8] &= 0xF8  # obsolete bits
        data[12:16] = rnd_bytes(rng, 4)
        for flag, bit in (("--on", 0x08), ("--off", 0x00)):
            ret, out, dev, opened, left = run([flag, "/dev/sg1"], data)
            want = bytearray(data)
            want[8] = (want[8] & 0xF7) | bit
            check(dev.written == [bytes(want)], "swp random page %d %s" % (n, flag))


# ---------------------------------------------------------------------------
# 4. inquiry
# ---------------------------------------------------------------------------
def rnd_designator(rng, dtype):
    D = INQ_ENUM.DESIGNATOR
    N = INQ_ENUM.NAA
    if dtype == D.VENDOR_SPECIFIC:
        return {"vendor_specific": rnd_bytes(rng, rng.randint(1, 20))}
    if dtype == D.T10_VENDOR_ID:
        return {"t10_vendor_id": rnd_bytes(rng, 8), "vendor_specific_id": rnd_bytes(rng, rng.randint(0, 12))}
    if dtype == D.EUI_64:
        form = rng.choice([8, 12, 16])
        d = {"ieee_company_id": rnd_value(rng, 0xFFFFFF), "vendor_specific_extension_id": rnd_bytes(rng, 5)}
        if form == 12:
            d["directory_id"] = rnd_bytes(rng, 4)
        if form == 16:
            d["identifier_extension"] = rnd_bytes(rng, 8)
        return d
    if dtype == D.NAA:
        naa = rng.choice([N.IEEE_EXTENDED, N.LOCALLY_ASSIGNED, N.IEEE_REGISTERED, N.IEEE_REGISTERED_EXTENDED])
        d = {"naa": naa}
        bits = {
            N.IEEE_EXTENDED: Inquiry._naa_ieee_extended_bits,
            N.LOCALLY_ASSIGNED: Inquiry._naa_locally_assigned_bits,
            N.IEEE_REGISTERED: Inquiry._naa_ieee_registered_bits,
            N.IEEE_REGISTERED_EXTENDED: Inquiry._naa_ieee_registered_extended_bits,
        }[naa]
        d.update(rnd_fields(rng, bits))
        return d
    if dtype == D.RELATIVE_TARGET_PORT_IDENTIFIER:
        return {"relative_port": rnd_value(rng, 0xFFFF)}
    if dtype == D.TARGET_PORTAL_GROUP:
        return {"target_portal_group": rnd_value(rng, 0xFFFF)}
    if dtype == D.LOGICAL_UNIT_GROUP:
        return {"logical_unit_group": rnd_value(rng, 0xFFFF)}
    if dtype == D.MD5_LOGICAL_IDENTIFIER:
        return {"md5_logical_identifier": rnd_bytes(rng, 16)}
    if dtype == D.SCSI_NAME_STRING:
        return {"scsi_name_string": bytearray(b"iqn.2001-04.com.example:" + bytes(rnd_bytes(rng, rng.randint(0, 8)).hex(), "ascii"))}
    if dtype == D.PCI_EXPRESS_ROUTING_ID:
        return {"pci_express_routing_id": rnd_value(rng, 0xFFFF)}
    raise AssertionError(dtype)


def designator_len(dtype, d):
    D = INQ_ENUM.DESIGNATOR
    if dtype == D.VENDOR_SPECIFIC:
        return len(d["vendor_specific"])
    if dtype == D.T10_VENDOR_ID:
        return 8 + len(d["vendor_specific_id"])
    if dtype == D.EUI_64:
        return 16 if "identifier_extension" in d else 12 if "directory_id" in d else 8
    if dtype == D.NAA:
        return 16 if d["naa"] == INQ_ENUM.NAA.IEEE_REGISTERED_EXTENDED else 8
    if dtype in (D.RELATIVE_TARGET_PORT_IDENTIFIER, D.TARGET_PORTAL_GROUP, D.LOGICAL_UNIT_GROUP):
        return 4
    if dtype == D.MD5_LOGICAL_IDENTIFIER:
        return 16
    if dtype == D.SCSI_NAME_STRING:
        return len(d["scsi_name_string"])
    if dtype == D.PCI_EXPRESS_ROUTING_ID:
        return 8


def part_inquiry(rng):
    V = INQ_ENUM.VPD
    # standard inquiry data
    for n in range(40):
        d = rnd_fields(rng, Inquiry._datain_bits)
        d.update(rnd_fields(rng, Inquiry._standard_bits))
        raw, _ = roundtrip("inq/std/%d" % n, Inquiry, d, rng)
        check(len(raw) == 96, "inq std length")
        check(raw[8:16] == d["t10_vendor_identification"], "inq vendor bytes")
        check(raw[0] == (d["peripheral_qualifier"] << 5 | d["peripheral_device_type"]), "inq byte 0")
        for key, spec in Inquiry._standard_bits.items():
            if len(spec) != 2:
                continue
            mask, off = spec
            q = dict(d)
            q[key] = d[key] ^ 1
            new = Inquiry.marshall_datain(q)
            diff = scsi_ba_to_int(new) ^ scsi_ba_to_int(raw)
            check(diff == (mask & -mask) << (8 * (96 - off - 1)), "inq std rmw " + key)
        for k in (0, 1, 4, 5, 8, 36, 57):
            record("inq/std/%d/trunc/%d" % (n, k), Inquiry.unmarshall_datain, raw[:k])
    hdr = lambda pc: dict(rnd_fields(rng, Inquiry._datain_bits), page_code=pc)
    for n in range(30):
        d = hdr(V.LOGICAL_BLOCK_PROVISIONING)
        d.update(rnd_fields(rng, Inquiry._logical_block_provisioning_bits))
        raw, _ = roundtrip("inq/lbp/%d" % n, Inquiry, d, rng, {"evpd": 1})
        check(len(raw) == 8 and raw[1] == 0xB2 and raw[2:4] == b"\x00\x04", "inq lbp header")

        d = hdr(V.REFERRALS)
        d.update(rnd_fields(rng, Inquiry._referrals_bits))
        raw, _ = roundtrip("inq/ref/%d" % n, Inquiry, d, rng, {"evpd": 1})
        check(len(raw) == 16 and raw[1] == 0xB3 and raw[2:4] == b"\x00\x0c", "inq referrals header")

        d = hdr(V.EXTENDED_INQUIRY_DATA)
        d.update(rnd_fields(rng, Inquiry._extended_bits))
        raw, _ = roundtrip("inq/ext/%d" % n, Inquiry, d, rng, {"evpd": 1})
        check(len(raw) == 64 and raw[1] == 0x86 and raw[2:4] == b"\x00\x3c", "inq extended header")

        d = hdr(V.UNIT_SERIAL_NUMBER)
        d["unit_serial_number"] = rnd_bytes(rng, rng.choice([0, 1, 8, 20, 252]))
        raw, _ = roundtrip("inq/usn/%d" % n, Inquiry, d, rng, {"evpd": 1})
        check(raw[4:] == d["unit_serial_number"], "inq usn payload")
        check(scsi_ba_to_int(raw[2:4]) == len(d["unit_serial_number"]), "inq usn length")
        check(Inquiry.unmarshall_datain(raw + rnd_bytes(rng, 7), evpd=1) == d, "inq usn trailing bytes")

    # device identification
    D = INQ_ENUM.DESIGNATOR
    all_types = [
        D.VENDOR_SPECIFIC, D.T10_VENDOR_ID, D.EUI_64, D.NAA,
        D.RELATIVE_TARGET_PORT_IDENTIFIER, D.TARGET_PORTAL_GROUP,
        D.LOGICAL_UNIT_GROUP, D.MD5_LOGICAL_IDENTIFIER, D.SCSI_NAME_STRING,
        D.PCI_EXPRESS_ROUTING_ID,
    ]
    for n in range(80):
        descs = []
        types = all_types if n < 4 else [rng.choice(all_types) for _ in range(rng.choice([0, 1, 2, 3, 6]))]
        for dtype in types:
            des = rnd_designator(rng, dtype)
            piv = rng.randint(0, 1)
            assoc = rng.choice([0, 1, 2, 3])
            dd = {
                "code_set": rng.randint(0, 15),
                "piv": piv,
                "association": assoc,
                "designator_type": dtype,
                "designator_length": designator_len(dtype, des),
                "designator": des,
            }
            if piv and assoc in (1, 2):
                dd["protocol_identifier"] = rng.randint(0, 15)
            descs.append(dd)
        d = hdr(V.DEVICE_IDENTIFICATION)
        d["designator_descriptors"] = descs
        raw, parsed = roundtrip("inq/devid/%d" % n, Inquiry, d, rng, {"evpd": 1})
        total = sum(4 + x["designator_length"] for x in descs)
        check(scsi_ba_to_int(raw[2:4]) == total and len(raw) == 4 + total, "inq devid length")
        check(Inquiry.unmarshall_datain(raw + rnd_bytes(rng, 9), evpd=1) == d, "inq devid trailing bytes")
        # each descriptor alone, via the public helper
        pos = 4
        for x in descs:
            one = Inquiry.marshall_designation_descriptor(x)
            check(raw[pos : pos + len(one)] == one, "inq devid descriptor bytes")
            check(one[3] == len(one) - 4 == x["designator_length"], "inq devid descriptor length")
            des_raw = Inquiry.marshall_designator(x["designator_type"], x["designator"])
            check(one[4:] == des_raw, "inq designator bytes")
            check(
                Inquiry.unmarshall_designator(x["designator_type"], des_raw) == x["designator"],
                "inq designator roundtrip",
            )
            # a stale designator_length in the dict is overwritten
            y = dict(x)
            y["designator_length"] = 0xFF
            check(Inquiry.marshall_designation_descriptor(y) == one, "inq stale designator_length")
            del y["designator_length"]
            check(Inquiry.marshall_designation_descriptor(y) == one, "inq missing designator_length")
            pos += len(one)
        for k in range(0, len(raw) + 1, 5):
            record("inq/devid/%d/trunc/%d" % (n, k), Inquiry.unmarshall_datain, raw[:k], evpd=1)
    # parse only pages and odd inputs
    for n in range(30):
        for pc, size in (
            (V.SUPPORTED_VPD_PAGES, rng.randint(0, 12)),
            (V.BLOCK_LIMITS, 60),
            (V.BLOCK_DEVICE_CHARACTERISTICS, 60),
            (V.ATA_INFORMATION, 568),
            (V.MODE_PAGE_POLICT, 8),
            (V.DEVICE_IDENTIFICATION, rng.randint(0, 30)),
        ):
            blob = bytearray([rng.randint(0, 255), pc]) + scsi_int_to_ba(size, 2) + rnd_bytes(rng, size + rng.randint(0, 3))
            if pc == V.DEVICE_IDENTIFICATION:
                # keep NAA/unknown formats parseable or failing deterministically
                pass
            record("inq/vpd/%02x/%d" % (pc, n), Inquiry.unmarshall_datain, blob, evpd=1)
            record("inq/vpd/%02x/%d/build" % (pc, n), Inquiry.marshall_datain, {"page_code": pc, "peripheral_device_type": 5})
    for dtype in range(0, 12):
        for ln in (0, 1, 3, 4, 7, 8, 12, 16, 20):
            record("inq/designator/%d/%d" % (dtype, ln), Inquiry.unmarshall_designator, dtype, rnd_bytes(rng, ln))
        record("inq/designator-build/%d" % dtype, Inquiry.marshall_designator, dtype, {})
    record("inq/naa-unknown", Inquiry.marshall_designator, D.NAA, {"naa": 1})
    record("inq/eui-missing", Inquiry.marshall_designator, D.EUI_64, {"ieee_company_id": 1})
    # through the SCSI front end
    d = rnd_fields(rng, Inquiry._datain_bits)
    d["peripheral_device_type"] = 0
    d["page_code"] = V.UNIT_SERIAL_NUMBER
    d["unit_serial_number"] = bytearray(b"SN-0123456789")
    payload = Inquiry.marshall_datain(d)

    class Dev(FakeDevice):
        def execute(self, cmd, en_raw_sense=False):
            self.cdbs.append(bytes(cmd.cdb))
            if cmd.cdb[1] & 1:
                cmd.datain[: len(payload)] = payload
            else:
                cmd.datain[0] = 0

    dev = Dev(b"")
    s = SCSI(dev)
    r = s.inquiry(evpd=1, page_code=V.UNIT_SERIAL_NUMBER, alloclen=64).result
    check(r == d, "inquiry via SCSI()")
    check(dev.cdbs[-1] == bytes([0x12, 1, 0x80, 0, 64, 0]), "inquiry cdb")


# ---------------------------------------------------------------------------
# 5. persistent reserve in
# ---------------------------------------------------------------------------
def rnd_transport_id(rng):
    proto = rng.choice([PROTOCOL_ID.FIBRE_CHANNEL, PROTOCOL_ID.IEEE_1394, PROTOCOL_ID.RDMA, PROTOCOL_ID.ISCSI, PROTOCOL_ID.ISCSI, PROTOCOL_ID.SAS, PROTOCOL_ID.SOP])
    if proto == PROTOCOL_ID.ISCSI:
        name = "iqn.1993-08.org.debian:01:" + rnd_bytes(rng, rng.randint(0, 9)).hex()
        if rng.random() < 0.5:
            return {"tpid_format": 0, "protocol_id": proto, "iscsi_name": name}
        return {"tpid_format": 1, "protocol_id": proto, "iscsi_name": name, "iscsi_initiator_session_id": rnd_bytes(rng, 6).hex()}
    d = {"tpid_format": 0, "protocol_id": proto}
    if proto == PROTOCOL_ID.FIBRE_CHANNEL:
        d["n_port_name"] = rnd_bytes(rng, 8)
    elif proto == PROTOCOL_ID.IEEE_1394:
        d["eui64_name"] = rnd_bytes(rng, 8)
    elif proto == PROTOCOL_ID.RDMA:
        d["initiator_port_identifier"] = rnd_bytes(rng, 16)
    elif proto == PROTOCOL_ID.SAS:
        d["sas_address"] = rnd_bytes(rng, 8)
    elif proto == PROTOCOL_ID.SOP:
        d["routing_id"] = rnd_bytes(rng, 8)
    return d


def part_persistentreservein(rng):
    FS = PersistentReserveInReadFullStatus
    # transport ids: build -> parse -> build
    statuses_raw = []
    for n in range(120):
        t = rnd_transport_id(rng)
        before = copy.deepcopy(t)
        raw = FS.marshall_transport_id(t)
        check(t == before, "tid build keeps argument")
        check(len(raw) % 4 == 0, "tid length is a multiple of four")
        if t["protocol_id"] == PROTOCOL_ID.ISCSI:
            check(scsi_ba_to_int(raw[2:4]) == len(raw) - 4, "tid iscsi additional length")
            check(raw[-1] == 0, "tid iscsi null terminated")
        else:
            check(len(raw) == 24, "tid fixed length")
        p = FS.unmarshall_transport_id(raw)
        check(p == t, "tid parse(build(t)) == t")
        check(FS.marshall_transport_id(p) == raw, "tid build(parse(raw)) == raw")
        check(canon_nobytes(FS.unmarshall_transport_id(bytes(raw))) == canon_nobytes(t), "tid bytes input")
        RECORDS.append("tid/%d raw=%s" % (n, bytes(raw).hex()))
        STRICT_RECORDS.append("tid/%d raw=%s parsed=%s" % (n, bytes(raw).hex(), strict(p)))
        # embed in a full status descriptor
        desc = bytearray(24)
        key = rnd_value(rng, 0xFFFFFFFFFFFFFFFF)
        desc[0:8] = scsi_int_to_ba(key, 8)
        flags = rng.randint(0, 3)
        st = rng.randint(0, 255)
        rtpi = rng.randint(0, 0xFFFF)
        desc[12] = flags
        desc[13] = st
        desc[18:20] = scsi_int_to_ba(rtpi, 2)
        desc[20:24] = scsi_int_to_ba(len(raw), 4)
        statuses_raw.append(
            (
                desc + raw,
                {
                    "reservation_key": key,
                    "r_holder": flags & 1,
                    "all_tg_pt": flags >> 1,
                    "scope": st >> 4,
                    "type": st & 15,
                    "relative_target_port_id": rtpi,
                    "transport_id": t,
                },
            )
        )
    for n in range(30):
        pick = [rng.choice(statuses_raw) for _ in range(rng.choice([0, 1, 2, 5]))]
        body = bytearray()
        for r, _ in pick:
            body += r
        gen = rng.randint(0, 0xFFFFFFFF)
        raw = scsi_int_to_ba(gen, 4) + scsi_int_to_ba(len(body), 4) + body
        p = record("prin/full/%d" % n, FS.unmarshall_datain, raw)
        check(p == {"pr_generation": gen, "full_status": [x for _, x in pick]}, "prin full status parse")
        p2 = FS.unmarshall_datain(raw + rnd_bytes(rng, 13))
        check(p2 == p, "prin full status trailing bytes")
        for k in range(0, len(raw) + 1, 9):
            record("prin/full/%d/trunc/%d" % (n, k), FS.unmarshall_datain, raw[:k])
    record("tid/bad-proto", FS.unmarshall_transport_id, bytearray([0x01]) + bytearray(23))
    record("tid/bad-format", FS.unmarshall_transport_id, bytearray([0x85, 0, 0, 4]) + bytearray(b"abc\0"))
    record("tid/build-bad-proto", FS.marshall_transport_id, {"protocol_id": 1})
    record("tid/build-need-session", FS.marshall_transport_id, {"protocol_id": 5, "tpid_format": 1, "iscsi_name": "x"})
    record("tid/build-need-format", FS.marshall_transport_id, {"protocol_id": 5, "iscsi_name": "x", "iscsi_initiator_session_id": "1"})
    for ln in range(0, 9):
        record("tid/pad/%d" % ln, FS.marshall_transport_id, {"protocol_id": 5, "iscsi_name": "n" * ln})

    # read keys
    for n in range(30):
        keys = [rnd_value(rng, 0xFFFFFFFFFFFFFFFF) for _ in range(rng.choice([0, 1, 2, 9]))]
        gen = rng.randint(0, 0xFFFFFFFF)
        raw = scsi_int_to_ba(gen, 4) + scsi_int_to_ba(8 * len(keys), 4)
        for k in keys:
            raw += scsi_int_to_ba(k, 8)
        p = record("prin/keys/%d" % n, PersistentReserveInReadKeys.unmarshall_datain, raw + rnd_bytes(rng, 5))
        check(p == {"pr_generation": gen, "reservation_keys": keys}, "prin read keys")
        for k in range(0, len(raw) + 1, 5):
            record("prin/keys/%d/trunc/%d" % (n, k), PersistentReserveInReadKeys.unmarshall_datain, raw[:k])
    # read reservation
    for n in range(30):
        gen = rng.randint(0, 0xFFFFFFFF)
        key = rnd_value(rng, 0xFFFFFFFFFFFFFFFF)
        st = rng.randint(0, 255)
        raw = scsi_int_to_ba(gen, 4) + scsi_int_to_ba(16, 4) + scsi_int_to_ba(key, 8) + bytearray(5) + bytearray([st]) + bytearray(2)
        p = record("prin/resv/%d" % n, PersistentReserveInReadReservation.unmarshall_datain, raw)
        check(p == {"pr_generation": gen, "reservation_key": key, "scope": st >> 4, "type": st & 15}, "prin read reservation")
        raw[7] = rng.choice([0, 0, 8, 15, 17, 24])
        record("prin/resv/%d/len" % n, PersistentReserveInReadReservation.unmarshall_datain, raw)
    # report capabilities
    for n in range(60):
        raw = bytearray([0, rng.choice([8, 8, 8, 8, 0, 4, 9])]) + rnd_bytes(rng, 6)
        p = record("prin/caps/%d" % n, PersistentReserveInReportCapabilities.unmarshall_datain, raw)
        if raw[1] == 8:
            check(p["ptpl_c"] == raw[2] & 1 and p["tmv"] == raw[3] >> 7, "prin caps bits")
            check(p["allow_commands"] == (raw[3] >> 4) & 7, "prin caps allow")
            check(p["pr_type_mask"]["ex_ac_ar"] == raw[5] & 1 and p["pr_type_mask"]["wr_ex_ar"] == raw[4] >> 7, "prin caps type mask")
            check("length" not in p, "prin caps no length")
        elif raw[1] == 0:
            check(p == {}, "prin caps empty")
        else:
            check(isinstance(p, ValueError), "prin caps bad length")
    # through SCSI(): cdb + dispatch to the right parser
    payload = scsi_int_to_ba(7, 4) + scsi_int_to_ba(8, 4) + scsi_int_to_ba(0xDEADBEEF, 8)

    class Dev(FakeDevice):
        def execute(self, cmd, en_raw_sense=False):
            self.cdbs.append(bytes(cmd.cdb))
            if cmd.cdb[0] == 0x5E:
                cmd.datain[: len(payload)] = payload
            else:
                cmd.datain[0] = 0

    dev = Dev(b"")
    s = SCSI(dev)
    for sa in (0, 1, 2, 3, 4):
        record("prin/scsi/%d" % sa, lambda: s.persistentreservein(service_action=sa, alloclen=256).result)
        if sa < 4:
            check(dev.cdbs[-1] == bytes([0x5E, sa, 0, 0, 0, 0, 0, 1, 0, 0]), "prin cdb %d" % sa)
    r = s.persistentreservein(service_action=0, alloclen=256).result
    check(r == {"pr_generation": 7, "reservation_keys": [0xDEADBEEF]}, "prin read keys via SCSI()")


# ---------------------------------------------------------------------------
# 6. parse only structures (determinism / golden)
# ---------------------------------------------------------------------------
def part_readdisc(rng):
    for n in range(40):
        for dtype in range(0, 5):
            blob = rnd_bytes(rng, 40)
            blob[0:2] = scsi_int_to_ba(rng.choice([32, 38, 10, 0]), 2)
            blob[2] = (dtype << 5) | (blob[2] & 0x1F)
            p = record("rdi/%d/%d" % (n, dtype), ReadDiscInformation.unmarshall_datain, blob)
            if dtype == 0:
                check(p["number_of_sessions"] == blob[9] * 256 + blob[4], "rdi sessions")
                check(p["first_track_number_in_last_session"] == blob[10] * 256 + blob[5], "rdi first track")
                check(p["last_track_number_in_last_session"] == blob[11] * 256 + blob[6], "rdi last track")
                check(not any(k.endswith("_msb") or k.endswith("_lsb") for k in p), "rdi no msb/lsb keys")
                check(p["disc_bar_code"] == blob[24:32], "rdi bar code")
            elif dtype in (1, 2):
                check(p["disc_information_data_type"] == dtype, "rdi data type")
            else:
                check(isinstance(p, NotImplementedError) and str(p) == "Unknown disc information data type %d" % dtype, "rdi unknown type")
    for k in (0, 1, 2, 3, 8, 20, 33, 34):
        record("rdi/trunc/%d" % k, ReadDiscInformation.unmarshall_datain, bytearray(k))

    class Dev(FakeDevice):
        def execute(self, cmd, en_raw_sense=False):
            self.cdbs.append(bytes(cmd.cdb))
            if cmd.cdb[0] == 0x51:
                cmd.datain[:12] = bytearray([0, 10, 0x20, 0, 0, 99, 0, 98, 0, 97, 0, 96])
            else:
                cmd.datain[0] = 5

    dev = Dev(b"")
    s = SCSI(dev)
    r = s.readdiscinformation(data_type=1, alloc_len=64).result
    check(r["maximum_possible_number_of_the_tracks"] == 99 and r["current_number_of_appendable_tracks"] == 96, "rdi via SCSI()")


def part_readcd(rng):
    combos = []
    for est in range(0, 6):
        for mcsb in (0x00, 0x02, 0x03, 0x04, 0x06, 0x08, 0x0A, 0x0B, 0x0C, 0x0E, 0x10, 0x12, 0x13, 0x14, 0x17, 0x1E, 0x1F, 0x1B, 0x1C):
            combos.append((est, mcsb))
    for est, mcsb in combos:
        for c2ei, scsb in ((0, 0), (1, 2), (2, 4), (0, 1)):
            blob = rnd_bytes(rng, 2 * 3072)
            record(
                "readcd/%d/%02x/%d/%d" % (est, mcsb, c2ei, scsb),
                ReadCd.unmarshall_datain, blob, lba=rng.randint(0, 5), tl=2,
                est=est, mcsb=mcsb, c2ei=c2ei, scsb=scsb,
            )
    record("readcd/short", ReadCd.unmarshall_datain, bytearray(10), lba=0, tl=1, est=2, mcsb=0x1F)


# ---------------------------------------------------------------------------
GOLDEN = "267a522ddda8701e2fa4acb4c53987c6289d48cecaa33f408a749ecb8796a002"


def main():
    rng = random.Random(0xC06)
    parts = [
        part_readcapacity,
        part_getlbastatus,
        part_reportluns,
        part_reportpriority,
        part_rtpg,
        part_readelementstatus,
        part_modesense,
        part_mode_rmw_via_scsi,
        part_swp_tool,
        part_inquiry,
        part_persistentreservein,
        part_readdisc,
        part_readcd,
    ]
    for part in parts:
        # every part gets its own stream so that parts stay independent
        sub = random.Random(rng.randint(0, 1 << 30))
        try:
            part(sub)
        except Exception as e:  # noqa
            import traceback

            traceback.print_exc()
            FAILURES.append("%s crashed: %r" % (part.__name__, e))

    digest = hashlib.sha256("\n".join(RECORDS).encode("utf-8")).hexdigest()
    if os.environ.get("C06_DUMP"):
        with open(os.environ["C06_DUMP"], "w") as f:
            f.write("\n".join(STRICT_RECORDS))
    if os.environ.get("C06_PRINT_DIGEST"):
        print("digest", digest, "records", len(RECORDS))
    if GOLDEN.startswith("@@"):
        print("no golden digest embedded")
    else:
        check(digest == GOLDEN, "golden digest of %d recorded outcomes (got %s)" % (len(RECORDS), digest))

    if FAILURES:
        print("FAILED: %d of %d checks" % (len(FAILURES), CHECKS[0]))
        return 1
    print("PASS (%d checks, %d recorded outcomes)" % (CHECKS[0], len(RECORDS)))
    return 0


if __name__ == "__main__":
    sys.exit(main())
