#!/usr/bin/env python
# coding: utf-8
"""
Demo / checker for property C11:

    Every response and sense decoder returns or raises within an amount of work
    proportional to the size of the buffer it was given, for any byte content and
    any length.  No response a faulty or hostile device can produce makes the
    initiator loop forever or allocate without bound.

Run as
    cd /tmp/seed/C11u && PYTHONPATH=/tmp/seed/C11u /venv/bin/python SEED/demo.py

What is checked, always through the public API of the library (the decoder class
methods, SCSICommand.unmarshall(), the SCSI convenience wrapper driven by a fake
device, SCSIDevice.execute() driven by a fake ``sgio`` binding, and the
SCSICheckCondition exception):

 1. WORK BOUND.  Every call runs under a tracer that counts executed python
    lines/calls.  A call must finish (return or raise an ordinary exception)
    within  BASE + PER_BYTE * len(buffer) (+ PER_SECTOR * tl for READ CD, whose
    number of sectors is chosen by the caller, not by the device) steps; the
    tracer aborts the call when the budget is exceeded, so a decoder that loops
    forever makes the demo FAIL instead of hang.
 2. TIME.  A watchdog (SIGALRM) fails the demo if a single call, even one stuck
    in C code, takes absurdly long.
 3. ALLOCATION BOUND.  For large buffers the tracemalloc peak of a call must be
    within  MEM_BASE + MEM_PER_BYTE * len(buffer)  (these calls are step limited
    too, so a run-away decoder cannot exhaust the memory of the machine).
 4. SCALING.  For the looping decoders the number of steps for a buffer of 2N
    bytes must be at most ~2x (+ slack) the steps for N bytes (linear growth).
 5. STABILITY.  The outcome of every call (the returned value, or the type of
    the exception raised) is folded into a digest per decoder family and
    compared with the digests recorded from the reference implementation, so a
    change of observable behaviour on any of the several thousand inputs is
    noticed as well.  (``--print-golden`` prints the digests instead.)

Exits 0 and prints PASS when everything holds, exits 1 and prints FAIL otherwise.
"""

import hashlib
import random
import signal
import sys
import time
import tracemalloc
import types

# ----------------------------------------------------------------------------
# fake external bindings (not installed in the test environment)
# ----------------------------------------------------------------------------


class _FakeCheckConditionError(Exception):
    def __init__(self, sense):
        Exception.__init__(self, "check condition")
        self.sense = sense


def _install_fakes():
    sgio = types.ModuleType("sgio")
    sgio.CheckConditionError = _FakeCheckConditionError
    sgio.plan = []  # list of callables(cdb, dataout, datain)

    def execute(fileobj, cdb, dataout, datain, *args, **kwargs):
        action = sgio.plan.pop(0)
        return action(cdb, dataout, datain)

    sgio.execute = execute
    sys.modules["sgio"] = sgio

    iscsi = types.ModuleType("iscsi")

    class _Task(object):
        pass

    iscsi.Task = _Task
    iscsi.Context = type("Context", (object,), {})
    iscsi.URL = type("URL", (object,), {})
    iscsi.SCSI_STATUS_CHECK_CONDITION = 2
    sys.modules["iscsi"] = iscsi
    return sgio


_sgio = _install_fakes()

from pyscsi.pyscsi import scsi_enum_command  # noqa: E402
from pyscsi.pyscsi.scsi import SCSI  # noqa: E402
from pyscsi.pyscsi.scsi_cdb_getlbastatus import GetLBAStatus  # noqa: E402
from pyscsi.pyscsi.scsi_cdb_inquiry import Inquiry  # noqa: E402
from pyscsi.pyscsi.scsi_cdb_modesense6 import ModeSelect6, ModeSense6  # noqa: E402
from pyscsi.pyscsi.scsi_cdb_modesense10 import ModeSelect10, ModeSense10  # noqa: E402
from pyscsi.pyscsi.scsi_cdb_persistentreservein import (  # noqa: E402
    PersistentReserveIn,
    PersistentReserveInReadFullStatus,
    PersistentReserveInReadKeys,
    PersistentReserveInReadReservation,
    PersistentReserveInReportCapabilities,
)
from pyscsi.pyscsi.scsi_cdb_readcapacity10 import ReadCapacity10  # noqa: E402
from pyscsi.pyscsi.scsi_cdb_readcapacity16 import ReadCapacity16  # noqa: E402
from pyscsi.pyscsi.scsi_cdb_readcd import ReadCd  # noqa: E402
from pyscsi.pyscsi.scsi_cdb_readdiscinformation import ReadDiscInformation  # noqa: E402
from pyscsi.pyscsi.scsi_cdb_readelementstatus import ReadElementStatus  # noqa: E402
from pyscsi.pyscsi.scsi_cdb_report_luns import ReportLuns  # noqa: E402
from pyscsi.pyscsi.scsi_cdb_report_priority import ReportPriority  # noqa: E402
from pyscsi.pyscsi.scsi_cdb_report_target_port_groups import (  # noqa: E402
    ReportTargetPortGroups,
)
from pyscsi.pyscsi.scsi_command import SCSICommand  # noqa: E402
from pyscsi.pyscsi.scsi_device import SCSIDevice  # noqa: E402
from pyscsi.pyscsi import scsi_sense  # noqa: E402
from pyscsi.pyscsi.scsi_sense import SCSICheckCondition  # noqa: E402

# ----------------------------------------------------------------------------
# budgets
# ----------------------------------------------------------------------------
STEP_BASE = 6000  # constant part: a decoder may decode a few fixed tables
STEP_PER_BYTE = 1500  # python lines+calls allowed per byte of input (the costliest decoder,
# READ ELEMENT STATUS with one byte descriptors, needs ~450)
STEP_PER_SECTOR = 1500  # READ CD only: per sector requested by the *caller*
MEM_BASE = 1 << 20
MEM_PER_BYTE = 2048
CALL_SECONDS = 120  # watchdog for one call
BIG = 16384  # size of the "large" buffers

FAILURES = []
STATS = {"calls": 0, "max_ratio": 0.0, "max_ratio_what": ""}


class WorkBoundExceeded(BaseException):
    pass


class WatchdogExpired(BaseException):
    pass


def _on_alarm(signum, frame):
    raise WatchdogExpired()


signal.signal(signal.SIGALRM, _on_alarm)


class TooManyFailures(Exception):
    pass


MAX_FAILURES = 8  # give up early: a run-away decoder costs a full budget on every input


def fail(msg):
    FAILURES.append(msg)
    print("FAIL: " + msg)
    sys.stdout.flush()
    if len(FAILURES) >= MAX_FAILURES:
        raise TooManyFailures()


def metered(limit, fn, args, kwargs):
    """run fn(*args, **kwargs) counting executed lines and calls; abort above limit"""
    count = [0]

    def tracer(frame, event, arg):
        if event == "line" or event == "call":
            count[0] += 1
            if count[0] > limit:
                raise WorkBoundExceeded()
        return tracer

    signal.alarm(CALL_SECONDS)
    sys.settrace(tracer)
    try:
        try:
            res = ("OK", fn(*args, **kwargs))
        finally:
            sys.settrace(None)
            signal.alarm(0)
    except (WorkBoundExceeded, WatchdogExpired):
        raise
    except RecursionError as e:
        # recursion depth proportional to the input is unbounded stack use
        res = ("EXC", e)
    except Exception as e:
        res = ("EXC", e)
    return res, count[0]


def canon(res):
    kind, val = res
    if kind == "OK":
        return "OK " + repr(val)
    if type(val) in (ValueError, NotImplementedError):
        return "EXC %s: %s" % (type(val).__name__, val)
    return "EXC " + type(val).__name__


class Family(object):
    """a group of calls whose outcomes are folded into one digest"""

    def __init__(self, name):
        self.name = name
        self.h = hashlib.sha256()
        self.n = 0

    def call(self, what, size, fn, *args, **kwargs):
        sectors = kwargs.pop("_sectors", 0)
        limit = STEP_BASE + STEP_PER_BYTE * size + STEP_PER_SECTOR * max(sectors, 0)
        STATS["calls"] += 1
        try:
            res, steps = metered(limit, fn, args, kwargs)
        except WorkBoundExceeded:
            fail(
                "%s/%s: more than %d steps for a %d byte buffer (work not bounded)"
                % (self.name, what, limit, size)
            )
            self.h.update(b"<aborted>")
            return None
        except WatchdogExpired:
            fail("%s/%s: call did not finish within %ds" % (self.name, what, CALL_SECONDS))
            self.h.update(b"<timeout>")
            return None
        if res[0] == "EXC" and isinstance(res[1], (RecursionError, MemoryError)):
            fail("%s/%s: %s for a %d byte buffer" % (self.name, what, type(res[1]).__name__, size))
        ratio = steps / float(limit)
        if ratio > STATS["max_ratio"]:
            STATS["max_ratio"] = ratio
            STATS["max_ratio_what"] = "%s/%s size=%d steps=%d" % (self.name, what, size, steps)
        c = canon(res)
        self.h.update(what.encode("utf-8", "replace"))
        self.h.update(b"\0")
        self.h.update(c.encode("utf-8", "replace"))
        self.h.update(b"\n")
        self.n += 1
        return res, steps

    def digest(self):
        return self.h.hexdigest()[:24]


def memory_peak(limit, fn, *args):
    """peak of the memory allocated during fn(*args); the call is step limited as well"""
    tracemalloc.start()
    try:
        tracemalloc.reset_peak()
        base = tracemalloc.get_traced_memory()[0]
        res, steps = metered(limit, fn, args, {})
        peak = tracemalloc.get_traced_memory()[1] - base
        del res
    finally:
        tracemalloc.stop()
    return peak


# ----------------------------------------------------------------------------
# input generation
# ----------------------------------------------------------------------------


def be(value, n):
    return bytearray((value >> (8 * i)) & 0xFF for i in reversed(range(n)))


def mutations(rng, seeds, nrandom=40, maxlen=96, big=True, header_fuzz=8):
    """yield (label, buffer) pairs derived from valid seed buffers"""
    n = 0
    for si, seed in enumerate(seeds):
        seed = bytearray(seed)
        yield "s%d" % si, bytearray(seed)
        yield "s%d-bytes" % si, bytes(seed)
        # every truncation
        for cut in range(len(seed)):
            yield "s%d-cut%d" % (si, cut), bytearray(seed[:cut])
        # padded
        yield "s%d-pad0" % si, seed + bytearray(37)
        yield "s%d-padff" % si, seed + bytearray([0xFF] * 37)
        # single byte overwrites in the first header_fuzz bytes and some others
        positions = list(range(min(header_fuzz, len(seed))))
        positions += [rng.randrange(len(seed)) for _ in range(6)] if len(seed) else []
        for pos in positions:
            for val in (0x00, 0x01, 0x7F, 0x80, 0xFF, rng.randrange(256)):
                m = bytearray(seed)
                m[pos] = val
                yield "s%d-p%d=%02x" % (si, pos, val), m
        # random multi byte corruption
        for k in range(12):
            m = bytearray(seed)
            for _ in range(rng.randrange(1, 6)):
                if len(m):
                    m[rng.randrange(len(m))] = rng.randrange(256)
            if rng.random() < 0.5:
                m = m[: rng.randrange(len(m) + 1)]
            yield "s%d-r%d" % (si, k), m
    # patterns
    for ln in (0, 1, 2, 3, 4, 5, 6, 7, 8, 9, 11, 12, 13, 15, 16, 17, 23, 24, 25, 31, 32, 33, 63, 64, 65, 255, 256, 257):
        yield "zero%d" % ln, bytearray(ln)
        yield "ff%d" % ln, bytearray([0xFF] * ln)
        yield "ff%d-bytes" % ln, bytes([0xFF] * ln)
        yield "inc%d" % ln, bytearray(i & 0xFF for i in range(ln))
        yield "one%d" % ln, bytearray([0x01] * ln)
    for k in range(nrandom):
        ln = rng.randrange(maxlen)
        yield "rnd%d" % k, bytearray(rng.randrange(256) for _ in range(ln))
    for k in range(nrandom // 2):
        ln = rng.randrange(maxlen)
        # small values make length fields plausible
        yield "rnds%d" % k, bytearray(rng.choice((0, 0, 0, 1, 2, 4, 8, 16, 0xFF)) for _ in range(ln))
    if big:
        for lbl, buf in big_buffers(rng):
            yield lbl, buf


def big_buffers(rng, size=BIG):
    yield "bigzero", bytearray(size)
    yield "bigff", bytearray([0xFF] * size)
    yield "bigone", bytearray([0x01] * size)
    r = random.Random(size)
    yield "bigrnd", bytearray(r.randrange(256) for _ in range(size))
    # every length field claims "huge", every inner length claims zero
    b = bytearray(size)
    b[0:8] = b"\xff" * 8
    yield "bigmaxhdr", b
    b = bytearray(size)
    b[0:4] = be(size, 4)
    b[4:8] = be(size, 4)
    yield "bigexact", b


# ----------------------------------------------------------------------------
# seed buffers (valid responses)
# ----------------------------------------------------------------------------


def seeds_inquiry_std():
    b = bytearray(96)
    b[0:8] = bytearray([0x25, 0x80, 0x07, 0x23, 0x40, 0xB9, 0x71, 0x33])
    b[8:16] = b"abcdefgh"
    b[16:32] = b"iiiiiiiijjjjjjjj"
    b[32:36] = b"revn"
    b[56] = 0x09
    return [b, bytearray(36)]


def vpd(page, payload):
    return bytearray([0x00, page]) + be(len(payload), 2) + bytearray(payload)


def designator(proto, codeset, piv, assoc, dtype, payload):
    return bytearray([(proto << 4) | codeset, (piv << 7) | (assoc << 4) | dtype, 0, len(payload)]) + bytearray(payload)


def seeds_inquiry_vpd():
    out = []
    out.append(vpd(0x00, [0x00, 0x80, 0x83, 0x86, 0x89, 0xB0, 0xB1, 0xB2, 0xB3]))
    out.append(vpd(0x80, b"SERIAL0123456789"))
    dd = bytearray()
    dd += designator(0, 1, 0, 0, 0, b"vendor specific")
    dd += designator(0, 2, 0, 0, 1, b"T10VEND " + b"vendor-specific-id")
    dd += designator(0, 1, 0, 0, 2, bytearray(range(8)))
    dd += designator(0, 1, 0, 0, 2, bytearray(range(12)))
    dd += designator(0, 1, 0, 0, 2, bytearray(range(16)))
    dd += designator(6, 1, 1, 1, 3, bytearray([0x20, 1, 2, 3, 4, 5, 6, 7]))
    dd += designator(6, 1, 1, 2, 3, bytearray([0x30, 1, 2, 3, 4, 5, 6, 7]))
    dd += designator(6, 1, 1, 0, 3, bytearray([0x50, 1, 2, 3, 4, 5, 6, 7]))
    dd += designator(6, 1, 1, 1, 3, bytearray([0x60] + list(range(15))))
    dd += designator(5, 1, 1, 1, 4, bytearray([0, 0, 0, 7]))
    dd += designator(5, 1, 1, 1, 5, bytearray([0, 0, 1, 2]))
    dd += designator(5, 1, 0, 0, 6, bytearray([0, 0, 3, 4]))
    dd += designator(0, 1, 0, 0, 7, bytearray(range(16)))
    dd += designator(5, 3, 1, 2, 8, b"iqn.2001-04.com.example:storage\0")
    dd += designator(0, 1, 0, 0, 9, bytearray([0x12, 0x34, 0, 0, 0, 0, 0, 0]))
    dd += designator(0, 1, 0, 0, 0xF, b"reserved type")
    out.append(vpd(0x83, dd))
    out.append(vpd(0x83, designator(6, 1, 1, 1, 3, bytearray([0x50, 1, 2, 3, 4, 5, 6, 7]))))
    out.append(vpd(0x86, bytearray([0xFF] * 60)))
    ata = bytearray(568)
    ata[4:8] = b"\0\0\0\0"
    ata[8:16] = b"SATVEND "
    ata[16:32] = b"SAT PRODUCT ID  "
    ata[32:36] = b"1.00"
    ata[36:56] = bytearray(range(20))
    ata[56] = 0xEC
    ata[60:572] = bytearray((i * 7) & 0xFF for i in range(508))
    out.append(vpd(0x89, ata))
    out.append(vpd(0xB0, bytearray(range(60))))
    out.append(vpd(0xB1, bytearray([0x1C, 0x20, 0x00, 0x02] + [0] * 56)))
    out.append(vpd(0xB2, bytearray([0x12, 0xE7, 0x02, 0x00])))
    out.append(vpd(0xB3, bytearray([0, 0, 0, 0, 0, 0, 0, 8, 0, 0, 0, 16])))
    out.append(vpd(0x77, bytearray(range(20))))
    return out


def seeds_modesense6():
    out = []
    # header only
    out.append(bytearray([3, 0, 0, 0]))
    # control page (0x0a), no block descriptors
    out.append(bytearray([15, 0, 0x90, 0]) + bytearray([0x8A, 0x0A, 0x47, 0x32, 0x78, 0x9F, 0, 0, 0x12, 0x34, 0x56, 0x78]))
    # element address assignment (0x1d)
    out.append(bytearray([23, 0, 0, 0]) + bytearray([0x1D, 0x12]) + bytearray(range(18)))
    # disconnect reconnect (0x02)
    out.append(bytearray([19, 0, 0, 0]) + bytearray([0x02, 0x0E]) + bytearray(range(1, 15)))
    # control extension sub page (spf)
    out.append(bytearray([35, 0, 0, 0]) + bytearray([0x4A, 0x01, 0x00, 0x1C]) + bytearray(range(28)))
    # with one block descriptor
    out.append(bytearray([23, 0, 0, 8]) + bytearray(range(8)) + bytearray([0x0A, 0x0A]) + bytearray(range(10)))
    return out


def seeds_modesense10():
    out = []
    out.append(bytearray([0, 6, 0, 0, 0, 0, 0, 0]))
    out.append(bytearray([0, 18, 0, 0x90, 0, 0, 0, 0]) + bytearray([0x8A, 0x0A, 0x47, 0x32, 0x78, 0x9F, 0, 0, 0x12, 0x34, 0x56, 0x78]))
    out.append(bytearray([0, 26, 0, 0, 0, 0, 0, 0]) + bytearray([0x1D, 0x12]) + bytearray(range(18)))
    out.append(bytearray([0, 22, 0, 0, 0, 0, 0, 0]) + bytearray([0x02, 0x0E]) + bytearray(range(1, 15)))
    out.append(bytearray([0, 38, 0, 0, 0, 0, 0, 0]) + bytearray([0x4A, 0x01, 0x00, 0x1C]) + bytearray(range(28)))
    out.append(bytearray([0, 34, 0, 0, 1, 0, 0, 16]) + bytearray(range(16)) + bytearray([0x0A, 0x0A]) + bytearray(range(10)))
    return out


def seeds_getlbastatus():
    out = [be(4, 4) + bytearray(4)]
    b = be(4 + 3 * 16, 4) + bytearray(4)
    for i in range(3):
        b += be(1000 * i, 8) + be(500 + i, 4) + bytearray([i & 3, 0, 0, 0])
    out.append(b)
    return out


def seeds_reportluns():
    out = [be(0, 4) + bytearray(4)]
    b = be(4 * 8, 4) + bytearray(4)
    for i in range(4):
        b += be(i << 48, 8)
    out.append(b)
    return out


def seeds_reportpriority():
    out = [be(4, 4), be(0, 4)]
    b = be(4 + 2 * 32, 4)
    for i in range(2):
        b += bytearray([i + 1, 0, 0, i + 1, 0, 0, 0, 24]) + bytearray(range(24))
    out.append(b)
    return out


def seeds_rtpg():
    out = [be(0, 4)]
    # length only header: two groups, 2 and 1 ports
    body = bytearray()
    body += bytearray([0x80, 0xCF, 0x00, 0x01, 0, 0x02, 0x00, 2]) + bytearray([0, 0, 0, 1]) + bytearray([0, 0, 0, 2])
    body += bytearray([0x01, 0x0F, 0x00, 0x02, 0, 0x00, 0x00, 1]) + bytearray([0, 0, 0, 3])
    out.append(be(len(body), 4) + body)
    # extended header
    out.append(be(len(body) + 4, 4) + bytearray([0x10, 0x05, 0, 0]) + body)
    # group that promises many ports
    body = bytearray([0x00, 0x01, 0x00, 0x07, 0, 0, 0, 0xFF]) + bytearray([0, 0, 0, 9])
    out.append(be(len(body), 4) + body)
    return out


def seeds_res():
    out = []
    try:
        d = {
            "first_element_address": 12,
            "num_elements": 3,
            "element_status_pages": [
                {
                    "element_type": 2,
                    "pvoltag": 1,
                    "avoltag": 0,
                    "element_descriptors": [
                        {"element_address": 12, "except": 0, "full": 1, "access": 1, "additional_sense_code": 0,
                         "additional_sense_code_qualifier": 0, "svalid": 1, "invert": 0, "ed": 0, "medium_type": 1,
                         "source_storage_element_address": 5, "primary_volume_tag": bytearray(b"A" * 36)},
                        {"element_address": 13, "except": 1, "full": 0, "access": 0, "additional_sense_code": 0x3B,
                         "additional_sense_code_qualifier": 0x12, "svalid": 0, "invert": 1, "ed": 1, "medium_type": 2,
                         "source_storage_element_address": 6, "primary_volume_tag": bytearray(b"B" * 36)},
                    ],
                },
                {
                    "element_type": 3,
                    "pvoltag": 1,
                    "avoltag": 1,
                    "element_descriptors": [
                        {"element_address": 40, "except": 0, "full": 1, "oir": 1, "cmc": 0, "inenab": 1, "exenab": 1,
                         "access": 1, "impexp": 1, "additional_sense_code": 0, "additional_sense_code_qualifier": 0,
                         "svalid": 0, "invert": 0, "ed": 0, "medium_type": 0, "source_storage_element_address": 0,
                         "primary_volume_tag": bytearray(b"C" * 36), "alternate_volume_tag": bytearray(b"D" * 36)},
                    ],
                },
                {
                    "element_type": 4,
                    "pvoltag": 0,
                    "avoltag": 0,
                    "element_descriptors": [
                        {"element_address": 50, "except": 0, "full": 0, "access": 1, "additional_sense_code": 0,
                         "additional_sense_code_qualifier": 0, "svalid": 0, "invert": 0, "ed": 0, "medium_type": 0,
                         "source_storage_element_address": 0},
                    ],
                },
            ],
        }
        out.append(ReadElementStatus.marshall_datain(d))
    except Exception:
        pass
    # hand built: one page, descriptor length 16, two descriptors
    page = bytearray([1, 0x00, 0, 16, 0, 0, 0, 32]) + bytearray(range(32))
    out.append(bytearray([0, 1, 0, 2, 0]) + be(len(page), 3) + page)
    # descriptor length zero with descriptors present
    page = bytearray([1, 0x00, 0, 0, 0, 0, 0, 32]) + bytearray(range(32))
    out.append(bytearray([0, 1, 0, 2, 0]) + be(len(page), 3) + page)
    # descriptor length one
    page = bytearray([2, 0xC0, 0, 1, 0, 0, 0, 20]) + bytearray(range(20))
    out.append(bytearray([0, 1, 0, 2, 0]) + be(len(page), 3) + page)
    out.append(bytearray(8))
    return out


def seeds_rdi():
    out = []
    b = bytearray(34)
    b[0:2] = be(32, 2)
    b[2] = 0x1E
    b[3:12] = bytearray([1, 2, 3, 4, 0xF7, 5, 6, 7, 8])
    b[12:34] = bytearray(range(22))
    out.append(b)
    b = bytearray(12)
    b[0:2] = be(10, 2)
    b[2] = 0x20
    b[4:12] = bytearray(range(8))
    out.append(b)
    b = bytearray(16)
    b[0:2] = be(14, 2)
    b[2] = 0x40
    b[4:16] = bytearray(range(12))
    out.append(b)
    b = bytearray(16)
    b[2] = 0x60
    out.append(b)
    return out


def seeds_pr_keys():
    out = [be(7, 4) + be(0, 4)]
    b = be(9, 4) + be(24, 4)
    for i in range(3):
        b += be(0x1122334455667700 + i, 8)
    out.append(b)
    return out


def seeds_pr_resv():
    return [be(7, 4) + be(0, 4), be(7, 4) + be(16, 4) + be(0xABCDEF0123456789, 8) + bytearray(5) + bytearray([0x13, 0, 0]),
            be(7, 4) + be(8, 4) + bytearray(16)]


def seeds_pr_caps():
    return [bytearray([0, 8, 0x9D, 0xF1, 0xEA, 0x01, 0, 0]), bytearray(8), bytearray([0, 4, 0, 0, 0, 0, 0, 0])]


def transport_ids():
    out = []
    out.append(bytearray([0x00]) + bytearray(7) + bytearray(range(8)) + bytearray(8))  # FC
    out.append(bytearray([0x03]) + bytearray(7) + bytearray(range(8)) + bytearray(8))  # 1394
    out.append(bytearray([0x04]) + bytearray(7) + bytearray(range(16)))  # RDMA
    name = b"iqn.1993-08.org.debian:01:abcdef\0\0\0\0"
    out.append(bytearray([0x05, 0]) + be(len(name), 2) + name)  # iSCSI format 0
    name = b"iqn.1993-08.org.debian:01:abcdef,i,0x00023d000001\0\0\0"
    out.append(bytearray([0x45, 0]) + be(len(name), 2) + name)  # iSCSI format 1
    name = b"iqn.no.separator\0\0\0\0"
    out.append(bytearray([0x45, 0]) + be(len(name), 2) + name)
    out.append(bytearray([0x85, 0]) + be(4, 2) + b"abcd")  # invalid format
    out.append(bytearray([0x05, 0]) + be(4, 2) + b"\xff\xfe\xfd\xfc")  # invalid utf-8
    out.append(bytearray([0x06, 0, 0, 0]) + bytearray(range(8)) + bytearray(12))  # SAS
    out.append(bytearray([0x0A, 0, 0, 0]) + bytearray(range(8)) + bytearray(12))  # SOP
    out.append(bytearray([0x0F]) + bytearray(23))  # invalid protocol
    return out


def seeds_pr_full():
    out = [be(1, 4) + be(0, 4)]
    body = bytearray()
    for i, tid in enumerate(transport_ids()[:5] + transport_ids()[8:10]):
        d = be(0x0102030405060700 + i, 8) + bytearray(4) + bytearray([i & 3, 0x13, 0, 0, 0, 0]) + be(i, 2) + be(len(tid), 4)
        body += d + tid
    out.append(be(2, 4) + be(len(body), 4) + body)
    # a descriptor without a transport id
    d = be(5, 8) + bytearray(4) + bytearray([1, 0x13, 0, 0, 0, 0]) + be(1, 2) + be(0, 4)
    out.append(be(3, 4) + be(len(d) * 2, 4) + d + d)
    tid = transport_ids()[8]
    d = be(5, 8) + bytearray(4) + bytearray([1, 0x13, 0, 0, 0, 0]) + be(1, 2) + be(24, 4)
    out.append(be(3, 4) + be(48, 4) + d + tid)
    return out


def seeds_sense():
    out = []
    out.append(bytearray([0xF0, 0, 0x05, 0, 0, 0, 1, 10, 0, 0, 0, 2, 0x24, 0x00, 0, 0xC0, 0, 3]))
    out.append(bytearray([0x71, 0, 0x02, 0, 0, 0, 0, 10, 0, 0, 0, 0, 0x3A, 0x01, 0, 0, 0, 0]))
    out.append(bytearray([0x72, 0x05, 0x20, 0x00, 0, 0, 0, 0]))
    out.append(bytearray([0x73, 0x03, 0x11, 0x04, 0x80, 0, 0, 12, 0, 10, 0x80, 0, 0, 0, 0, 0, 0, 0, 0, 9]))
    out.append(bytearray([0x72, 0x01, 0x00, 0x1D, 0, 0, 0, 14, 9, 12, 0, 0, 0, 1, 0, 2, 0, 3, 0, 4, 0xA0, 0x50]))
    out.append(bytearray([0x70, 0, 0x06, 0, 0, 0, 0, 10, 0, 0, 0, 0, 0x90, 0x00, 0, 0, 0, 0]))
    out.append(bytearray([0x70, 0, 0x06, 0, 0, 0, 0, 10, 0, 0, 0, 0, 0x29, 0x85, 0, 0, 0, 0]))
    out.append(bytearray([0x70, 0, 0x0C, 0, 0, 0, 0, 10, 0, 0, 0, 0, 0x7F, 0x7F, 0, 0, 0, 0]))
    out.append(bytearray([0x7F, 1, 2, 3]))
    return out


# ----------------------------------------------------------------------------
# fake device for the SCSI convenience wrapper
# ----------------------------------------------------------------------------


class FakeDevice(object):
    """a "hostile device": whatever is asked, the data-in buffer becomes ``self.answer``"""

    def __init__(self, opcodes):
        self.opcodes = opcodes
        self.devicetype = None
        self.answer = bytearray()

    def execute(self, cmd, en_raw_sense=False):
        cmd.datain = self.answer

    def open(self):
        pass

    def close(self):
        pass


class WrapSCSI(SCSI):
    def __init__(self, dev):
        self.device = dev
        self._blocksize = 0


def describe_cmd(cmd):
    return (type(cmd).__name__, cmd.result)


# ----------------------------------------------------------------------------
# the families
# ----------------------------------------------------------------------------


def run_simple(fam, rng, fn, seeds, **mkw):
    for lbl, buf in mutations(rng, seeds, **mkw):
        fam.call(lbl, len(buf), fn, buf)


def family_inquiry(rng):
    fam = Family("inquiry")
    run_simple(fam, rng, lambda b: Inquiry.unmarshall_datain(b), seeds_inquiry_std())
    run_simple(fam, rng, lambda b: Inquiry.unmarshall_datain(b, 0), seeds_inquiry_std(), nrandom=4, big=False)
    seeds = seeds_inquiry_vpd()
    for lbl, buf in mutations(rng, seeds, header_fuzz=12):
        fam.call("vpd-" + lbl, len(buf), lambda b: Inquiry.unmarshall_datain(b, evpd=1), buf)
        fam.call("vpdpos-" + lbl, len(buf), lambda b: Inquiry.unmarshall_datain(b, 1), buf)
    # every page code with generic hostile bodies
    bodies = [bytearray(0), bytearray(2), bytearray([0xFF] * 2), bytearray([0, 0, 0, 3]), bytearray([0xFF] * 64),
              bytearray([0, 0, 0xFF, 0xFF] + [0] * 60), bytearray([0, 0, 0, 60] + [0xFF] * 60),
              bytearray([0, 0, 0, 60] + list(range(60))), bytearray([0, 0, 2, 0] + [3] * 700)]
    for page in range(256):
        for bi, body in enumerate(bodies):
            buf = bytearray([page & 0x1F, page]) + body
            fam.call("page%02x-b%d" % (page, bi), len(buf), lambda b: Inquiry.unmarshall_datain(b, evpd=1), buf)
    # device identification: big buffers full of descriptors
    for lbl, body in big_buffers(rng):
        for dl in (0, 1, 4, 255):
            b = bytearray(body)
            b[0:4] = bytearray([0, 0x83]) + be(len(b) - 4, 2)
            for i in range(4 + 3, len(b), 4 + dl):
                b[i] = dl
            fam.call("devid-%s-dl%d" % (lbl, dl), len(b), lambda x: Inquiry.unmarshall_datain(x, evpd=1), b)
    # designators
    payloads = [bytearray(n) for n in (0, 1, 2, 3, 4, 7, 8, 9, 12, 15, 16, 17, 32)]
    payloads += [bytearray([0xFF] * n) for n in (1, 4, 8, 12, 16, 40)]
    payloads += [bytearray([v] + list(range(15))) for v in (0x10, 0x20, 0x30, 0x50, 0x60, 0x70)]
    payloads += [bytes(bytearray([v] + list(range(7)))) for v in (0x20, 0x30, 0x50, 0x60)]
    payloads += [bytearray(rng.randrange(256) for _ in range(rng.randrange(24))) for _ in range(20)]
    for t in list(range(0, 17)) + [255]:
        for pi, p in enumerate(payloads):
            fam.call("designator-t%d-p%d" % (t, pi), len(p), Inquiry.unmarshall_designator, t, p)
    for lbl, buf in mutations(rng, [seeds[5]], nrandom=10, header_fuzz=4):
        fam.call("ata-" + lbl, len(buf), Inquiry.unmarshall_ata_information, buf)
    # marshall -> unmarshall round trips of what was decoded
    for si, s in enumerate(seeds):
        try:
            d = Inquiry.unmarshall_datain(s, evpd=1)
        except Exception:
            continue
        r = fam.call("remarshall-%d" % si, len(s), Inquiry.marshall_datain, d)
        if r and r[0][0] == "OK":
            fam.call("reunmarshall-%d" % si, len(r[0][1]), lambda b: Inquiry.unmarshall_datain(b, evpd=1), r[0][1])
    d = Inquiry.unmarshall_datain(seeds_inquiry_std()[0])
    fam.call("remarshall-std", 96, Inquiry.marshall_datain, d)
    return fam


def family_modesense(rng):
    fam = Family("modesense")
    for cls, seeds, tag in ((ModeSense6, seeds_modesense6(), "ms6"), (ModeSense10, seeds_modesense10(), "ms10")):
        for lbl, buf in mutations(rng, seeds, header_fuzz=14):
            fam.call(tag + "-" + lbl, len(buf), cls.unmarshall_datain, buf)
        # every page code / sub page flag right after the header, several block descriptor lengths
        hdr = 4 if cls is ModeSense6 else 8
        for first in range(256):
            for bdl in (0, 8, 250):
                for tail in (0, 1, 2, 3, 4, 12, 40):
                    b = bytearray(hdr) + bytearray(bdl if bdl < 200 else 0) + bytearray([first]) + bytearray([1] * tail)
                    b[hdr - 1] = bdl
                    fam.call("%s-first%02x-bdl%d-t%d" % (tag, first, bdl, tail), len(b), cls.unmarshall_datain, b)
        for si, s in enumerate(seeds):
            try:
                d = cls.unmarshall_datain(s)
            except Exception:
                continue
            r = fam.call("%s-remarshall-%d" % (tag, si), len(s), cls.marshall_datain, d)
            if r and r[0][0] == "OK":
                fam.call("%s-reunmarshall-%d" % (tag, si), len(r[0][1]), cls.unmarshall_datain, r[0][1])
        # marshalling several pages in one go (and pages of unknown type)
        pages = []
        for s in seeds[1:5]:
            try:
                pages.extend(cls.unmarshall_datain(s)["mode_pages"])
            except Exception:
                pass
        hdrd = {"medium_type": 3, "device_specific_parameter": 0x90, "block_descriptor_length": 0, "mode_pages": pages}
        fam.call(tag + "-marshall-multi", 64, cls.marshall_datain, hdrd)
        hdrd2 = dict(hdrd)
        hdrd2["mode_pages"] = pages[:1] + [{"ps": 0, "spf": 0, "page_code": 0x3E}]
        fam.call(tag + "-marshall-stale", 64, cls.marshall_datain, hdrd2)
        hdrd3 = dict(hdrd)
        hdrd3["mode_pages"] = [{"ps": 0, "spf": 0, "page_code": 0x3E}]
        fam.call(tag + "-marshall-unknown", 64, cls.marshall_datain, hdrd3)
        hdrd4 = dict(hdrd)
        hdrd4["mode_pages"] = pages * 12
        fam.call(tag + "-marshall-long", 2048, cls.marshall_datain, hdrd4)
        fam.call(tag + "-marshall-nopages", 64, cls.marshall_datain, {"medium_type": 1})
    fam.call("msel6-unmarshall", 4, ModeSelect6.unmarshall_datain, bytearray(4))
    fam.call("msel10-unmarshall", 8, ModeSelect10.unmarshall_datain, bytearray(8))
    for cls, sel, seeds, tag in ((ModeSense6, ModeSelect6, seeds_modesense6(), "msel6"), (ModeSense10, ModeSelect10, seeds_modesense10(), "msel10")):
        d = cls.unmarshall_datain(seeds[1])
        fam.call(tag + "-dataout", 32, sel.marshall_dataout, d)
    return fam


def family_capacity(rng):
    fam = Family("readcapacity")
    s10 = [be(0x12345678, 4) + be(512, 4)]
    s16 = [be(0x123456789ABCDEF0, 8) + be(4096, 4) + bytearray([0x0B, 0x5A, 0xC1, 0x23]) + bytearray(16)]
    run_simple(fam, rng, ReadCapacity10.unmarshall_datain, s10)
    run_simple(fam, rng, ReadCapacity16.unmarshall_datain, s16)
    for s, cls in ((s10[0], ReadCapacity10), (s16[0], ReadCapacity16)):
        d = cls.unmarshall_datain(s)
        fam.call("remarshall-" + cls.__name__, len(s), cls.marshall_datain, d)
    return fam


def family_lists(rng):
    fam = Family("lists")
    run_simple(fam, rng, GetLBAStatus.unmarshall_datain, seeds_getlbastatus())
    run_simple(fam, rng, ReportLuns.unmarshall_datain, seeds_reportluns())
    run_simple(fam, rng, ReportPriority.unmarshall_datain, seeds_reportpriority())
    for cls, seeds in ((GetLBAStatus, seeds_getlbastatus()), (ReportLuns, seeds_reportluns())):
        for si, s in enumerate(seeds):
            d = cls.unmarshall_datain(s)
            r = fam.call("remarshall-%s-%d" % (cls.__name__, si), len(s), cls.marshall_datain, d)
            if r and r[0][0] == "OK":
                fam.call("reunmarshall-%s-%d" % (cls.__name__, si), len(s), cls.unmarshall_datain, r[0][1])
        fam.call("marshall-empty-" + cls.__name__, 8, cls.marshall_datain, {})
    # length fields of every magnitude on a fixed body
    for cls in (GetLBAStatus, ReportLuns, ReportPriority):
        for ln in (0, 1, 3, 4, 5, 7, 8, 9, 15, 16, 17, 20, 24, 31, 32, 33, 100, 0xFFFF, 0xFFFFFFFF):
            for size in (4, 8, 9, 24, 40, 41):
                b = be(ln, 4) + bytearray((i * 5 + 1) & 0xFF for i in range(size - 4))
                fam.call("%s-len%d-size%d" % (cls.__name__, ln, size), len(b), cls.unmarshall_datain, b)
    return fam


def family_rtpg(rng):
    fam = Family("rtpg")
    run_simple(fam, rng, ReportTargetPortGroups.unmarshall_datain, seeds_rtpg(), header_fuzz=16)
    for count in (0, 1, 2, 3, 5, 255):
        for nports in (0, 1, 2, 3, 6):
            for extra in (0, 1, 2, 3):
                for fmt in (0x00, 0x10, 0x20, 0x70):
                    body = bytearray()
                    if fmt:
                        body += bytearray([fmt, 9, 0, 0])
                    body += bytearray([0x80 | (count & 0xF), 0xCF, 0, 1, 0, 2, 0, count])
                    for p in range(nports):
                        body += bytearray([0, 0]) + be(p + 1, 2)
                    body += bytearray([7] * extra)
                    b = be(len(body), 4) + body
                    fam.call("c%d-n%d-x%d-f%02x" % (count, nports, extra, fmt), len(b), ReportTargetPortGroups.unmarshall_datain, b)
    for si, s in enumerate(seeds_rtpg()):
        d = ReportTargetPortGroups.unmarshall_datain(s)
        r = fam.call("remarshall-%d" % si, len(s), ReportTargetPortGroups.marshall_datain, d)
        if r and r[0][0] == "OK":
            fam.call("reunmarshall-%d" % si, len(s), ReportTargetPortGroups.unmarshall_datain, r[0][1])
    return fam


def family_res(rng):
    fam = Family("readelementstatus")
    seeds = seeds_res()
    run_simple(fam, rng, ReadElementStatus.unmarshall_datain, seeds, header_fuzz=20)
    # page headers of every shape
    for et in (0, 1, 2, 3, 4, 5, 15):
        for flags in (0x00, 0x40, 0x80, 0xC0):
            for edl in (0, 1, 2, 11, 12, 13, 16, 48, 52, 84, 88, 0xFFFF):
                for bc in (0, 1, 12, 16, 52, 88, 200):
                    page = bytearray([et, flags]) + be(edl, 2) + bytearray([0]) + be(bc, 3) + bytearray((i * 3 + 1) & 0xFF for i in range(min(bc, 120)))
                    b = bytearray([0, 1, 0, 2, 0]) + be(len(page), 3) + page
                    fam.call("et%d-f%02x-edl%d-bc%d" % (et, flags, edl, bc), len(b), ReadElementStatus.unmarshall_datain, b)
    # big buffers: many tiny pages, many tiny descriptors
    b = bytearray(BIG)
    b[5:8] = be(BIG - 8, 3)
    fam.call("big-emptypages", len(b), ReadElementStatus.unmarshall_datain, b)
    small = BIG // 8
    b = bytearray(small)
    b[5:8] = be(small - 8, 3)
    b[8:16] = bytearray([1, 0, 0, 1, 0]) + be(small - 16, 3)
    fam.call("big-edl1", len(b), ReadElementStatus.unmarshall_datain, b)
    b[8:16] = bytearray([3, 0xC0, 0, 1, 0]) + be(small - 16, 3)
    fam.call("big-edl1-tags", len(b), ReadElementStatus.unmarshall_datain, b)
    b[8:16] = bytearray([1, 0, 0, 0, 0]) + be(small - 16, 3)
    fam.call("big-edl0", len(b), ReadElementStatus.unmarshall_datain, b)
    for si, s in enumerate(seeds):
        try:
            d = ReadElementStatus.unmarshall_datain(s)
        except Exception:
            continue
        r = fam.call("remarshall-%d" % si, len(s), ReadElementStatus.marshall_datain, d)
        if r and r[0][0] == "OK":
            fam.call("reunmarshall-%d" % si, len(s), ReadElementStatus.unmarshall_datain, r[0][1])
    return fam


def family_rdi(rng):
    fam = Family("readdiscinformation")
    run_simple(fam, rng, ReadDiscInformation.unmarshall_datain, seeds_rdi(), header_fuzz=12)
    for v in range(256):
        for ln in (3, 4, 12, 34, 40):
            b = bytearray((i * 11 + 3) & 0xFF for i in range(ln))
            b[2] = v
            fam.call("type%02x-len%d" % (v, ln), len(b), ReadDiscInformation.unmarshall_datain, b)
    return fam


def family_readcd(rng):
    fam = Family("readcd")
    sector = bytearray((i * 13 + 5) & 0xFF for i in range(3072))
    bufs = [
        ("empty", bytearray()),
        ("b1", bytearray([9])),
        ("b3", bytearray([1, 2, 3])),
        ("b13", bytearray(range(13))),
        ("b17", bytes(bytearray(range(17)))),
        ("b23", bytearray(range(23))),
        ("one", sector[:2448]),
        ("two", (sector + sector)[:4900]),
        ("three", sector * 3),
    ]
    n = 0
    for est in (0, 1, 2, 3, 4, 5, 6, 7):
        for mcsb in range(32):
            for c2ei in (0, 1, 2, 3):
                for scsb in (0, 1, 2, 4):
                    # keep the number of combinations manageable but cover everything pairwise
                    n += 1
                    if c2ei and scsb and (n % 3):
                        continue
                    for lbl, buf in bufs:
                        if lbl in ("b1", "b13", "b23", "two") and (n % 2):
                            continue
                        for lba, tl in ((0, 0), (0, 1), (7, 2), (100, 3)):
                            if tl == 0 and lbl != "one":
                                continue
                            if tl == 3 and lbl not in ("three", "b17"):
                                continue
                            fam.call(
                                "est%d-m%d-c%d-s%d-%s-%d+%d" % (est, mcsb, c2ei, scsb, lbl, lba, tl),
                                len(buf),
                                ReadCd.unmarshall_datain,
                                buf,
                                lba=lba,
                                tl=tl,
                                est=est,
                                mcsb=mcsb,
                                c2ei=c2ei,
                                scsb=scsb,
                                _sectors=tl,
                            )
    # positional lba / tl, defaults, negative and large transfer lengths
    fam.call("defaults", len(sector), ReadCd.unmarshall_datain, sector)
    fam.call("positional", len(sector), ReadCd.unmarshall_datain, sector, 5, 1, _sectors=1)
    fam.call("positional-kw", len(sector), ReadCd.unmarshall_datain, sector, 5, 1, est=2, mcsb=0x1F, _sectors=1)
    fam.call("negative-tl", len(sector), ReadCd.unmarshall_datain, sector, 5, -3, est=2, mcsb=0x1F)
    fam.call("negative-lba", len(sector), ReadCd.unmarshall_datain, sector, -2, 2, est=1, mcsb=2, _sectors=2)
    fam.call("many-sectors-short-buffer", 64, ReadCd.unmarshall_datain, bytearray(64), 0, 50, est=2, mcsb=0x1E, c2ei=1, scsb=2, _sectors=50)
    fam.call("many-sectors-subheader", 64, ReadCd.unmarshall_datain, bytearray(64), 0, 50, est=5, mcsb=0x0B, _sectors=50)
    fam.call("unknown-kwargs", len(sector), ReadCd.unmarshall_datain, sector, lba=1, tl=1, est=4, mcsb=0x1F, dap=1, bogus=7, _sectors=1)
    for lbl, buf in big_buffers(rng):
        fam.call("big-" + lbl, len(buf), ReadCd.unmarshall_datain, buf, lba=3, tl=6, est=2, mcsb=0x1F, c2ei=2, scsb=2, _sectors=6)
        fam.call("big-sub-" + lbl, len(buf), ReadCd.unmarshall_datain, buf, lba=3, tl=5, est=5, mcsb=0x0F, c2ei=1, scsb=4, _sectors=5)
    return fam


def family_pr(rng):
    fam = Family("persistentreservein")
    run_simple(fam, rng, PersistentReserveInReadKeys.unmarshall_datain, seeds_pr_keys())
    run_simple(fam, rng, PersistentReserveInReadReservation.unmarshall_datain, seeds_pr_resv(), big=False)
    run_simple(fam, rng, PersistentReserveInReportCapabilities.unmarshall_datain, seeds_pr_caps(), big=False)
    run_simple(fam, rng, PersistentReserveInReadFullStatus.unmarshall_datain, seeds_pr_full(), header_fuzz=32)
    for ti, tid in enumerate(transport_ids()):
        for lbl, buf in mutations(rng, [tid], nrandom=0, big=False, header_fuzz=4):
            if lbl.startswith(("zero", "ff", "inc", "one")) and ti:
                continue
            fam.call("tid%d-%s" % (ti, lbl), len(buf), PersistentReserveInReadFullStatus.unmarshall_transport_id, buf)
    for first in range(256):
        for ln in (0, 1, 4, 12, 24, 30):
            b = bytearray((i * 3 + 65) & 0x7F for i in range(ln))
            if ln:
                b[0] = first
            if ln >= 4:
                b[2:4] = be(ln - 4, 2)
            fam.call("tid-first%02x-len%d" % (first, ln), len(b), PersistentReserveInReadFullStatus.unmarshall_transport_id, b)
    # full status: additional descriptor lengths of every kind on big buffers
    for adl in (0, 1, 23, 24, 25, 4000, 0xFFFFFFFF):
        for proto in (0x00, 0x05, 0x06, 0x0F):
            b = bytearray(BIG)
            b[4:8] = be(BIG - 8, 4)
            pos = 8
            while pos + 24 <= BIG:
                b[pos + 20 : pos + 24] = be(adl, 4)
                if pos + 24 < BIG:
                    b[pos + 24] = proto
                pos += 24 + (adl if adl < BIG else BIG)
            fam.call("full-adl%d-proto%02x" % (adl, proto), len(b), PersistentReserveInReadFullStatus.unmarshall_datain, b)
    # marshall helpers living next to the decoders
    for ti, tid in enumerate(transport_ids()):
        try:
            d = PersistentReserveInReadFullStatus.unmarshall_transport_id(tid)
        except Exception:
            continue
        r = fam.call("tid-remarshall-%d" % ti, len(tid), PersistentReserveInReadFullStatus.marshall_transport_id, d)
        if r and r[0][0] == "OK":
            fam.call("tid-reunmarshall-%d" % ti, len(tid), PersistentReserveInReadFullStatus.unmarshall_transport_id, r[0][1])
    return fam


def sense_view(exc):
    return (
        type(exc).__name__,
        exc.valid,
        exc.response_code,
        exc.data,
        exc.asc,
        exc.ascq,
        str(exc),
        isinstance(exc, SCSICheckCondition),
    )


def family_sense(rng):
    fam = Family("sense")
    seeds = seeds_sense()
    for lbl, buf in mutations(rng, seeds, header_fuzz=16):
        fam.call("cc-" + lbl, len(buf), lambda b: sense_view(SCSICheckCondition(b)), buf)
        fam.call("fixed-" + lbl, len(buf), SCSICheckCondition.unmarshall_fixed_format_sense_data, buf)
        fam.call("desc-" + lbl, len(buf), SCSICheckCondition.unmarshall_desc_format_sense_data, buf)
    fam.call("cc-none", 0, lambda: sense_view(SCSICheckCondition(None)))
    fam.call("cc-print", 18, lambda: sense_view(SCSICheckCondition(seeds[0], print_data=False)))
    fam.call("cc-positional", 18, lambda: sense_view(SCSICheckCondition(seeds[0], False)))
    fam.call("fixed-kw", 18, lambda: SCSICheckCondition.unmarshall_fixed_format_sense_data(data=seeds[0]))
    fam.call("desc-kw", 18, lambda: SCSICheckCondition.unmarshall_desc_format_sense_data(data=seeds[2]))
    fam.call("inst-fixed", 18, lambda: SCSICheckCondition(seeds[0]).unmarshall_fixed_format_sense_data(seeds[1]))
    # every response code / sense key / asc / ascq
    for rc in range(256):
        b = bytearray([rc, 0x05, 0x24, 0x01, 0x80, 0, 0, 10, 0, 0, 0, 0, 0x25, 0x02, 0, 0, 0, 0])
        fam.call("rc%02x" % rc, len(b), lambda x: sense_view(SCSICheckCondition(x)), b)
    for key in range(16):
        for asc, ascq in ((0, 0), (0x04, 0x01), (0x29, 0x00), (0x3A, 0x02), (0x44, 0x71), (0x7F, 0x7E), (0x80, 0), (0, 0x80), (0xFF, 0xFF)):
            b = bytearray([0x70, 0, key, 0, 0, 0, 0, 10, 0, 0, 0, 0, asc, ascq, 0, 0, 0, 0])
            fam.call("fixed-k%d-%02x%02x" % (key, asc, ascq), len(b), lambda x: sense_view(SCSICheckCondition(x)), b)
            b = bytearray([0x72, key, asc, ascq, 0, 0, 0, 0])
            fam.call("desc-k%d-%02x%02x" % (key, asc, ascq), len(b), lambda x: sense_view(SCSICheckCondition(x)), b)
    # public tables and constants of the module
    fam.call("constants", 0, lambda: (
        scsi_sense.SENSE_FORMAT_CURRENT_FIXED,
        scsi_sense.SENSE_FORMAT_DEFERRED_FIXED,
        scsi_sense.SENSE_FORMAT_CURRENT_DESCRIPTOR,
        scsi_sense.SENSE_FORMAT_DEFERRED_DESCRIPTOR,
        sorted(scsi_sense.sense_key_dict.items()),
        len(scsi_sense.sense_ascq_dict),
        hashlib.sha256(repr(sorted(scsi_sense.sense_ascq_dict.items())).encode()).hexdigest(),
        scsi_sense.vendor_specific_sense_asc,
        scsi_sense.vendor_specific_sense_ascq,
    ))

    def class_tables():
        names = sorted(n for n in vars(SCSICheckCondition) if n.endswith("_bits") or n.endswith("_dict"))
        view = []
        for n in names:
            t = getattr(SCSICheckCondition, n)
            view.append((n, sorted((k, (sorted(v.items()) if isinstance(v, dict) else list(v))) for k, v in t.items())))
        ident = all(
            any(v is getattr(SCSICheckCondition, n) for n in names)
            for v in SCSICheckCondition._descriptor_type_dict.values()
        )
        return hashlib.sha256(repr(view).encode()).hexdigest(), names, ident

    fam.call("class-tables", 0, class_tables)
    return fam


def family_wrapper(rng):
    """the same decoders reached through SCSI.<command>() and SCSICommand.unmarshall()"""
    fam = Family("wrapper")
    E = scsi_enum_command
    dev = FakeDevice(E.sbc)
    s = WrapSCSI(dev)

    def go(label, opcodes, bufs, fn):
        for lbl, buf in bufs:
            dev.opcodes = opcodes
            dev.answer = buf
            fam.call(label + "-" + lbl, len(buf), lambda: describe_cmd(fn()))

    def some(seeds, nrandom=6):
        return list(mutations(random.Random(99), seeds, nrandom=nrandom, big=False, header_fuzz=4))

    go("inquiry", E.sbc, some(seeds_inquiry_std()), lambda: s.inquiry())
    go("inquiry-vpd", E.sbc, some(seeds_inquiry_vpd()[:4]), lambda: s.inquiry(evpd=1, page_code=0x83, alloclen=255))
    go("modesense6", E.sbc, some(seeds_modesense6()), lambda: s.modesense6(page_code=0x0A))
    go("modesense10", E.sbc, some(seeds_modesense10()), lambda: s.modesense10(page_code=0x0A))
    go("readcapacity10", E.sbc, some([bytearray(range(8))]), lambda: s.readcapacity10())
    go("readcapacity16", E.sbc, some([bytearray(range(32))]), lambda: s.readcapacity16())
    go("getlbastatus", E.sbc, some(seeds_getlbastatus()), lambda: s.getlbastatus(0))
    go("reportluns", E.sbc, some(seeds_reportluns()), lambda: s.reportluns())
    go("reportpriority", E.sbc, some(seeds_reportpriority()), lambda: s.reportpriority())
    go("rtpg", E.sbc, some(seeds_rtpg()), lambda: s.reporttargetportgroups())
    go("readelementstatus", E.smc, some(seeds_res()), lambda: s.readelementstatus(0, 10))
    go("readdiscinformation", E.mmc, some(seeds_rdi()), lambda: s.readdiscinformation(0))
    sector = bytearray((i * 13 + 5) & 0xFF for i in range(3072))
    go("readcd", E.mmc, [("short", sector[:100]), ("one", sector), ("empty", bytearray())],
       lambda: s.readcd(16, 1, est=2, mcsb=0x1F, c2ei=1, scsb=2))
    go("readcd-bad", E.mmc, [("one", sector)], lambda: s.readcd(16, 1, est=3, mcsb=0x03))
    pr = E.spc.PERSISTENT_RESERVE_IN.serviceaction
    go("pr-keys", E.spc, some(seeds_pr_keys()), lambda: s.persistentreservein(pr.READ_KEYS))
    go("pr-resv", E.spc, some(seeds_pr_resv()), lambda: s.persistentreservein(pr.READ_RESERVATION))
    go("pr-caps", E.spc, some(seeds_pr_caps()), lambda: s.persistentreservein(pr.REPORT_CAPABILITIES))
    go("pr-full", E.spc, some(seeds_pr_full()), lambda: s.persistentreservein(pr.READ_FULL_STATUS, alloclen=4096))
    fam.call("pr-invalid", 0, lambda: s.persistentreservein(0x1F))

    # a command class without a decoder
    def nodecoder():
        cmd = PersistentReserveIn(E.spc.PERSISTENT_RESERVE_IN, 0)
        cmd.datain = bytearray(8)
        cmd.unmarshall()
        return cmd.result

    fam.call("no-decoder", 8, nodecoder)

    # SCSIDevice.execute() + fake sgio: the sense decoder reached through CheckCondition
    import os
    import tempfile

    tmpdir = tempfile.mkdtemp(prefix="c11demo")
    path = os.path.join(tmpdir, "fake")
    open(path, "wb").close()
    try:
        sd = SCSIDevice.__new__(SCSIDevice)
        sd._opcodes = E.spc
        sd._file_name = path
        sd._read_write = False
        sd._file = None
        sd._ino = None
        sd._detect_replugged = False
        sd._buffering = -1
        sd.open()

        def raise_cc(sense):
            def action(cdb, dataout, datain):
                raise _sgio.CheckConditionError(sense)

            return action

        def exec_with(sense, raw):
            _sgio.plan[:] = [raise_cc(sense)]
            cmd = Inquiry(E.spc.INQUIRY)
            try:
                sd.execute(cmd, en_raw_sense=raw)
            except SCSICheckCondition as e:
                return ("raised", isinstance(e, SCSIDevice.CheckCondition), sense_view(e))
            return ("returned", cmd.raw_sense_data)

        for lbl, buf in mutations(random.Random(5), seeds_sense(), nrandom=10, big=False, header_fuzz=4):
            fam.call("sgio-cc-" + lbl, len(buf), exec_with, buf, False)
        fam.call("sgio-cc-none", 0, exec_with, None, False)
        fam.call("sgio-cc-raw", 18, exec_with, seeds_sense()[0], True)

        def fill(buf):
            def action(cdb, dataout, datain):
                datain[: len(buf)] = buf[: len(datain)]

            return action

        def exec_fill(buf):
            _sgio.plan[:] = [fill(buf)]
            cmd = Inquiry(E.spc.INQUIRY, evpd=1, page_code=0x83, alloclen=252)
            sd.execute(cmd)
            cmd.unmarshall(evpd=1)
            return cmd.result

        for si, sbuf in enumerate(seeds_inquiry_vpd()[:5]):
            fam.call("sgio-fill-%d" % si, 252, exec_fill, sbuf)
        sd.close()
    finally:
        try:
            os.unlink(path)
            os.rmdir(tmpdir)
        except OSError:
            pass
    return fam


# ----------------------------------------------------------------------------
# scaling and allocation checks
# ----------------------------------------------------------------------------


def looping_cases():
    """(name, function(size) -> (callable, buffer))  -- inputs that maximise iteration counts"""

    def hdr4(size, off):
        b = bytearray(size)
        b[0:4] = be(size, 4)
        return b

    def devid(size, dl=0):
        b = bytearray(size)
        b[0:4] = bytearray([0, 0x83]) + be(min(size - 4, 0xFFFF), 2)
        return b

    def res_edl1(size):
        b = bytearray(size)
        b[5:8] = be(size - 8, 3)
        b[8:16] = bytearray([3, 0xC0, 0, 1, 0]) + be(size - 16, 3)
        return b

    def res_pages(size):
        b = bytearray(size)
        b[5:8] = be(size - 8, 3)
        return b

    def full(size):
        b = bytearray(size)
        b[4:8] = be(size - 8, 4)
        return b

    def full_tid(size):
        b = bytearray(size)
        b[4:8] = be(size - 8, 4)
        pos = 8
        while pos + 48 <= size:
            b[pos + 20 : pos + 24] = be(24, 4)
            b[pos + 24] = 0x06
            pos += 48
        return b

    def rtpg(size):
        b = bytearray([1] * size)
        b[0:4] = be(size - 4, 4)
        return b

    def supported(size):
        b = bytearray(size)
        b[0:4] = bytearray([0, 0]) + be(min(size - 4, 0xFFFF), 2)
        return b

    return [
        ("getlbastatus", GetLBAStatus.unmarshall_datain, lambda n: hdr4(n, 4)),
        ("reportluns", ReportLuns.unmarshall_datain, lambda n: hdr4(n, 8)),
        ("reportpriority-empty", ReportPriority.unmarshall_datain, lambda n: bytearray(n)),
        ("rtpg-zero", ReportTargetPortGroups.unmarshall_datain, lambda n: hdr4(n, 4)),
        ("rtpg-ports", ReportTargetPortGroups.unmarshall_datain, rtpg),
        ("inquiry-devid", lambda b: Inquiry.unmarshall_datain(b, evpd=1), devid),
        ("inquiry-supported", lambda b: Inquiry.unmarshall_datain(b, evpd=1), supported),
        ("inquiry-std", Inquiry.unmarshall_datain, lambda n: bytearray([0xFF] * n)),
        ("res-edl1", ReadElementStatus.unmarshall_datain, res_edl1),
        ("res-pages", ReadElementStatus.unmarshall_datain, res_pages),
        ("pr-keys", PersistentReserveInReadKeys.unmarshall_datain, full),
        ("pr-full-zero", PersistentReserveInReadFullStatus.unmarshall_datain, full),
        ("pr-full-tid", PersistentReserveInReadFullStatus.unmarshall_datain, full_tid),
        ("modesense6", ModeSense6.unmarshall_datain, lambda n: bytearray([0x0A] * 4) + bytearray([0x0A] * (n - 4))),
        ("modesense10", ModeSense10.unmarshall_datain, lambda n: bytearray(8) + bytearray([0x4A] * (n - 8))),
        ("readcapacity16", ReadCapacity16.unmarshall_datain, lambda n: bytearray([0xFF] * n)),
        ("readdiscinformation", ReadDiscInformation.unmarshall_datain, lambda n: bytearray(n)),
        ("readcd", lambda b: ReadCd.unmarshall_datain(b, 0, 4, est=2, mcsb=0x1F, c2ei=1, scsb=2), lambda n: bytearray(n)),
        ("sense-fixed", lambda b: sense_view(SCSICheckCondition(b)), lambda n: bytearray([0x70]) + bytearray([0xFF] * (n - 1))),
        ("sense-desc", lambda b: sense_view(SCSICheckCondition(b)), lambda n: bytearray([0x72]) + bytearray([0xFF] * (n - 1))),
    ]


def check_scaling():
    sizes = (1024, 2048, 4096, 8192)
    for name, fn, mk in looping_cases():
        steps = []
        for n in sizes:
            buf = mk(n)
            limit = STEP_BASE + STEP_PER_BYTE * n + 4 * STEP_PER_SECTOR
            STATS["calls"] += 1
            try:
                res, st = metered(limit, fn, (buf,), {})
            except WorkBoundExceeded:
                fail("scaling/%s: more than %d steps for %d bytes" % (name, limit, n))
                steps = None
                break
            except WatchdogExpired:
                fail("scaling/%s: watchdog expired for %d bytes" % (name, n))
                steps = None
                break
            if res[0] == "EXC" and isinstance(res[1], (RecursionError, MemoryError)):
                fail("scaling/%s: %s for %d bytes" % (name, type(res[1]).__name__, n))
            steps.append(st)
        if not steps:
            continue
        for (n1, s1), (n2, s2) in zip(zip(sizes, steps), zip(sizes[1:], steps[1:])):
            # doubling the buffer may at most (about) double the work
            if s2 > 2.2 * s1 + 2000:
                fail("scaling/%s: steps grow faster than the buffer: %d bytes -> %d steps, %d bytes -> %d steps" % (name, n1, s1, n2, s2))


def check_memory():
    for name, fn, mk in looping_cases():
        for n in (2048, 8192):
            buf = mk(n)
            limit = STEP_BASE + STEP_PER_BYTE * n + 4 * STEP_PER_SECTOR
            STATS["calls"] += 1
            try:
                t0 = time.time()
                peak = memory_peak(limit, fn, buf)
                dt = time.time() - t0
            except WorkBoundExceeded:
                fail("memory/%s: more than %d steps for %d bytes" % (name, limit, n))
                continue
            except WatchdogExpired:
                fail("memory/%s: watchdog expired for %d bytes" % (name, n))
                continue
            if peak > MEM_BASE + MEM_PER_BYTE * n:
                fail("memory/%s: peak allocation %d bytes for a %d byte buffer" % (name, peak, n))
            if dt > 60:
                fail("memory/%s: %d byte buffer took %.1fs" % (name, n, dt))


# ----------------------------------------------------------------------------
# golden digests recorded from the reference implementation
# ----------------------------------------------------------------------------
GOLDEN = {
    "inquiry": ("6de1146f0d7b7800d85e1214", 10402),
    "modesense": ("10bb0c0a1bd5cad3b4fdbf10", 13018),
    "readcapacity": ("46790db05b91874f5069f79a", 654),
    "lists": ("c35696bbc424cab32afcc3f5", 1810),
    "rtpg": ("a46b6dc5d0595dbe295f594c", 1302),
    "readelementstatus": ("cf41a0e34e50044b7eb29fe2", 3738),
    "readdiscinformation": ("15fa121413c707d0427570e3", 2060),
    "readcd": ("e0ec6d2a9004c4af6f5593ac", 41492),
    "persistentreservein": ("e2c830d400f5c236e18c1c71", 5910),
    "sense": ("536fcd01edf5e19e55b7f415", 5238),
    "wrapper": ("adb7b99a13c40564ce922728", 9465),
}


def main(argv):
    print_golden = "--print-golden" in argv
    t0 = time.time()
    try:
        check(print_golden)
    except TooManyFailures:
        print("giving up after %d problems" % len(FAILURES))
    print(
        "%d calls in %.1fs; tightest work budget use %.0f%% (%s)"
        % (STATS["calls"], time.time() - t0, 100 * STATS["max_ratio"], STATS["max_ratio_what"])
    )
    if FAILURES:
        print("FAIL (%d problems)" % len(FAILURES))
        return 1
    print("PASS")
    return 0


def check(print_golden):
    families = []
    for i, build in enumerate(
        (
            family_inquiry,
            family_modesense,
            family_capacity,
            family_lists,
            family_rtpg,
            family_res,
            family_rdi,
            family_readcd,
            family_pr,
            family_sense,
            family_wrapper,
        )
    ):
        fam = build(random.Random(1000 + i))
        families.append(fam)
    check_scaling()
    check_memory()

    if print_golden:
        print("GOLDEN = {")
        for fam in families:
            print('    "%s": ("%s", %d),' % (fam.name, fam.digest(), fam.n))
        print("}")
    else:
        for fam in families:
            want = GOLDEN.get(fam.name)
            if want is None:
                fail("no golden digest for family %s" % fam.name)
            elif want != (fam.digest(), fam.n):
                fail(
                    "family %s: observable behaviour differs from the reference (digest %s over %d calls, expected %s over %d)"
                    % (fam.name, fam.digest(), fam.n, want[0], want[1])
                )


if __name__ == "__main__":
    sys.exit(main(sys.argv[1:]))
