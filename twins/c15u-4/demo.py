#!/usr/bin/env python
"""
Demo / check for property C15 (device-node handle management of SCSIDevice).

  With replug detection enabled, every command is issued through a handle to
  the device node that currently exists at the device path: if the node was
  replaced since the handle was opened, the old handle is closed and a fresh
  one opened before the command is sent, also when closing the stale handle
  fails, and a vanished node is reported as an error rather than silently
  using the old handle.  With detection disabled the original handle is kept,
  and after close() or leaving a with block (normally or by exception) the OS
  handle is released exactly once.

The script is standalone.  It installs
  * a fake ``sgio`` and a fake ``iscsi`` binding into sys.modules,
  * a small virtual file system for paths below /dev/pyscsi-demo/ (builtins.open
    and os.stat are wrapped *before* the library is imported and delegate to
    the real functions for every other path),
and then drives the library only through its public API (SCSIDevice, SCSI,
ISCSIDevice, init_device).

Run:  cd /tmp/seed/C15u && PYTHONPATH=/tmp/seed/C15u /venv/bin/python SEED/demo.py
"""
import builtins
import itertools
import os
import sys
import types

# --------------------------------------------------------------------------
# virtual file system for device nodes
# --------------------------------------------------------------------------
VROOT = "/dev/pyscsi-demo/"

_real_open = builtins.open
_real_stat = os.stat


class Handle(object):
    """What open() returns for a virtual device node: one OS level handle."""

    def __init__(self, vfs, path, ino, mode, buffering):
        self.vfs = vfs
        self.path = path
        self.ino = ino
        self.mode = mode
        self.buffering = buffering
        self.close_calls = 0
        self.releases = 0
        self.closed = False
        self.close_error = None  # exception (instance) to raise from close()
        self.on_close = None  # callable run when close() is entered

    def close(self):
        self.close_calls += 1
        self.vfs.log.append(("close", self))
        hook, self.on_close = self.on_close, None
        if hook is not None:
            hook()
        if not self.closed:
            # like a real file object: the descriptor is gone even if the
            # close reports an error
            self.closed = True
            self.releases += 1
        err, self.close_error = self.close_error, None
        if err is not None:
            raise err

    def fileno(self):
        return 1000 + self.vfs.handles.index(self)

    def __repr__(self):
        return "<Handle #%d %s ino=%d %s%s>" % (
            self.vfs.handles.index(self),
            self.path,
            self.ino,
            self.mode,
            " closed" if self.closed else "",
        )


class VFS(object):
    def __init__(self):
        self.nodes = {}  # path -> inode number
        self.handles = []  # every handle ever opened, in order
        self.log = []  # ("open", h) / ("close", h) / ("stat", path) / ("exec", h)
        self.open_error = {}  # path -> exception to raise from the next open()
        self._ino = itertools.count(4711)

    # -- manipulation by the scenarios ------------------------------------
    def plug(self, path, ino=None):
        """create or replace the node at path; returns its inode number"""
        if ino is None:
            ino = next(self._ino)
        self.nodes[path] = ino
        return ino

    def unplug(self, path):
        del self.nodes[path]

    # -- the wrapped OS entry points --------------------------------------
    def open(
        self,
        file,
        mode="r",
        buffering=-1,
        encoding=None,
        errors=None,
        newline=None,
        closefd=True,
        opener=None,
    ):
        if not (isinstance(file, str) and file.startswith(VROOT)):
            return _real_open(
                file, mode, buffering, encoding, errors, newline, closefd, opener
            )
        err = self.open_error.pop(file, None)
        if err is not None:
            raise err
        if file not in self.nodes:
            raise FileNotFoundError(2, "No such file or directory", file)
        h = Handle(self, file, self.nodes[file], mode, buffering)
        self.handles.append(h)
        self.log.append(("open", h))
        return h

    def stat(self, path, *args, **kwargs):
        if not (isinstance(path, str) and path.startswith(VROOT)):
            return _real_stat(path, *args, **kwargs)
        self.log.append(("stat", path))
        if path not in self.nodes:
            raise FileNotFoundError(2, "No such file or directory", path)
        ino = self.nodes[path]
        return os.stat_result((0o020660, ino, 5, 1, 0, 6, 0, 0, 0, 0))

    # -- queries -----------------------------------------------------------
    def handles_for(self, path):
        return [h for h in self.handles if h.path == path]

    def live(self, path):
        return [h for h in self.handles if h.path == path and not h.closed]


vfs = VFS()
builtins.open = vfs.open
os.stat = vfs.stat

# --------------------------------------------------------------------------
# fake sgio binding
# --------------------------------------------------------------------------
sgio = types.ModuleType("sgio")


class CheckConditionError(Exception):
    def __init__(self, sense):
        Exception.__init__(self, "check condition")
        self.sense = sense


class SgioState(object):
    calls = []  # (handle, cdb, dataout, datain, closed-at-call, node-ino-at-call)
    fail_next = None  # exception to raise from the next execute


def sgio_execute(fobj, cdb, dataout, datain, *rest):
    ino_now = vfs.nodes.get(getattr(fobj, "path", None))
    SgioState.calls.append(
        (fobj, bytes(cdb), dataout, datain, getattr(fobj, "closed", None), ino_now)
    )
    vfs.log.append(("exec", fobj))
    err, SgioState.fail_next = SgioState.fail_next, None
    if err is not None:
        raise err
    return 0


sgio.execute = sgio_execute
sgio.CheckConditionError = CheckConditionError
sys.modules["sgio"] = sgio

# --------------------------------------------------------------------------
# fake iscsi binding
# --------------------------------------------------------------------------
iscsi = types.ModuleType("iscsi")
iscsi.SCSI_XFER_NONE = 0
iscsi.SCSI_XFER_READ = 1
iscsi.SCSI_XFER_WRITE = 2
iscsi.ISCSI_SESSION_NORMAL = 2
iscsi.ISCSI_HEADER_DIGEST_NONE_CRC32C = 1


class IscsiContext(object):
    instances = []

    def __init__(self, name):
        self.name = name
        self.connects = []
        self.disconnects = 0
        self.commands = []
        self.next_status = 0
        IscsiContext.instances.append(self)

    def set_targetname(self, t):
        self.target = t

    def set_session_type(self, t):
        self.session_type = t

    def set_header_digest(self, d):
        self.header_digest = d

    def connect(self, portal, lun):
        self.connects.append((portal, lun))

    def disconnect(self):
        self.disconnects += 1

    def command(self, lun, task, dataout, datain):
        self.commands.append((lun, task, dataout, datain))
        task.status = self.next_status


class IscsiURL(object):
    def __init__(self, ctx, url):
        rest = url[len("iscsi://"):]
        portal, target, lun = rest.split("/")
        self.portal = portal
        self.target = target
        self.lun = int(lun)


class IscsiTask(object):
    def __init__(self, cdb, direction, xferlen):
        self.cdb = cdb
        self.direction = direction
        self.xferlen = xferlen
        self.status = 0
        self.raw_sense = bytearray([0x70, 0, 0x05] + [0] * 15)


iscsi.Context = IscsiContext
iscsi.URL = IscsiURL
iscsi.Task = IscsiTask
sys.modules["iscsi"] = iscsi

# --------------------------------------------------------------------------
# now the library
# --------------------------------------------------------------------------
from pyscsi.pyiscsi.iscsi_device import ISCSIDevice  # noqa: E402
from pyscsi.pyscsi.scsi import SCSI  # noqa: E402
from pyscsi.pyscsi.scsi_device import SCSIDevice  # noqa: E402
from pyscsi.pyscsi.scsi_sense import SCSICheckCondition  # noqa: E402
from pyscsi.utils import init_device  # noqa: E402
import pyscsi.pyscsi.scsi_device as scsi_device_module  # noqa: E402
import pyscsi.pyscsi.scsi_enum_command as scsi_enum_command  # noqa: E402

CHECKS = [0]
FAILURES = []


def check(cond, what):
    CHECKS[0] += 1
    if not cond:
        FAILURES.append(what)
        print("FAIL: %s" % what)


def raises(exc_type, fn, *args, **kwargs):
    try:
        fn(*args, **kwargs)
    except exc_type as e:
        return e
    except BaseException as e:  # noqa
        check(False, "expected %s, got %r" % (exc_type.__name__, e))
        return None
    check(False, "expected %s, nothing raised" % exc_type.__name__)
    return None


class Cmd(object):
    """minimal stand-in for a SCSICommand: the device only needs the buffers"""

    def __init__(self, tag=0, nin=0, nout=0):
        self.cdb = bytearray([0x00, tag & 0xFF, 0, 0, 0, 0])
        self.dataout = bytearray(nout)
        self.datain = bytearray(nin)


_path_counter = itertools.count()


def fresh_path(stem="sd"):
    return "%s%s%d" % (VROOT, stem, next(_path_counter))


def n_exec():
    return len(SgioState.calls)


def last_exec():
    return SgioState.calls[-1]


def expect_sent_on_current(path, tag, what):
    """the last command was sent on an open handle to the node now at path"""
    fobj, cdb, dataout, datain, closed_at_call, ino_at_call = last_exec()
    check(isinstance(fobj, Handle), "%s: command sent through a device handle" % what)
    check(cdb[1] == (tag & 0xFF), "%s: the command sent is the one requested" % what)
    check(closed_at_call is False, "%s: handle open when the command is sent" % what)
    check(fobj.path == path, "%s: handle belongs to the device path" % what)
    check(
        fobj.ino == vfs.nodes.get(path) and fobj.ino == ino_at_call,
        "%s: handle refers to the node that exists now (handle ino %r, node ino %r)"
        % (what, getattr(fobj, "ino", None), vfs.nodes.get(path)),
    )
    return fobj


TRUTHY = [True, 1, 2, -1, "yes", "False", (0,), [None], 0.5, object()]
FALSY = [False, 0, None, "", (), [], {}, 0.0]


# --------------------------------------------------------------------------
# scenarios
# --------------------------------------------------------------------------
def scenario_constructor_opens_once():
    for rw, mode in [
        (False, "rb"),
        (True, "w+b"),
        (0, "rb"),
        (1, "w+b"),
        ("", "rb"),
        ("rw", "w+b"),
        (None, "rb"),
        ([0], "w+b"),
    ]:
        for buffering in (-1, 0, 4096):
            path = fresh_path()
            ino = vfs.plug(path)
            dev = SCSIDevice(path, rw, True, buffering)
            hs = vfs.handles_for(path)
            check(len(hs) == 1, "constructor opens exactly one handle (rw=%r)" % (rw,))
            h = hs[0]
            check(h.mode == mode, "open mode for readwrite=%r is %s (got %r)" % (rw, mode, h.mode))
            check(h.buffering == buffering, "buffering %r passed to open (got %r)" % (buffering, h.buffering))
            check(h.ino == ino and not h.closed, "fresh handle is open on the node")
            check(repr(dev) == "SCSIDevice", "repr is the class name")
            check(dev.opcodes is scsi_enum_command.spc, "default opcodes are spc")
            dev.close()
            check(h.releases == 1 and h.close_calls == 1, "close() releases the handle exactly once")

    # keyword form and defaults
    path = fresh_path()
    vfs.plug(path)
    dev = SCSIDevice(device=path, readwrite=True, detect_replugged=False, buffering=0)
    h = vfs.handles_for(path)[0]
    check((h.mode, h.buffering) == ("w+b", 0), "keyword arguments reach open()")
    dev.close()
    path = fresh_path()
    vfs.plug(path)
    dev = SCSIDevice(path)
    h = vfs.handles_for(path)[0]
    check((h.mode, h.buffering) == ("rb", -1), "defaults: read-only, buffering -1")
    dev.close()
    check(h.releases == 1, "default-constructed device closes once")


def scenario_no_backend():
    before = len(vfs.handles)
    for bad in [
        "sda",
        "",
        "/dev",
        "/DEV/sda",
        " /dev/sda",
        "dev/sda",
        "/tmp/x",
        "iscsi://h/t/1",
        "/dev",
        "\\dev\\sda",
    ]:
        e = raises(NotImplementedError, SCSIDevice, bad)
        if e is not None:
            check(str(e) == "No backend implemented for %s" % bad, "message for %r" % bad)
        e = raises(NotImplementedError, SCSIDevice, bad, True, False, 0)
        if not bad.startswith("iscsi://"):
            e = raises(NotImplementedError, init_device, bad)
            if e is not None:
                check(str(e) == "No backend implemented for %s" % bad, "init_device message for %r" % bad)
    check(len(vfs.handles) == before, "nothing is opened for unsupported device strings")
    # bytes path: slicing gives bytes, never equal to the str prefix
    raises(NotImplementedError, SCSIDevice, b"/dev/sda")
    # a missing node is an error of the constructor
    path = fresh_path()
    e = raises(FileNotFoundError, SCSIDevice, path)
    check(len(vfs.handles) == before, "no handle for a missing node")
    # "/dev/" itself has the prefix and is handed to open()
    raises(OSError, SCSIDevice, "/dev/")


def scenario_steady_state():
    for detect in TRUTHY:
        path = fresh_path()
        vfs.plug(path)
        dev = SCSIDevice(path, False, detect)
        h0 = vfs.handles_for(path)[0]
        for i in range(7):
            c = Cmd(i, nin=4)
            before = n_exec()
            r = dev.execute(c)
            check(r is None, "execute returns None")
            check(n_exec() == before + 1, "one sgio call per execute")
            h = expect_sent_on_current(path, i, "steady detect=%r #%d" % (detect, i))
            check(h is h0, "unchanged node: the original handle is kept")
            fobj, cdb, dout, din, _, _ = last_exec()
            check(dout is c.dataout and din is c.datain, "the command's own buffers are handed to sgio")
            check(cdb == bytes(c.cdb), "cdb handed to sgio")
        check(len(vfs.handles_for(path)) == 1, "no reopen without a replug")
        check(h0.close_calls == 0, "no close without a replug")
        dev.close()
        check(h0.releases == 1 and h0.close_calls == 1, "closed once at the end")


def scenario_replug_sequence():
    for detect in TRUTHY:
        for rw, mode, buffering in [(False, "rb", -1), (True, "w+b", 0), (1, "w+b", 512)]:
            path = fresh_path()
            vfs.plug(path)
            dev = SCSIDevice(path, rw, detect, buffering)
            hs = vfs.handles_for(path)
            expected_handles = 1
            tag = 0
            # a series of: k commands, then the node is replaced r times
            for k, r in [(1, 1), (3, 1), (0, 2), (2, 3), (1, 1), (0, 1), (4, 0)]:
                for _ in range(k):
                    tag += 1
                    dev.execute(Cmd(tag))
                    h = expect_sent_on_current(path, tag, "replug seq detect=%r" % (detect,))
                    hs = vfs.handles_for(path)
                    check(len(hs) == expected_handles, "only one reopen per replacement (have %d want %d)" % (len(hs), expected_handles))
                    check(h is hs[-1], "command goes through the newest handle")
                    for old in hs[:-1]:
                        check(old.closed and old.releases == 1 and old.close_calls == 1, "every stale handle was closed exactly once")
                    check((h.mode, h.buffering) == (mode, buffering), "reopen keeps mode and buffering")
                for _ in range(r):
                    vfs.plug(path)
                if r:
                    # the node was replaced r times; the next command needs
                    # exactly one more handle
                    # send one command right away to observe the order of events
                    tag += 1
                    mark = len(vfs.log)
                    stale = vfs.handles_for(path)[-1]
                    dev.execute(Cmd(tag))
                    expected_handles += 1
                    h = expect_sent_on_current(path, tag, "after replacement")
                    check(h is not stale, "a fresh handle is used after the node was replaced")
                    events = [e for e in vfs.log[mark:] if e[0] != "stat"]
                    check(
                        events == [("close", stale), ("open", h), ("exec", h)],
                        "order: close stale, open fresh, then send (got %r)" % (events,),
                    )
                    check(stale.closed and stale.releases == 1 and stale.close_calls == 1, "stale handle closed once")
                    check((h.mode, h.buffering) == (mode, buffering), "fresh handle has the same mode and buffering")
            check(len(vfs.live(path)) == 1, "exactly one live handle while the device is open")
            dev.close()
            check(len(vfs.live(path)) == 0, "no live handle after close()")
            for h in vfs.handles_for(path):
                check(h.releases == 1 and h.close_calls == 1, "each handle released exactly once overall")


def scenario_inode_goes_back():
    # A -> B -> A : every change relative to the handle in use is a replug
    path = fresh_path()
    a = vfs.plug(path)
    dev = SCSIDevice(path)
    dev.execute(Cmd(1))
    b = vfs.plug(path)
    dev.execute(Cmd(2))
    expect_sent_on_current(path, 2, "A->B")
    vfs.plug(path, a)
    dev.execute(Cmd(3))
    h = expect_sent_on_current(path, 3, "B->A")
    check(len(vfs.handles_for(path)) == 3, "three handles for A, B, A")
    # replaced and put back between two commands: same inode => nothing to do
    vfs.plug(path, b)
    vfs.plug(path, a)
    dev.execute(Cmd(4))
    check(expect_sent_on_current(path, 4, "A->B->A unseen") is h, "same inode number again: handle kept")
    check(len(vfs.handles_for(path)) == 3, "no reopen when the inode is the same at command time")
    # unusual inode numbers
    for ino in (0, 1, 2 ** 31, 2 ** 63 - 1, 2 ** 64 - 1):
        vfs.plug(path, ino)
        dev.execute(Cmd(5))
        hh = expect_sent_on_current(path, 5, "ino %d" % ino)
        check(hh.ino == ino, "handle for inode %d" % ino)
    dev.close()
    check(len(vfs.live(path)) == 0, "all released")
    for h in vfs.handles_for(path):
        check(h.releases == 1 and h.close_calls == 1, "released once")


class Boom(BaseException):
    pass


def scenario_stale_close_fails():
    errors = [
        OSError(5, "Input/output error"),
        IOError("flush failed"),
        ValueError("weird"),
        RuntimeError("x"),
        KeyboardInterrupt(),
        Boom("base exception"),
    ]
    for detect in (True, 1, "on"):
        for err in errors:
            path = fresh_path()
            vfs.plug(path)
            dev = SCSIDevice(path, True, detect, 0)
            stale = vfs.handles_for(path)[0]
            dev.execute(Cmd(1))
            vfs.plug(path)
            stale.close_error = err
            before = n_exec()
            mark = len(vfs.log)
            e = raises(type(err), dev.execute, Cmd(2))
            check(e is err, "the close error itself is reported (%r)" % (err,))
            check(n_exec() == before, "no command is sent on the failed attempt")
            hs = vfs.handles_for(path)
            check(len(hs) == 2, "a fresh handle was opened although close failed (%r)" % (err,))
            fresh = hs[-1]
            check(not fresh.closed and fresh.ino == vfs.nodes[path], "fresh handle open on the new node")
            check((fresh.mode, fresh.buffering) == ("w+b", 0), "fresh handle keeps mode/buffering")
            events = [x for x in vfs.log[mark:] if x[0] != "stat"]
            check(events == [("close", stale), ("open", fresh)], "close attempted first, then open (got %r)" % (events,))
            check(stale.close_calls == 1, "stale handle close attempted once")
            # the next command goes through the fresh handle, no further reopen
            dev.execute(Cmd(3))
            h = expect_sent_on_current(path, 3, "after failed close")
            check(h is fresh, "next command uses the fresh handle")
            check(len(vfs.handles_for(path)) == 2, "no further reopen")
            check(stale.close_calls == 1, "stale handle not closed again")
            dev.close()
            check(fresh.releases == 1 and fresh.close_calls == 1, "fresh handle released once")
            check(len(vfs.live(path)) == 0, "nothing left open")

    # closing fails AND reopening fails: the open error wins, close error is its context
    path = fresh_path()
    vfs.plug(path)
    dev = SCSIDevice(path)
    stale = vfs.handles_for(path)[0]
    vfs.plug(path)
    cerr = OSError(5, "close failed")
    oerr = PermissionError(13, "open failed")
    stale.close_error = cerr
    vfs.open_error[path] = oerr
    before = n_exec()
    e = raises(PermissionError, dev.execute, Cmd(1))
    check(e is oerr, "open error reported when both fail")
    check(e is not None and e.__context__ is cerr, "close error is the context of the open error")
    check(n_exec() == before, "no command sent when reopening failed")
    # afterwards: recovery on the next command
    dev.execute(Cmd(2))
    expect_sent_on_current(path, 2, "recovered after double failure")
    dev.close()
    check(len(vfs.live(path)) == 0, "nothing left open after recovery")


def scenario_vanished_node():
    for detect in (True, 1, "x"):
        path = fresh_path()
        vfs.plug(path)
        dev = SCSIDevice(path, False, detect)
        h0 = vfs.handles_for(path)[0]
        dev.execute(Cmd(1))
        vfs.unplug(path)
        for i in range(3):
            before = n_exec()
            e = raises(OSError, dev.execute, Cmd(2))
            check(isinstance(e, FileNotFoundError), "vanished node reported as FileNotFoundError")
            check(n_exec() == before, "no command sent through the old handle of a vanished node")
        check(len(vfs.handles_for(path)) == 1, "nothing opened while the node is gone")
        check(h0.close_calls == 0, "old handle untouched while the node is gone")
        # the node comes back (new inode): next command uses a fresh handle
        vfs.plug(path)
        dev.execute(Cmd(3))
        h = expect_sent_on_current(path, 3, "node came back")
        check(h is not h0 and h0.closed and h0.releases == 1 and h0.close_calls == 1, "old handle closed once the node is back")
        # vanish, then close(): the handle is still released exactly once
        vfs.unplug(path)
        raises(FileNotFoundError, dev.execute, Cmd(4))
        dev.close()
        check(h.releases == 1 and h.close_calls == 1, "close() after vanish releases the handle once")
        check(len(vfs.live(path)) == 0, "nothing left open")

    # the node comes back with the *same* inode: old handle is still right
    path = fresh_path()
    ino = vfs.plug(path)
    dev = SCSIDevice(path)
    h0 = vfs.handles_for(path)[0]
    vfs.unplug(path)
    raises(FileNotFoundError, dev.execute, Cmd(1))
    vfs.plug(path, ino)
    dev.execute(Cmd(2))
    check(expect_sent_on_current(path, 2, "same inode back") is h0, "same inode back: original handle kept")
    dev.close()

    # node replaced, then disappears while the stale handle is being closed
    path = fresh_path()
    vfs.plug(path)
    dev = SCSIDevice(path)
    h0 = vfs.handles_for(path)[0]
    vfs.plug(path)
    h0.on_close = lambda: vfs.unplug(path)
    before = n_exec()
    e = raises(FileNotFoundError, dev.execute, Cmd(1))
    check(n_exec() == before, "no command sent when the node vanished during the reopen")
    check(h0.closed and h0.releases == 1, "stale handle was released")
    check(len(vfs.handles_for(path)) == 1, "no fresh handle could be opened")
    raises(FileNotFoundError, dev.execute, Cmd(2))
    check(n_exec() == before, "still nothing sent while the node is gone")
    vfs.plug(path)
    dev.execute(Cmd(3))
    h = expect_sent_on_current(path, 3, "recovered after vanish during reopen")
    check(h0.releases == 1, "stale handle released only once in total")
    dev.close()
    check(h.releases == 1 and h.close_calls == 1, "fresh handle released once")
    check(len(vfs.live(path)) == 0, "nothing left open")


def scenario_detection_disabled():
    for detect in FALSY:
        path = fresh_path()
        vfs.plug(path)
        dev = SCSIDevice(path, False, detect)
        h0 = vfs.handles_for(path)[0]
        mark = len(vfs.log)
        dev.execute(Cmd(1))
        vfs.plug(path)  # replaced
        dev.execute(Cmd(2))
        fobj = last_exec()[0]
        check(fobj is h0, "detection off (%r): original handle kept after replacement" % (detect,))
        vfs.unplug(path)  # gone
        before = n_exec()
        dev.execute(Cmd(3))
        check(n_exec() == before + 1 and last_exec()[0] is h0, "detection off (%r): original handle kept after the node vanished" % (detect,))
        check(not h0.closed and h0.close_calls == 0, "detection off: handle never closed by execute")
        check(len(vfs.handles_for(path)) == 1, "detection off: never reopened")
        check(not [e for e in vfs.log[mark:] if e[0] == "stat"], "detection off: node is not even looked at")
        dev.close()
        check(h0.releases == 1 and h0.close_calls == 1, "detection off: close() releases once")


def scenario_with_block():
    for detect in (True, False):
        # normal exit
        path = fresh_path()
        vfs.plug(path)
        with SCSIDevice(path, False, detect) as dev:
            check(isinstance(dev, SCSIDevice), "__enter__ returns the device")
            h0 = vfs.handles_for(path)[0]
            dev.execute(Cmd(1))
            check(not h0.closed, "open inside the with block")
        check(h0.releases == 1 and h0.close_calls == 1, "with block (normal): released exactly once")

        # __enter__ returns the very same object
        path = fresh_path()
        vfs.plug(path)
        d = SCSIDevice(path, False, detect)
        with d as dd:
            check(dd is d, "__enter__ returns self")
        check(vfs.handles_for(path)[0].releases == 1, "released after with")

        # exit by exception: propagates, handle released once
        for exc in (ValueError("v"), KeyError("k"), KeyboardInterrupt(), Boom("b"), SystemExit(3)):
            path = fresh_path()
            vfs.plug(path)
            caught = None
            try:
                with SCSIDevice(path, True, detect) as dev:
                    dev.execute(Cmd(1))
                    raise exc
            except BaseException as e:  # noqa
                caught = e
            check(caught is exc, "exception %r propagates out of the with block" % (exc,))
            h0 = vfs.handles_for(path)[0]
            check(h0.releases == 1 and h0.close_calls == 1, "with block (%s): released exactly once" % type(exc).__name__)

        # exception coming from execute itself (check condition) inside with
        path = fresh_path()
        vfs.plug(path)
        caught = None
        try:
            with SCSIDevice(path, False, detect) as dev:
                SgioState.fail_next = CheckConditionError(bytearray([0x70, 0, 0x02] + [0] * 15))
                dev.execute(Cmd(1))
        except SCSICheckCondition as e:
            caught = e
        check(isinstance(caught, SCSIDevice.CheckCondition), "CheckCondition leaves the with block")
        h0 = vfs.handles_for(path)[0]
        check(h0.releases == 1 and h0.close_calls == 1, "released once after CheckCondition in with")

    # with block + replug inside
    path = fresh_path()
    vfs.plug(path)
    with SCSIDevice(path) as dev:
        dev.execute(Cmd(1))
        vfs.plug(path)
        dev.execute(Cmd(2))
        expect_sent_on_current(path, 2, "replug inside with")
        vfs.plug(path)
    hs = vfs.handles_for(path)
    check(len(hs) == 2, "two handles: original + one reopen (last replacement never used)")
    check(all(h.releases == 1 and h.close_calls == 1 for h in hs), "with + replug: every handle released once")

    # with block where the node vanished: error propagates, handle still released once
    path = fresh_path()
    vfs.plug(path)
    caught = None
    try:
        with SCSIDevice(path) as dev:
            vfs.unplug(path)
            dev.execute(Cmd(1))
    except FileNotFoundError as e:
        caught = e
    check(caught is not None, "vanished node error leaves the with block")
    h0 = vfs.handles_for(path)[0]
    check(h0.releases == 1 and h0.close_calls == 1, "vanished node in with: released once")

    # __exit__ called directly returns a false value (never swallows)
    path = fresh_path()
    vfs.plug(path)
    d = SCSIDevice(path)
    r = d.__exit__(None, None, None)
    check(not r, "__exit__ returns a false value")
    check(vfs.handles_for(path)[0].releases == 1, "__exit__ releases the handle")

    # close error at the end of a with block propagates
    path = fresh_path()
    vfs.plug(path)
    err = OSError(5, "late close error")
    caught = None
    try:
        with SCSIDevice(path) as dev:
            vfs.handles_for(path)[0].close_error = err
    except OSError as e:
        caught = e
    check(caught is err, "close error from __exit__ propagates")
    check(vfs.handles_for(path)[0].releases == 1 and vfs.handles_for(path)[0].close_calls == 1, "still one release")


def scenario_check_condition():
    sense = bytearray([0x70, 0, 0x05, 0, 0, 0, 0, 10, 0, 0, 0, 0, 0x24, 0x00, 0, 0, 0, 0])
    for detect in (True, False):
        path = fresh_path()
        vfs.plug(path)
        dev = SCSIDevice(path, False, detect)
        SgioState.fail_next = CheckConditionError(sense)
        e = raises(SCSICheckCondition, dev.execute, Cmd(1))
        check(isinstance(e, SCSIDevice.CheckCondition), "CheckCondition is the device's own exception class")
        check(e is not None and e.asc == 0x24 and e.data.get("sense_key") == 5, "sense decoded")
        c = Cmd(2)
        SgioState.fail_next = CheckConditionError(sense)
        r = dev.execute(c, en_raw_sense=True)
        check(r is None and c.raw_sense_data is sense, "en_raw_sense stores the raw sense, no exception")
        c = Cmd(2)
        SgioState.fail_next = CheckConditionError(sense)
        dev.execute(c, True)
        check(c.raw_sense_data is sense, "en_raw_sense positional")
        c = Cmd(3)
        dev.execute(c, en_raw_sense=True)
        check(not hasattr(c, "raw_sense_data"), "no raw sense without a check condition")
        # empty sense
        SgioState.fail_next = CheckConditionError(None)
        e = raises(SCSICheckCondition, dev.execute, Cmd(4))
        # other sgio errors pass through unchanged
        other = OSError(19, "No such device")
        SgioState.fail_next = other
        e = raises(OSError, dev.execute, Cmd(5))
        check(e is other, "foreign errors from sgio propagate unchanged")
        # check condition right after a replug: handle was switched first
        if detect:
            vfs.plug(path)
            SgioState.fail_next = CheckConditionError(sense)
            raises(SCSICheckCondition, dev.execute, Cmd(6))
            expect_sent_on_current(path, 6, "check condition after replug")
        dev.close()
        check(len(vfs.live(path)) == 0, "all released after check conditions")
        for h in vfs.handles_for(path):
            check(h.releases == 1 and h.close_calls == 1, "released once")


def scenario_many_devices():
    paths = [fresh_path(stem) for stem in ("sd", "sg", "s r", "nøde", "x" * 200, "a/b/c")]
    for p in paths:
        vfs.plug(p)
    devs = [SCSIDevice(p, i % 2 == 1, True, -1) for i, p in enumerate(paths)]
    # two devices on the same path as well
    twin_a = SCSIDevice(paths[0])
    for round_ in range(4):
        for i, (p, d) in enumerate(zip(paths, devs)):
            if (round_ + i) % 3 == 0:
                vfs.plug(p)
            d.execute(Cmd(round_ * 16 + i))
            h = expect_sent_on_current(p, round_ * 16 + i, "many devices %r" % p)
            check(h.mode == ("w+b" if i % 2 else "rb"), "each device keeps its own mode")
        twin_a.execute(Cmd(99))
        expect_sent_on_current(paths[0], 99, "second device on the same path")
    for p in paths:
        n_live = len(vfs.live(p))
        check(n_live == (2 if p == paths[0] else 1), "one live handle per device (%r: %d)" % (p, n_live))
    for d in devs:
        d.close()
    twin_a.close()
    for p in paths:
        check(len(vfs.live(p)) == 0, "all handles of %r released" % p)
        for h in vfs.handles_for(p):
            check(h.releases == 1 and h.close_calls == 1, "released exactly once")


def scenario_subclass_hooks():
    # a subclass that overrides the public open()/close() sees the replug handling
    events = []

    class Tracing(SCSIDevice):
        def open(self):
            events.append("open")
            SCSIDevice.open(self)

        def close(self):
            events.append("close")
            SCSIDevice.close(self)

    path = fresh_path()
    vfs.plug(path)
    dev = Tracing(path)
    check(events == ["open"], "constructor goes through open()")
    check(repr(dev) == "Tracing", "repr of a subclass")
    dev.execute(Cmd(1))
    check(events == ["open"], "nothing reopened")
    vfs.plug(path)
    dev.execute(Cmd(2))
    check(events == ["open", "close", "open"], "replug goes through close() and open() (got %r)" % (events,))
    expect_sent_on_current(path, 2, "subclass")
    with dev:
        pass
    check(events == ["open", "close", "open", "close"], "__exit__ goes through close()")
    check(all(h.releases == 1 for h in vfs.handles_for(path)), "subclass: all released once")
    check(issubclass(Tracing.CheckCondition, SCSICheckCondition), "exception classes available on subclasses")


def scenario_scsi_wrapper():
    # the SCSI helper: commands (here: the INQUIRY it sends itself) go via the device
    for detect in (True, False):
        path = fresh_path()
        vfs.plug(path)
        dev = SCSIDevice(path, False, detect)
        h0 = vfs.handles_for(path)[0]
        before = n_exec()
        with SCSI(dev) as s:
            check(s.device is dev, "SCSI keeps the device")
            check(n_exec() == before + 1, "SCSI() sent its INQUIRY")
            check(last_exec()[0] is h0, "INQUIRY sent through the device handle")
            check(dev.devicetype == 0, "device type from the (all-zero) INQUIRY data")
            vfs.plug(path)
            s.testunitready()
            if detect:
                h = expect_sent_on_current(path, 0, "SCSI.testunitready after replug")
                check(h is not h0 and h0.closed, "SCSI helper: stale handle replaced")
            else:
                check(last_exec()[0] is h0, "SCSI helper, detection off: original handle kept")
            # vanished node through the helper
            vfs.unplug(path)
            if detect:
                cnt = n_exec()
                raises(FileNotFoundError, s.testunitready)
                check(n_exec() == cnt, "SCSI helper: vanished node is an error, nothing sent")
            else:
                s.testunitready()
                check(last_exec()[0] is h0, "SCSI helper, detection off: keeps going")
            vfs.plug(path)
        check(len(vfs.live(path)) == 0, "SCSI with block releases the device handle")
        for h in vfs.handles_for(path):
            check(h.releases == 1 and h.close_calls == 1, "SCSI with block: released exactly once")

        # exception inside SCSI with block
        path = fresh_path()
        vfs.plug(path)
        caught = None
        try:
            with SCSI(SCSIDevice(path, False, detect), 512) as s:
                check(s.blocksize == 512, "blocksize kept")
                raise LookupError("inside")
        except LookupError as e:
            caught = e
        check(caught is not None, "exception leaves the SCSI with block")
        h = vfs.handles_for(path)[0]
        check(h.releases == 1 and h.close_calls == 1, "SCSI with block (exception): released exactly once")

        # errors from the device pass through SCSI.execute unchanged
        path = fresh_path()
        vfs.plug(path)
        dev = SCSIDevice(path, False, detect)
        s = SCSI(dev)
        sense = bytearray([0x70, 0, 0x06] + [0] * 15)
        SgioState.fail_next = CheckConditionError(sense)
        e = raises(SCSICheckCondition, s.testunitready)
        check(isinstance(e, SCSIDevice.CheckCondition), "SCSI.execute passes CheckCondition through")
        err = Boom("through scsi")
        SgioState.fail_next = err
        e = raises(Boom, s.testunitready)
        check(e is err, "SCSI.execute passes base exceptions through")
        c = Cmd(7)
        SgioState.fail_next = CheckConditionError(sense)
        s.execute(c, en_raw_sense=True)
        check(c.raw_sense_data is sense, "SCSI.execute forwards en_raw_sense")
        dev.close()
        check(vfs.handles_for(path)[0].releases == 1, "released once")


def scenario_init_device():
    path = fresh_path()
    vfs.plug(path)
    dev = init_device(path)
    check(type(dev) is SCSIDevice, "init_device gives a SCSIDevice for /dev/ paths")
    h0 = vfs.handles_for(path)[0]
    check(h0.mode == "rb" and h0.buffering == -1, "init_device default: read-only, default buffering")
    # detection is enabled for devices made by init_device
    vfs.plug(path)
    dev.execute(Cmd(1))
    h = expect_sent_on_current(path, 1, "init_device device after replug")
    check(h is not h0 and h0.releases == 1, "init_device: replug detection is on")
    vfs.unplug(path)
    raises(FileNotFoundError, dev.execute, Cmd(2))
    dev.close()
    check(len(vfs.live(path)) == 0, "init_device device closed")

    for rw, mode in [(True, "w+b"), (False, "rb"), (1, "w+b"), (0, "rb")]:
        path = fresh_path()
        vfs.plug(path)
        with init_device(path, rw) as dev:
            h = vfs.handles_for(path)[0]
            check(h.mode == mode, "init_device read_write=%r -> %s" % (rw, mode))
        check(h.releases == 1 and h.close_calls == 1, "init_device + with: released once")
        path = fresh_path()
        vfs.plug(path)
        dev = init_device(dev=path, read_write=rw, initiator_name="ignored")
        check(vfs.handles_for(path)[0].mode == mode, "init_device keywords")
        dev.close()

    # iscsi back end: the "handle" is the session
    n = len(IscsiContext.instances)
    url = "iscsi://10.0.0.1:3260/iqn.2000-01.demo:tgt/3"
    dev = init_device(url, False, "iqn.demo:me")
    check(type(dev) is ISCSIDevice, "init_device gives an ISCSIDevice for iscsi:// urls")
    check(len(IscsiContext.instances) == n + 1, "one iscsi context")
    ctx = IscsiContext.instances[-1]
    check(ctx.name == "iqn.demo:me", "initiator name used")
    check(ctx.connects == [("10.0.0.1:3260", 3)], "connected once to portal/lun")
    check(ctx.target == "iqn.2000-01.demo:tgt", "target name set")
    c = Cmd(1, nin=8)
    dev.execute(c)
    check(len(ctx.commands) == 1 and ctx.commands[0][0] == 3, "command sent on the session")
    check(ctx.commands[0][1].direction == iscsi.SCSI_XFER_READ and ctx.commands[0][1].xferlen == 8, "read transfer")
    ctx.next_status = scsi_enum_command.SCSI_STATUS.CHECK_CONDITION
    e = raises(SCSICheckCondition, dev.execute, Cmd(2))
    check(isinstance(e, ISCSIDevice.CheckCondition), "iscsi check condition")
    ctx.next_status = scsi_enum_command.SCSI_STATUS.BUSY
    raises(ISCSIDevice.BusyStatus, dev.execute, Cmd(3))
    ctx.next_status = scsi_enum_command.SCSI_STATUS.RESERVATION_CONFLICT
    raises(ISCSIDevice.ReservationConflict, dev.execute, Cmd(3))
    ctx.next_status = 0
    dev.close()
    check(ctx.disconnects == 1, "iscsi close disconnects once")

    # default initiator name of ISCSIDevice: context named after the url
    with ISCSIDevice(url) as d2:
        ctx2 = IscsiContext.instances[-1]
        check(ctx2.name == url, "no initiator name: the url names the context")
        check(d2.opcodes is scsi_enum_command.spc, "iscsi default opcodes")
    check(ctx2.disconnects == 1, "iscsi with block disconnects once")
    ctx3 = None
    try:
        with init_device(url) as d3:
            ctx3 = IscsiContext.instances[-1]
            check(ctx3.name.startswith("iqn.2018-01.org.pyscsi:"), "default initiator name")
            raise ValueError("x")
    except ValueError:
        pass
    check(ctx3 is not None and ctx3.disconnects == 1, "iscsi with block (exception) disconnects once")
    e = raises(NotImplementedError, ISCSIDevice, "/dev/sda")
    check(e is not None and str(e) == "No backend implemented for /dev/sda", "iscsi device rejects other strings")
    # SCSI helper on an iscsi device
    with SCSI(init_device(url, initiator_name="iqn.demo:x")) as s:
        ctx4 = IscsiContext.instances[-1]
        check(len(ctx4.commands) == 1, "INQUIRY over iscsi")
    check(ctx4.disconnects == 1, "SCSI with block closes the iscsi session once")


def scenario_public_names():
    check(callable(scsi_device_module.get_inode), "get_inode still importable from scsi_device")
    path = fresh_path()
    ino = vfs.plug(path)
    check(scsi_device_module.get_inode(path) == ino, "get_inode gives the inode number")
    raises(FileNotFoundError, scsi_device_module.get_inode, path + "-missing")
    check(scsi_device_module.SCSIDevice is SCSIDevice, "SCSIDevice import path")
    import inspect

    sig = inspect.signature(SCSIDevice.__init__)
    check(
        str(sig) == "(self, device, readwrite=False, detect_replugged=True, buffering=-1)",
        "SCSIDevice signature unchanged (%s)" % sig,
    )
    check(str(inspect.signature(SCSIDevice.execute)) == "(self, cmd, en_raw_sense=False)", "execute signature")
    check(str(inspect.signature(SCSIDevice.open)) == "(self)", "open signature")
    check(str(inspect.signature(SCSIDevice.close)) == "(self)", "close signature")
    check(str(inspect.signature(ISCSIDevice.__init__)) == "(self, device, initiator_name='')", "ISCSIDevice signature")
    p = list(inspect.signature(init_device).parameters)
    check(p == ["dev", "read_write", "initiator_name"], "init_device signature")
    import pyscsi.utils as u

    check(u.init_device is init_device, "init_device import path")
    for name in ("CheckCondition", "ConditionsMet", "BusyStatus", "ReservationConflict", "TaskSetFull", "ACAActive", "TaskAborted"):
        check(isinstance(getattr(SCSIDevice, name, None), type), "SCSIDevice.%s" % name)
        check(isinstance(getattr(ISCSIDevice, name, None), type), "ISCSIDevice.%s" % name)
    # opcodes / devicetype properties
    path = fresh_path()
    vfs.plug(path)
    d = SCSIDevice(path)
    d.opcodes = scsi_enum_command.sbc
    check(d.opcodes is scsi_enum_command.sbc, "opcodes setter")
    d.devicetype = 5
    check(d.devicetype == 5, "devicetype setter")
    d.close()


def scenario_real_files():
    """the same thing on a real tmpfs, if one is available below /dev/"""
    import tempfile

    base = "/dev/shm"
    if not (os.path.isdir(base) and os.access(base, os.W_OK)):
        return
    d = tempfile.mkdtemp(prefix="pyscsi-demo-", dir=base)
    path = os.path.join(d, "node")
    try:
        with _real_open(path, "wb") as f:
            f.write(b"one")
        dev = SCSIDevice(path)
        dev.execute(Cmd(1))
        f1 = last_exec()[0]
        check(os.fstat(f1.fileno()).st_ino == _real_stat(path).st_ino, "real file: handle on the node")
        with _real_open(path + ".new", "wb") as f:
            f.write(b"two")
        os.rename(path + ".new", path)  # atomically replace the node
        dev.execute(Cmd(2))
        f2 = last_exec()[0]
        check(f2 is not f1 and f1.closed and not f2.closed, "real file: stale handle closed, fresh one used")
        check(os.fstat(f2.fileno()).st_ino == _real_stat(path).st_ino, "real file: fresh handle on the new node")
        os.unlink(path)
        cnt = n_exec()
        raises(FileNotFoundError, dev.execute, Cmd(3))
        check(n_exec() == cnt, "real file: vanished node, nothing sent")
        dev.close()
        check(f2.closed, "real file: closed")
        with _real_open(path, "wb") as f:
            f.write(b"three")
        with SCSIDevice(path, True, False) as dev:
            dev.execute(Cmd(4))
            f3 = last_exec()[0]
            os.unlink(path)
            dev.execute(Cmd(5))
            check(last_exec()[0] is f3, "real file: detection off keeps the handle")
        check(f3.closed, "real file: with block closes")
    finally:
        for name in os.listdir(d):
            os.unlink(os.path.join(d, name))
        os.rmdir(d)


def main():
    scenarios = [
        scenario_constructor_opens_once,
        scenario_no_backend,
        scenario_steady_state,
        scenario_replug_sequence,
        scenario_inode_goes_back,
        scenario_stale_close_fails,
        scenario_vanished_node,
        scenario_detection_disabled,
        scenario_with_block,
        scenario_check_condition,
        scenario_many_devices,
        scenario_subclass_hooks,
        scenario_scsi_wrapper,
        scenario_init_device,
        scenario_public_names,
        scenario_real_files,
    ]
    for s in scenarios:
        try:
            s()
        except BaseException as e:  # noqa
            import traceback

            traceback.print_exc()
            check(False, "%s crashed: %r" % (s.__name__, e))
    # global bookkeeping: nothing is left open, nothing was released twice
    for h in vfs.handles:
        check(h.closed, "leaked handle %r" % (h,))
        check(h.releases == 1, "handle %r released %d times" % (h, h.releases))
    if FAILURES:
        print("FAILED: %d of %d checks" % (len(FAILURES), CHECKS[0]))
        return 1
    print("PASS (%d checks)" % CHECKS[0])
    return 0


if __name__ == "__main__":
    sys.exit(main())
