#!/usr/bin/env python
# Standalone check of property C14 through the public API of python-scsi:
#
#   Every operation code, service action and status code the library exposes
#   under a standard command name has the value T10 assigns to that name, and
#   the same name has the same value in every device-type command set that
#   lists it.  The CDB length derived from an operation code is the one its
#   group prescribes (6, 10, 12 or 16 bytes), and codes in variable-length,
#   reserved or vendor groups are refused.
#
# run as: cd /tmp/seed/C14v && PYTHONPATH=/tmp/seed/C14v /venv/bin/python SEED/demo.py

import importlib
import sys
import types

# The transports (sgio / iscsi) are optional C bindings.  Install small fakes so
# that importing the device modules never depends on what is installed.
for _name in ("sgio", "iscsi"):
    if _name not in sys.modules:
        try:
            importlib.import_module(_name)
        except ImportError:
            sys.modules[_name] = types.ModuleType(_name)

# ---------------------------------------------------------------------------
# Reference data (T10 values), written down independently of the library code.
# Every row of a command set is (key, OpCode.name, code, service actions).
# ---------------------------------------------------------------------------

PLAIN_TABLES = \
{'sa_maintenance_in': [('REPORT_ASSIGNED_UNASSIGNED_P_EXTENT', 0),
                       ('REPORT_COMPONENT_DEVICE', 1),
                       ('REPORT_COMPONENT_DEVICE_ATTACHMENTS', 2),
                       ('REPORT_DEVICE_IDENTIFICATION', 7),
                       ('REPORT_PERIPHERAL_DEVICE', 3),
                       ('REPORT_PERIPHERAL_DEVICE_ASSOCIATIONS', 4),
                       ('REPORT_PERIPHERAL_DEVICE_COMPONENT_DEVICE_IDENTIFIER', 5),
                       ('REPORT_STATES', 6),
                       ('REPORT_SUPPORTED_CONFIGURATION_METHOD', 9),
                       ('REPORT_UNCONFIGURED_CAPACITY', 8)],
 'sa_maintenance_out': [('ADD_PERIPHERAL_DEVICE_COMPONENT_DEVICE', 0),
                        ('ATTACH_TO_COMPONENT_DEVICE', 1),
                        ('BREAK_PERIPHERAL_DEVICE_COMPONENT_DEVICE', 7),
                        ('EXCHANGE_P_EXTENT', 2),
                        ('EXCHANGE_PERIPHERAL_DEVICE_COMPONENT_DEVICE', 3),
                        ('INSTRUCT_COMPONENT_DEVICE', 4),
                        ('REMOVE_PERIPHERAL_DEVICE_COMPONENT_DEVICE', 5),
                        ('SET_PERIPHERAL_DEVICE_COMPONENT_DEVICE_IDENTIFIER', 6)],
 'service_actions': [('REPORT_DEVICE_IDENTIFIER', 5),
                     ('REPORT_ALIASES', 11),
                     ('REPORT_PRIORITY', 14),
                     ('REPORT_SUPPORTED_OPERATION_CODES', 12),
                     ('REPORT_SUPPORTED_TASK_MANAGEMENT_FUNCTIONS', 13),
                     ('REPORT_TARGET_PORT_GROUPS', 10),
                     ('REPORT_TIMESTAMP', 15),
                     ('REPORT_IDENTIFYING_INFORMATION', 5),
                     ('REQUEST_DATA_TRANSFER_ELEMENT_INQUIRY', 6),
                     ('CHANGE_ALIASES', 11),
                     ('SET_DEVICE_IDENTIFIER', 6),
                     ('SET_PRIORITY', 14),
                     ('SET_TARGET_PORT_GROUPS', 10),
                     ('SET_TIMESTAMP', 15),
                     ('SET_IDENTIFYING_INFORMATION', 6),
                     ('ORWRITE_32', 14),
                     ('READ_32', 9),
                     ('VERIFY_32', 10),
                     ('WRITE_32', 11),
                     ('WRITE_AND_VERIFY_32', 12),
                     ('WRITE_SAME_32', 13),
                     ('XDREAD_32', 3),
                     ('XDWRITE_32', 4),
                     ('XDWRITEREAD_32', 7),
                     ('XPWRITE_32', 6),
                     ('GET_LBA_STATUS', 18),
                     ('READ_CAPACITY_16', 16),
                     ('REPORT_REFERRALS', 19),
                     ('OPEN_IMPORTEXPORT_ELEMENT', 0),
                     ('CLOSE_IMPORTEXPORT_ELEMENT', 1)],
 'sa_persistent_reserve_in': [('READ_KEYS', 0),
                              ('READ_RESERVATION', 1),
                              ('REPORT_CAPABILITIES', 2),
                              ('READ_FULL_STATUS', 3)],
 'sa_persistent_reserve_out': [('REGISTER', 0),
                               ('RESERVE', 1),
                               ('RELEASE', 2),
                               ('CLEAR', 3),
                               ('PREEMPT', 4),
                               ('PREEMPT_AND_ABORT', 5),
                               ('REGISTER_AND_IGNORE_EXISTING_KEY', 6),
                               ('REGISTER_AND_MOVE', 7),
                               ('REPLACE_LOST_REGISTRATION', 8)],
 'scsi_status': [('GOOD', 0),
                 ('CHECK_CONDITION', 2),
                 ('CONDITIONS_MET', 4),
                 ('BUSY', 8),
                 ('RESERVATION_CONFLICT', 24),
                 ('TASK_SET_FULL', 40),
                 ('ACA_ACTIVE', 48),
                 ('TASK_ABORTED', 64),
                 ('SGIO_ERROR', 255)],
 'opcodes': [('INQUIRY', 18),
             ('MODE_SENSE_6', 26),
             ('MOVE_MEDIUM', 165),
             ('READ_10', 40),
             ('READ_12', 168),
             ('READ_16', 136),
             ('READ_CAPACITY_10', 37),
             ('READ_ELEMENT_STATUS', 184),
             ('SERVICE_ACTION_IN', 158),
             ('TEST_UNIT_READY', 0),
             ('WRITE_10', 42),
             ('WRITE_12', 170),
             ('WRITE_16', 138),
             ('WRITE_SAME_10', 65),
             ('WRITE_SAME_16', 147)],
 'service_action_ins': [('READ_CAPACITY_16', 16), ('GET_LBA_STATUS', 18)]}
COMMAND_SETS = {
    'spc': [
        ('SPC_OPCODE_A4', 'SPC_OPCODE_A4', 0xA4, 'service_actions'),
        ('SPC_OPCODE_A3', 'SPC_OPCODE_A3', 0xA3, 'service_actions'),
        ('ACCESS_CONTROL_IN', 'ACCESS_CONTROL_IN', 0x86, []),
        ('ACCESS_CONTROL_OUT', 'ACCESS_CONTROL_OUT', 0x87, []),
        ('EXTENDED_COPY', 'EXTENDED_COPY', 0x83, []),
        ('INQUIRY', 'INQUIRY', 0x12, []),
        ('LOG_SELECT', 'LOG_SELECT', 0x4C, []),
        ('LOG_SENSE', 'LOG_SENSE', 0x4D, []),
        ('MODE_SELECT_6', 'MODE_SELECT_6', 0x15, []),
        ('MODE_SELECT_10', 'MODE_SELECT_10', 0x55, []),
        ('MODE_SENSE_6', 'MODE_SENSE_6', 0x1A, []),
        ('MODE_SENSE_10', 'MODE_SENSE_10', 0x5A, []),
        ('PERSISTENT_RESERVE_IN', 'PERSISTENT_RESERVE_IN', 0x5E, 'sa_persistent_reserve_in'),
        ('PERSISTENT_RESERVE_OUT', 'PERSISTENT_RESERVE_OUT', 0x5F, 'sa_persistent_reserve_out'),
        ('PREVENT_ALLOW_MEDIUM_REMOVAL', 'PREVENT_ALLOW_MEDIUM_REMOVAL', 0x1E, []),
        ('READ_ATTRIBUTE', 'READ_ATTRIBUTE', 0x8C, []),
        ('READ_BUFFER_10', 'READ_BUFFER_10', 0x3C, []),
        ('READ_BUFFER_16', 'READ_BUFFER_16', 0x9B, []),
        ('READ_MEDIA_SERIAL_NUMBER', 'READ_MEDIA_SERIAL_NUMBER', 0xAB, [('READ_MEDIA_SERIAL_NUMBER', 1)]),
        ('RECEIVE_COPY_RESULTS', 'RECEIVE_COPY_RESULTS', 0x84, []),
        ('RECEIVE_DIAGNOSTIC_RESULTS', 'RECEIVE_DIAGNOSTIC_RESULTS', 0x1C, []),
        ('REPORT_LUNS', 'REPORT_LUNS', 0xA0, []),
        ('REQUEST_SENSE', 'REQUEST_SENSE', 0x03, []),
        ('SEND_DIAGNOSTIC', 'SEND_DIAGNOSTIC', 0x1D, []),
        ('TEST_UNIT_READY', 'TEST_UNIT_READY', 0x00, []),
        ('WRITE_ATTRIBUTE', 'WRITE_ATTRIBUTE', 0x8D, []),
        ('WRITE_BUFFER', 'WRITE_BUFFER', 0x3B, []),
    ],
    'sbc': [
        ('SBC_OPCODE_7F', 'SBC_OPCODE_7F', 0x7F, 'service_actions'),
        ('SBC_OPCODE_A4', 'SBC_OPCODE_A4', 0xA4, 'service_actions'),
        ('SBC_OPCODE_A3', 'SBC_OPCODE_A3', 0xA3, 'service_actions'),
        ('SBC_OPCODE_9E', 'SBC_OPCODE_9E', 0x9E, 'service_actions'),
        ('ACCESS_CONTROL_IN', 'ACCESS_CONTROL_IN', 0x86, []),
        ('ACCESS_CONTROL_OUT', 'ACCESS_CONTROL_OUT', 0x87, []),
        ('ATA_PASS_THROUGH_12', 'ATA_PASS_THROUGH_12', 0xA1, []),
        ('ATA_PASS_THROUGH_16', 'ATA_PASS_THROUGH_16', 0x85, []),
        ('COMPARE_AND_WRITE', 'COMPARE_AND_WRITE', 0x89, []),
        ('EXTENDED_COPY', 'EXTENDED_COPY', 0x83, []),
        ('FORMAT_UNIT', 'FORMAT_UNIT', 0x04, []),
        ('INQUIRY', 'INQUIRY', 0x12, []),
        ('LOG_SELECT', 'LOG_SELECT', 0x4C, []),
        ('LOG_SENSE', 'LOG_SENSE', 0x4D, []),
        ('MAINTENANCE_IN', 'MAINTENANCE_IN', 0xA3, 'sa_maintenance_in'),
        ('MAINTENANCE_OUT', 'MAINTENANCE_OUT', 0xA4, 'sa_maintenance_out'),
        ('MODE_SELECT_6', 'MODE_SELECT_6', 0x15, []),
        ('MODE_SELECT_10', 'MODE_SELECT_10', 0x55, []),
        ('MODE_SENSE_6', 'MODE_SENSE_6', 0x1A, []),
        ('MODE_SENSE_10', 'MODE_SENSE_10', 0x5A, []),
        ('ORWRITE_16', 'ORWRITE_16', 0x8B, []),
        ('PERSISTENT_RESERVE_IN', 'PERSISTENT_RESERVE_IN', 0x5E, 'sa_persistent_reserve_in'),
        ('PERSISTENT_RESERVE_OUT', 'PERSISTENT_RESERVE_OUT', 0x5F, 'sa_persistent_reserve_out'),
        ('PRE_FETCH_10', 'PRE_FETCH_10', 0x34, []),
        ('PRE_FETCH_16', 'PRE_FETCH_16', 0x90, []),
        ('PREVENT_ALLOW_MEDIUM_REMOVAL', 'PREVENT_ALLOW_MEDIUM_REMOVAL', 0x1E, []),
        ('READ_6', 'READ_6', 0x08, []),
        ('READ_10', 'READ_10', 0x28, []),
        ('READ_12', 'READ_12', 0xA8, []),
        ('READ_16', 'READ_16', 0x88, []),
        ('READ_ATTRIBUTE', 'READ_ATTRIBUTE', 0x8C, []),
        ('READ_BUFFER_10', 'READ_BUFFER_10', 0x3C, []),
        ('READ_BUFFER_16', 'READ_BUFFER_16', 0x9B, []),
        ('READ_CAPACITY_10', 'READ_CAPACITY_10', 0x25, []),
        ('READ_DEFECT_DATA_10', 'READ_DEFECT_DATA_10', 0x37, []),
        ('READ_DEFECT_DATA_12', 'READ_DEFECT_DATA_12', 0xB7, []),
        ('READ_LONG_10', 'READ_LONG_10', 0x3E, []),
        ('READ_LONG_16', 'READ_LONG_16', 0x9E, [('READ_LONG_16', 17)]),
        ('REASSIGN_BLOCKS', 'REASSIGN_BLOCKS', 0x07, []),
        ('RECEIVE_COPY_RESULTS', 'RECEIVE_COPY_RESULTS', 0x84, []),
        ('RECEIVE_DIAGNOSTIC_RESULTS', 'RECEIVE_DIAGNOSTIC_RESULTS', 0x1C, []),
        ('REDUNDANCY_GROUP_IN', 'REDUNDANCY_GROUP_IN', 0xBA, []),
        ('REDUNDANCY_GROUP_OUT', 'REDUNDANCY_GROUP_OT', 0xBB, []),
        ('REPORT_LUNS', 'REPORT_LUNS', 0xA0, []),
        ('REQUEST_SENSE', 'REQUEST_SENSE', 0x03, []),
        ('SECURITY_PROTOCOL_IN', 'SECURITY_PROTOCOL_IN', 0xA2, []),
        ('SECURITY_PROTOCOL_OUT', 'SECURITY_PROTOCOL_OUT', 0xB5, []),
        ('SEND_DIAGNOSTIC', 'SEND_DIAGNOSTIC', 0x1D, []),
        ('SPARE_IN', 'SPARE_IN', 0xBC, []),
        ('SPARE_OUT', 'SPARE_OUT', 0xBD, []),
        ('START_STOP_UNIT', 'START_STOP_UNIT', 0x1B, []),
        ('SYNCHRONIZE_CACHE_10', 'SYNCHRONIZE_CACHE_10', 0x35, []),
        ('SYNCHRONIZE_CACHE_16', 'SYNCHRONIZE_CACHE_16', 0x91, []),
        ('TEST_UNIT_READY', 'TEST_UNIT_READY', 0x00, []),
        ('UNMAP', 'UNMAP', 0x42, []),
        ('VERIFY_10', 'VERIFY_10', 0x2F, []),
        ('VERIFY_12', 'VERIFY_12', 0xAF, []),
        ('VERIFY_16', 'VERIFY_16', 0x8F, []),
        ('VOLUME_SET_IN', 'VOLUME_SET_IN', 0xBE, []),
        ('VOLUME_SET_OUT', 'VOLUME_SET_OUT', 0xBF, []),
        ('WRITE_6', 'WRITE_6', 0x0A, []),
        ('WRITE_10', 'WRITE_10', 0x2A, []),
        ('WRITE_12', 'WRITE_12', 0xAA, []),
        ('WRITE_16', 'WRITE_16', 0x8A, []),
        ('WRITE_AND_VERIFY_10', 'WRITE_AND_VERIFY_10', 0x2E, []),
        ('WRITE_AND_VERIFY_12', 'WRITE_AND_VERIFY_12', 0xAE, []),
        ('WRITE_AND_VERIFY_16', 'WRITE_AND_VERIFY_16', 0x8E, []),
        ('WRITE_ATTRIBUTE', 'WRITE_ATTRIBUTE', 0x8D, []),
        ('WRITE_BUFFER', 'WRITE_BUFFER', 0x3B, []),
        ('WRITE_LONG_10', 'WRITE_LONG_10', 0x3F, []),
        ('WRITE_LONG_16', 'WRITE_LONG_16', 0x9F, [('WRITE_LONG_16', 17)]),
        ('WRITE_SAME_10', 'WRITE_SAME_10', 0x41, []),
        ('WRITE_SAME_16', 'WRITE_SAME_16', 0x93, []),
        ('XDREAD_10', 'XDREAD_10', 0x52, []),
        ('XDWRITE_10', 'XDWRITE_10', 0x50, []),
        ('XDWRITEREAD_10', 'XDWRITEREAD_10', 0x53, []),
        ('XPWRITE_10', 'XPWRITE_10', 0x51, []),
    ],
    'ssc': [
        ('SSC_OPCODE_A4', 'SSC_OPCODE_A4', 0xA4, 'service_actions'),
        ('SSC_OPCODE_A3', 'SSC_OPCODE_A3', 0xA3, 'service_actions'),
        ('ACCESS_CONTROL_IN', 'ACCESS_CONTROL_IN', 0x86, []),
        ('ACCESS_CONTROL_OUT', 'ACCESS_CONTROL_OUT', 0x87, []),
        ('ERASE_16', 'ERASE_16', 0x93, []),
        ('EXTENDED_COPY', 'EXTENDED_COPY', 0x83, []),
        ('FORMAT_MEDIUM', 'FORMAT_MEDIUM', 0x04, []),
        ('INQUIRY', 'INQUIRY', 0x12, []),
        ('LOAD_UNLOAD', 'LOAD_UNLOAD', 0x1B, []),
        ('LOCATE_16', 'LOCATE_16', 0x92, []),
        ('LOG_SELECT', 'LOG_SELECT', 0x4C, []),
        ('LOG_SENSE', 'LOG_SENSE', 0x4D, []),
        ('MODE_SELECT_6', 'MODE_SELECT_6', 0x15, []),
        ('MODE_SELECT_10', 'MODE_SELECT_10', 0x55, []),
        ('MODE_SENSE_6', 'MODE_SENSE_6', 0x1A, []),
        ('MODE_SENSE_10', 'MODE_SENSE_10', 0x5A, []),
        ('MOVE_MEDIUM_ATTACHED', 'MOVE_MEDIUM_ATTACHED', 0xA7, []),
        ('PERSISTENT_RESERVE_IN', 'PERSISTENT_RESERVE_IN', 0x5E, 'sa_persistent_reserve_in'),
        ('PERSISTENT_RESERVE_OUT', 'PERSISTENT_RESERVE_OUT', 0x5F, 'sa_persistent_reserve_out'),
        ('PREVENT_ALLOW_MEDIUM_REMOVAL', 'PREVENT_ALLOW_MEDIUM_REMOVAL', 0x1E, []),
        ('READ_6', 'READ_6', 0x08, []),
        ('READ_16', 'READ_16', 0x88, []),
        ('READ_ATTRIBUTE', 'READ_ATTRIBUTE', 0x8C, []),
        ('READ_BLOCK_LIMITS', 'READ_BLOCK_LIMITS', 0x05, []),
        ('READ_BUFFER_10', 'READ_BUFFER_10', 0x3C, []),
        ('READ_BUFFER_16', 'READ_BUFFER_16', 0x9B, []),
        ('READ_ELEMENT_STATUS_ATTACHED', 'READ_ELEMENT_STATUS_ATTACHED', 0xB4, []),
        ('READ_POSITION', 'READ_POSITION', 0x34, []),
        ('READ_REVERSE_6', 'READ_REVERSE_6', 0x0F, []),
        ('READ_REVERSE_16', 'READ_REVERSE_16', 0x81, []),
        ('RECEIVE_COPY_RESULTS', 'RECEIVE_COPY_RESULTS', 0x84, []),
        ('RECEIVE_DIAGNOSTIC_RESULTS', 'RECEIVE_DIAGNOSTIC_RESULTS', 0x1C, []),
        ('RECOVER_BUFFERED_DATA', 'RECOVER_BUFFERED_DATA', 0x14, []),
        ('REPORT_ALIAS', 'REPORT_ALIAS', 0xA3, [('REPORT_ALIAS', 11)]),
        ('REPORT_DENSITY_SUPPORT', 'REPORT_DENSITY_SUPPORT', 0x44, []),
        ('REPORT_LUNS', 'REPORT_LUNS', 0xA0, []),
        ('REQUEST_SENSE', 'REQUEST_SENSE', 0x03, []),
        ('REWIND', 'REWIND', 0x01, []),
        ('SEND_DIAGNOSTIC', 'SEND_DIAGNOSTIC', 0x1D, []),
        ('SET_CAPACITY', 'SET_CAPACITY', 0x0B, []),
        ('SPACE_6', 'SPACE_6', 0x11, []),
        ('SPACE_16', 'SPACE_16', 0x91, []),
        ('TEST_UNIT_READY', 'TEST_UNIT_READY', 0x00, []),
        ('VERIFY_6', 'VERIFY_6', 0x13, []),
        ('VERIFY_16', 'VERIFY_16', 0x8F, []),
        ('WRITE_6', 'WRITE_6', 0x0A, []),
        ('WRITE_16', 'WRITE_16', 0x8A, []),
        ('WRITE_ATTRIBUTE', 'WRITE_ATTRIBUTE', 0x8D, []),
        ('WRITE_BUFFER', 'WRITE_BUFFER', 0x3B, []),
        ('WRITE_FILEMARKS_6', 'WRITE_FILEMARKS_6', 0x10, []),
        ('WRITE_FILEMARKS_16', 'WRITE_FILEMARKS_16', 0x80, []),
    ],
    'smc': [
        ('SMC_OPCODE_A4', 'SMC_OPCODE_A4', 0xA4, 'service_actions'),
        ('SMC_OPCODE_A3', 'SMC_OPCODE_A3', 0xA3, 'service_actions'),
        ('ACCESS_CONTROL_IN', 'ACCESS_CONTROL_IN', 0x86, []),
        ('ACCESS_CONTROL_OUT', 'ACCESS_CONTROL_OUT', 0x87, []),
        ('EXCHANGE_MEDIUM', 'EXCHANGE_MEDIUM', 0xA6, []),
        ('INITIALIZE_ELEMENT_STATUS', 'INITIALIZE_ELEMENT_STATUS', 0x07, []),
        ('INITIALIZE_ELEMENT_STATUS_WITH_RANGE', 'INITIALIZE_ELEMENT_STATUS_WITH_RANGE', 0x37, []),
        ('INQUIRY', 'INQUIRY', 0x12, []),
        ('LOG_SELECT', 'LOG_SELECT', 0x4C, []),
        ('LOG_SENSE', 'LOG_SENSE', 0x4D, []),
        ('MAINTENANCE_IN', 'MAINTENANCE_IN', 0xA3, 'sa_maintenance_in'),
        ('MAINTENANCE_OUT', 'MAINTENANCE_OUT', 0xA4, 'sa_maintenance_out'),
        ('MODE_SELECT_6', 'MODE_SELECT_6', 0x15, []),
        ('MODE_SELECT_10', 'MODE_SELECT_10', 0x55, []),
        ('MODE_SENSE_6', 'MODE_SENSE_6', 0x1A, []),
        ('MODE_SENSE_10', 'MODE_SENSE_10', 0x5A, []),
        ('MOVE_MEDIUM', 'MOVE_MEDIUM', 0xA5, []),
        ('OPEN_CLOSE_IMPORT_EXPORT_ELEMENT', 'SMC_OPCODE_1B', 0x1B, 'service_actions'),
        ('PERSISTENT_RESERVE_IN', 'PERSISTENT_RESERVE_IN', 0x5E, 'sa_persistent_reserve_in'),
        ('PERSISTENT_RESERVE_OUT', 'PERSISTENT_RESERVE_OUT', 0x5F, 'sa_persistent_reserve_out'),
        ('PREVENT_ALLOW_MEDIUM_REMOVAL', 'PREVENT_ALLOW_MEDIUM_REMOVAL', 0x1E, []),
        ('POSITION_TO_ELEMENT', 'POSITION_TO_ELEMENT', 0x2B, []),
        ('READ_ATTRIBUTE', 'READ_ATTRIBUTE', 0x8C, []),
        ('READ_BUFFER_10', 'READ_BUFFER_10', 0x3C, []),
        ('READ_BUFFER_16', 'READ_BUFFER_16', 0x9B, []),
        ('READ_ELEMENT_STATUS', 'READ_ELEMENT_STATUS', 0xB8, []),
        ('RECEIVE_DIAGNOSTIC_RESULTS', 'RECEIVE_DIAGNOSTIC_RESULTS', 0x1C, []),
        ('REDUNDANCY_GROUP_IN', 'REDUNDANCY_GROUP_IN', 0xBA, []),
        ('REDUNDANCY_GROUP_OUT', 'REDUNDANCY_GROUP_OUT', 0xBB, []),
        ('RELEASE_6', 'RELEASE_6', 0x17, []),
        ('RELEASE_10', 'RELEASE_10', 0x57, []),
        ('REPORT_LUNS', 'REPORT_LUNS', 0xA0, []),
        ('REPORT_VOLUME_TYPES_SUPPORTED', 'REPORT_VOLUME_TYPES_SUPPORTED', 0x44, []),
        ('REQUEST_VOLUME_ELEMENT_ADDRESS', 'REQUEST_VOLUME_ELEMENT_ADDRESS', 0xB5, []),
        ('REQUEST_SENSE', 'REQUEST_SENSE', 0x03, []),
        ('RESERVE_6', 'RESERVE_6', 0x16, []),
        ('RESERVE_10', 'RESERVE_10', 0x56, []),
        ('SEND_DIAGNOSTIC', 'SEND_DIAGNOSTIC', 0x1D, []),
        ('SEND_VOLUME_TAG', 'SEND_VOLUME_TAG', 0xB6, []),
        ('SPARE_IN', 'SPARE_IN', 0xBC, []),
        ('SPARE_OUT', 'SPARE_OUT', 0xBD, []),
        ('TEST_UNIT_READY', 'TEST_UNIT_READY', 0x00, []),
        ('VOLUME_SET_IN', 'VOLUME_SET_IN', 0xBE, []),
        ('VOLUME_SET_OUT', 'VOLUME_SET_OUT', 0xBF, []),
        ('WRITE_ATTRIBUTE', 'WRITE_ATTRIBUTE', 0x8D, []),
        ('WRITE_BUFFER', 'WRITE_BUFFER', 0x3B, []),
    ],
    'mmc': [
        ('BLANK', 'BLANK', 0xA1, []),
        ('CLOSE_TRACK_SESSION', 'CLOSE_TRACK_SESSION', 0x5B, []),
        ('FORMAT_UNIT', 'FORMAT_UNIT', 0x04, []),
        ('GET_CONFIGURATION', 'GET_CONFIGURATION', 0x46, []),
        ('GET_EVENT_STATUS_NOTIFICATION', 'GET_EVENT_STATUS_NOTIFICATION', 0x4A, []),
        ('GET_PERFORMANCE', 'GET_PERFORMANCE', 0xAC, []),
        ('INQUIRY', 'INQUIRY', 0x12, []),
        ('LOAD_UNLOAD_MEDIUM', 'LOAD_UNLOAD_MEDIUM', 0xA6, []),
        ('MECHANISM_STATUS', 'MECHANISM_STATUS', 0xBD, []),
        ('MODE_SELECT_10', 'MODE_SELECT_10', 0x55, []),
        ('MODE_SENSE_10', 'MODE_SENSE_10', 0x5A, []),
        ('PREVENT_ALLOW_MEDIUM_REMOVAL', 'PREVENT_ALLOW_MEDIUM_REMOVAL', 0x1E, []),
        ('READ_10', 'READ_10', 0x28, []),
        ('READ_12', 'READ_12', 0xA8, []),
        ('READ_BUFFER_10', 'READ_BUFFER_10', 0x3C, []),
        ('READ_BUFFER_16', 'READ_BUFFER_16', 0x9B, []),
        ('READ_BUFFER_CAPACITY', 'READ_BUFFER_CAPACITY', 0x5C, []),
        ('READ_CAPACITY', 'READ_CAPACITY', 0x25, []),
        ('READ_CD', 'READ_CD', 0xBE, []),
        ('READ_CD_MSF', 'READ_CD_MSF', 0xB9, []),
        ('READ_DISC_INFORMATION', 'READ_DISC_INFORMATION', 0x51, []),
        ('READ_DISC_STRUCTURE', 'READ_DISC_STRUCTURE', 0xAD, []),
        ('READ_FORMAT_CAPACITIES', 'READ_FORMAT_CAPACITIES', 0x23, []),
        ('READ_TOC_PMA_ATIP', 'READ_TOC_PMA_ATIP', 0x43, []),
        ('READ_TRACK_INFORMATION', 'READ_TRACK_INFORMATION', 0x52, []),
        ('REPAIR_TRACK', 'REPAIR_TRACK', 0x58, []),
        ('REPORT_KEY', 'REPORT_KEY', 0xA4, []),
        ('REPORT_LUNS', 'REPORT_LUNS', 0xA0, []),
        ('REQUEST_SENSE', 'REQUEST_SENSE', 0x03, []),
        ('RESERVE_TRACK', 'RESERVE_TRACK', 0x53, []),
        ('SECURITY_PROTOCOL_IN', 'SECURITY_PROTOCOL_IN', 0xA2, []),
        ('SECURITY_PROTOCOL_OUT', 'SECURITY_PROTOCOL_OUT', 0xB5, []),
        ('SEEK_10', 'SEEK_10', 0x2B, []),
        ('SEND_CUE_SHEET', 'SEND_CUE_SHEET', 0x5D, []),
        ('SEND_DISC_STRUCTURE', 'SEND_DISC_STRUCTURE', 0xBF, []),
        ('SEND_KEY', 'SEND_KEY', 0xA3, []),
        ('SEND_OPC_INFORMATION', 'SEND_OPC_INFORMATION', 0x54, []),
        ('SET_CD_SPEED', 'SET_CD_SPEED', 0xBB, []),
        ('SET_READ_AHEAD', 'SET_READ_AHEAD', 0xA7, []),
        ('SET_STREAMING', 'SET_STREAMING', 0xB6, []),
        ('START_STOP_UNIT', 'START_STOP_UNIT', 0x1B, []),
        ('SYNCHRONIZE_CACHE', 'SYNCHRONIZE_CACHE', 0x35, []),
        ('TEST_UNIT_READY', 'TEST_UNIT_READY', 0x00, []),
        ('VERIFY_10', 'VERIFY_10', 0x2F, []),
        ('WRITE_10', 'WRITE_10', 0x2A, []),
        ('WRITE_12', 'WRITE_12', 0xAA, []),
        ('WRITE_AND_VERIFY_10', 'WRITE_AND_VERIFY_10', 0x2E, []),
        ('WRITE_BUFFER', 'WRITE_BUFFER', 0x3B, []),
    ],
}

# T10 group code (top three bits of the operation code) -> CDB length
GROUP_LENGTH = {0: 6, 1: 10, 2: 10, 4: 16, 5: 12}  # 3 variable, 6/7 vendor


def expected_cdb_length(code):
    """CDB length for an operation code or None when it has to be refused"""
    if code < 0 or code > 0xFF:
        return None
    return GROUP_LENGTH.get(code >> 5)


CHECKS = 0
FAILURES = []


def check(cond, msg):
    global CHECKS
    CHECKS += 1
    if not cond:
        FAILURES.append(msg)
        if len(FAILURES) <= 40:
            print("FAIL:", msg)


def check_eq(got, want, msg):
    check(got == want, "%s: got %r, want %r" % (msg, got, want))


def sa_rows(sa):
    """resolve a service action reference of the reference data"""
    return PLAIN_TABLES[sa] if isinstance(sa, str) else sa


def enum_items(enum):
    return [(key, getattr(enum, key)) for key in enum.keys]


# ---------------------------------------------------------------------------
# 1. imports: every public name, through every import style
# ---------------------------------------------------------------------------
import pyscsi.pyscsi.scsi_enum_command as sec  # noqa: E402
from pyscsi.pyscsi import scsi_enum_command as sec2  # noqa: E402
from pyscsi.pyscsi.scsi_command import SCSICommand  # noqa: E402
from pyscsi.pyscsi.scsi_enum_command import (  # noqa: E402
    OPCODE,
    SCSI_STATUS,
    SERVICE_ACTION_IN,
    mmc,
    sbc,
    smc,
    spc,
    ssc,
)
from pyscsi.pyscsi.scsi_enum_command import (  # noqa: E402
    mmc_opcodes,
    opcodes,
    sa_maintenance_in,
    sa_maintenance_out,
    sa_persistent_reserve_in,
    sa_persistent_reserve_out,
    sbc_opcodes,
    scsi_status,
    service_action_ins,
    service_actions,
    smc_opcodes,
    spc_opcodes,
    ssc_opcodes,
)
from pyscsi.pyscsi.scsi_opcode import OpCode  # noqa: E402
from pyscsi.utils.enum import Enum  # noqa: E402
from pyscsi.utils.exception import NotSupportedArgumentError  # noqa: E402

check(sec is sec2, "module identity")
SETS = {"spc": spc, "sbc": sbc, "ssc": ssc, "smc": smc, "mmc": mmc}
SET_DICTS = {
    "spc": spc_opcodes,
    "sbc": sbc_opcodes,
    "ssc": ssc_opcodes,
    "smc": smc_opcodes,
    "mmc": mmc_opcodes,
}
for set_name, enum in SETS.items():
    check(getattr(sec, set_name) is enum, "sec.%s is the imported object" % set_name)
    check(
        getattr(sec, set_name + "_opcodes") is SET_DICTS[set_name],
        "sec.%s_opcodes is the imported object" % set_name,
    )
    check(isinstance(enum, Enum), "%s is an Enum" % set_name)
    check(type(SET_DICTS[set_name]) is dict, "%s_opcodes is a dict" % set_name)
for attr, obj in (
    ("SCSI_STATUS", SCSI_STATUS),
    ("OPCODE", OPCODE),
    ("SERVICE_ACTION_IN", SERVICE_ACTION_IN),
    ("scsi_status", scsi_status),
    ("opcodes", opcodes),
    ("service_action_ins", service_action_ins),
    ("service_actions", service_actions),
    ("sa_maintenance_in", sa_maintenance_in),
    ("sa_maintenance_out", sa_maintenance_out),
    ("sa_persistent_reserve_in", sa_persistent_reserve_in),
    ("sa_persistent_reserve_out", sa_persistent_reserve_out),
):
    check(getattr(sec, attr) is obj, "sec.%s is the imported object" % attr)
    check(getattr(sec, attr) is getattr(sec, attr), "sec.%s is stable" % attr)
star = {}
exec("from pyscsi.pyscsi.scsi_enum_command import *", star)  # pylint: disable=exec-used
for attr in (
    "spc sbc ssc smc mmc SCSI_STATUS OPCODE SERVICE_ACTION_IN spc_opcodes sbc_opcodes "
    "ssc_opcodes smc_opcodes mmc_opcodes scsi_status opcodes service_action_ins "
    "service_actions sa_maintenance_in sa_maintenance_out sa_persistent_reserve_in "
    "sa_persistent_reserve_out OpCode Enum"
).split():
    check(attr in star, "star import provides %s" % attr)
    check(star.get(attr) is getattr(sec, attr), "star import of %s is the same object" % attr)
    check(attr in dir(sec), "dir() lists %s" % attr)
try:
    sec.no_such_command_set
except AttributeError:
    check(True, "")
else:
    check(False, "unknown module attribute must raise AttributeError")
check(not hasattr(sec, "scc"), "hasattr on an unknown command set")

# ---------------------------------------------------------------------------
# 2. plain tables: service actions, status codes and the obsolete tables
# ---------------------------------------------------------------------------
for table_name, rows in PLAIN_TABLES.items():
    table = getattr(sec, table_name)
    check(type(table) is dict, "%s is a dict" % table_name)
    check_eq(list(table.items()), rows, "table %s" % table_name)
    for _key, value in rows:
        check(type(value) is int, "%s.%s is an int" % (table_name, _key))

for enum_name, table_name in (
    ("SCSI_STATUS", "scsi_status"),
    ("OPCODE", "opcodes"),
    ("SERVICE_ACTION_IN", "service_action_ins"),
):
    enum = getattr(sec, enum_name)
    check(isinstance(enum, Enum), "%s is an Enum" % enum_name)
    check_eq(enum_items(enum), PLAIN_TABLES[table_name], "enum %s" % enum_name)
    seen = set()
    for key, value in PLAIN_TABLES[table_name]:
        check_eq(getattr(enum, key), value, "%s.%s" % (enum_name, key))
        if value not in seen:
            check_eq(enum[value], key, "%s[%#x]" % (enum_name, value))
        seen.add(value)
    for value in range(-2, 0x102):
        if value not in seen:
            check_eq(enum[value], "", "%s[%#x] (unassigned)" % (enum_name, value))

# status codes as SAM defines them
check_eq(SCSI_STATUS.GOOD, 0x00, "GOOD")
check_eq(SCSI_STATUS.CHECK_CONDITION, 0x02, "CHECK CONDITION")
check_eq(SCSI_STATUS.CONDITIONS_MET, 0x04, "CONDITION MET")
check_eq(SCSI_STATUS.BUSY, 0x08, "BUSY")
check_eq(SCSI_STATUS.RESERVATION_CONFLICT, 0x18, "RESERVATION CONFLICT")
check_eq(SCSI_STATUS.TASK_SET_FULL, 0x28, "TASK SET FULL")
check_eq(SCSI_STATUS.ACA_ACTIVE, 0x30, "ACA ACTIVE")
check_eq(SCSI_STATUS.TASK_ABORTED, 0x40, "TASK ABORTED")
check_eq(SCSI_STATUS[0x02], "CHECK_CONDITION", "status name lookup")
check_eq(SCSI_STATUS[0x03], "", "unknown status name lookup")

# ---------------------------------------------------------------------------
# 3. command sets: names, codes, service actions, key order
# ---------------------------------------------------------------------------
T10 = {}  # name -> (code, service action rows), over all command sets
for set_name, rows in COMMAND_SETS.items():
    enum = SETS[set_name]
    table = SET_DICTS[set_name]
    check_eq(enum.keys, [row[0] for row in rows], "%s.keys" % set_name)
    check_eq(list(table), [row[0] for row in rows], "%s_opcodes keys" % set_name)
    for key, name, code, sa in rows:
        where = "%s.%s" % (set_name, key)
        sa = sa_rows(sa)
        op = getattr(enum, key)
        check(type(op) is OpCode, where + " is an OpCode")
        check(table[key] is op, where + " is the object stored in the dict")
        check(getattr(enum, key) is op, where + " is stable")
        check_eq(op.name, name, where + ".name")
        check_eq(op.value, code, where + ".value")
        check(type(op.value) is int, where + ".value is an int")
        check_eq(str(op), "%s - %x" % (name, code), "str(%s)" % where)
        check_eq(repr(op), "%s - %x" % (name, code), "repr(%s)" % where)
        check(isinstance(op.serviceaction, Enum), where + ".serviceaction is an Enum")
        check_eq(enum_items(op.serviceaction), sa, where + ".serviceaction")
        for sa_key, sa_value in sa:
            check_eq(
                getattr(op.serviceaction, sa_key),
                sa_value,
                "%s.serviceaction.%s" % (where, sa_key),
            )
        # the same name must mean the same thing in every command set
        if key in T10:
            check_eq((code, sa), T10[key], where + " agrees with the other sets")
            check_eq((op.value, enum_items(op.serviceaction)), T10[key], where)
        else:
            T10[key] = (code, sa)
        # reverse lookup by number never matches an OpCode object
        check_eq(enum[code], "", "%s[%#x]" % (set_name, code))
        check_eq(enum[op], key, "%s[%s]" % (set_name, key))
        # CDB length of the group
        want = expected_cdb_length(code)
        if want is None:
            try:
                SCSICommand.init_cdb(op)
            except SCSICommand.OpcodeException:
                check(True, "")
            else:
                check(False, where + " must be refused")
        else:
            check_eq(SCSICommand.init_cdb(op), bytearray(want), where + " cdb")

# every pair of command sets agrees on shared names, objects are not shared
names = list(SETS)
for i, a in enumerate(names):
    for b in names[i + 1 :]:
        shared = set(SETS[a].keys) & set(SETS[b].keys)
        check(len(shared) >= 9, "%s and %s share commands" % (a, b))
        for key in sorted(shared):
            op_a, op_b = getattr(SETS[a], key), getattr(SETS[b], key)
            check_eq(op_a.value, op_b.value, "%s: %s vs %s" % (key, a, b))
            check_eq(
                enum_items(op_a.serviceaction),
                enum_items(op_b.serviceaction),
                "%s service actions: %s vs %s" % (key, a, b),
            )
            check(op_a is not op_b, "%s objects of %s and %s are distinct" % (key, a, b))
            check(
                op_a.serviceaction is not op_b.serviceaction,
                "%s service action enums of %s and %s are distinct" % (key, a, b),
            )

# the obsolete tables agree with the command sets
for key, value in PLAIN_TABLES["opcodes"]:
    for set_name, enum in SETS.items():
        if key in enum.keys:
            check_eq(getattr(enum, key).value, value, "OPCODE.%s vs %s" % (key, set_name))
check_eq(OPCODE.SERVICE_ACTION_IN, sbc.SBC_OPCODE_9E.value, "SERVICE ACTION IN")
for key, value in PLAIN_TABLES["service_action_ins"]:
    check_eq(service_actions[key], value, "SERVICE_ACTION_IN.%s" % key)
    check_eq(getattr(sbc.SBC_OPCODE_9E.serviceaction, key), value, "9E/%s" % key)

# a handful of well known T10 numbers spelled out
WELL_KNOWN = {
    "TEST_UNIT_READY": 0x00,
    "REQUEST_SENSE": 0x03,
    "INQUIRY": 0x12,
    "MODE_SELECT_6": 0x15,
    "MODE_SENSE_6": 0x1A,
    "START_STOP_UNIT": 0x1B,
    "READ_CAPACITY_10": 0x25,
    "READ_10": 0x28,
    "WRITE_10": 0x2A,
    "SYNCHRONIZE_CACHE_10": 0x35,
    "WRITE_SAME_10": 0x41,
    "UNMAP": 0x42,
    "LOG_SENSE": 0x4D,
    "MODE_SENSE_10": 0x5A,
    "PERSISTENT_RESERVE_IN": 0x5E,
    "PERSISTENT_RESERVE_OUT": 0x5F,
    "READ_16": 0x88,
    "WRITE_16": 0x8A,
    "WRITE_SAME_16": 0x93,
    "REPORT_LUNS": 0xA0,
    "MAINTENANCE_IN": 0xA3,
    "MAINTENANCE_OUT": 0xA4,
    "MOVE_MEDIUM": 0xA5,
    "EXCHANGE_MEDIUM": 0xA6,
    "READ_12": 0xA8,
    "WRITE_12": 0xAA,
    "READ_ELEMENT_STATUS": 0xB8,
    "READ_CD": 0xBE,
}
for key, value in WELL_KNOWN.items():
    found = 0
    for set_name, enum in SETS.items():
        if key in enum.keys:
            found += 1
            check_eq(getattr(enum, key).value, value, "%s.%s" % (set_name, key))
    check(found > 0, "%s is listed somewhere" % key)
check_eq(sbc.SBC_OPCODE_9E.serviceaction.READ_CAPACITY_16, 0x10, "READ CAPACITY(16)")
check_eq(sbc.SBC_OPCODE_9E.serviceaction.GET_LBA_STATUS, 0x12, "GET LBA STATUS")
check_eq(spc.SPC_OPCODE_A3.serviceaction.REPORT_TARGET_PORT_GROUPS, 0x0A, "RTPG")
check_eq(spc.SPC_OPCODE_A3.serviceaction.REPORT_PRIORITY, 0x0E, "REPORT PRIORITY")
check_eq(spc.SPC_OPCODE_A3.serviceaction.REPORT_SUPPORTED_OPERATION_CODES, 0x0C, "RSOC")
check_eq(spc.PERSISTENT_RESERVE_IN.serviceaction.READ_FULL_STATUS, 0x03, "PRIN")
check_eq(spc.PERSISTENT_RESERVE_OUT.serviceaction.REGISTER_AND_MOVE, 0x07, "PROUT")
check_eq(smc.MAINTENANCE_IN.serviceaction.REPORT_DEVICE_IDENTIFICATION, 0x07, "MI")
check_eq(sbc.SBC_OPCODE_7F.serviceaction.READ_32, 0x0009, "READ(32)")
check_eq(sbc.SBC_OPCODE_7F.serviceaction.WRITE_SAME_32, 0x000D, "WRITE SAME(32)")

# ---------------------------------------------------------------------------
# 4. CDB length by group, for every conceivable operation code
# ---------------------------------------------------------------------------
from pyscsi.pyscsi.scsi_cdb_read10 import Read10  # noqa: E402
from pyscsi.pyscsi.scsi_cdb_testunitready import TestUnitReady  # noqa: E402

check(issubclass(SCSICommand.OpcodeException, Exception), "OpcodeException type")
CODES = list(range(-600, 1200)) + [
    -(2**31),
    -(2**16),
    -0xA0,
    -0x80,
    -0x20,
    2**8,
    2**15,
    2**16 + 0x12,
    2**31,
    2**32 + 0x28,
    2**64,
    10**30,
    True,
    False,
]
for code in CODES:
    want = expected_cdb_length(code)
    for caller in (SCSICommand, Read10, TestUnitReady):
        for op in (OpCode("X", code, {}), types.SimpleNamespace(value=code)):
            try:
                cdb = caller.init_cdb(op)
            except SCSICommand.OpcodeException as exc:
                check(want is None, "code %r refused, want %r" % (code, want))
                check(
                    type(exc) is SCSICommand.OpcodeException,
                    "exception class for code %r" % (code,),
                )
            except Exception as exc:  # pylint: disable=broad-except
                check(False, "code %r raised %r" % (code, exc))
            else:
                check(type(cdb) is bytearray, "cdb type for code %r" % (code,))
                check_eq(len(cdb), want, "cdb length for code %r" % (code,))
                check(not any(cdb), "cdb for code %r is zeroed" % (code,))
    if want is not None:
        op = OpCode("X", code, {})
        first, second = SCSICommand.init_cdb(op), SCSICommand.init_cdb(op)
        check(first is not second, "each call allocates a new cdb (%r)" % (code,))
        first[0] = 0xFF
        check_eq(second[0], 0, "cdbs are independent (%r)" % (code,))

# group boundaries spelled out
for code, want in (
    (0x00, 6),
    (0x1F, 6),
    (0x20, 10),
    (0x3F, 10),
    (0x40, 10),
    (0x5F, 10),
    (0x60, None),
    (0x7E, None),
    (0x7F, None),
    (0x80, 16),
    (0x9F, 16),
    (0xA0, 12),
    (0xBF, 12),
    (0xC0, None),
    (0xDF, None),
    (0xE0, None),
    (0xFF, None),
    (0x100, None),
    (-1, None),
):
    try:
        got = len(SCSICommand.init_cdb(OpCode("BOUNDARY", code, {})))
    except SCSICommand.OpcodeException:
        got = None
    check_eq(got, want, "boundary %#x" % code)

# constructing a command refuses an operation code outside the fixed groups
for code in (0x60, 0x7F, 0xC0, 0xE5, 0xFF, 0x1234, -3):
    try:
        TestUnitReady(OpCode("BAD", code, {}))
    except SCSICommand.OpcodeException:
        check(True, "")
    else:
        check(False, "TestUnitReady accepted code %#x" % code)
for code in (0x00, 0x1E, 0x21, 0x5D, 0x81, 0xA7):
    op = OpCode("ODD", code, {})
    cmd = TestUnitReady(op)
    check_eq(len(cmd.cdb), expected_cdb_length(code), "TestUnitReady cdb len %#x" % code)
    check_eq(cmd.cdb[0], code, "TestUnitReady cdb[0] %#x" % code)
    check(cmd.opcode is op, "command keeps its OpCode")

# ---------------------------------------------------------------------------
# 5. commands built through the SCSI facade, for every device type
# ---------------------------------------------------------------------------
from pyscsi.pyscsi.scsi import SCSI  # noqa: E402


class FakeDevice:
    def __init__(self, opcodes):
        self.opcodes = opcodes

    def execute(self, cmd, en_raw_sense=False):
        pass

    def open(self):
        pass

    def close(self):
        pass


class FakeSCSI(SCSI):
    def __init__(self, dev):  # pylint: disable=super-init-not-called
        self.device = dev


class TypedDevice(FakeDevice):
    """a device that answers INQUIRY with a peripheral device type"""

    def __init__(self, devtype):
        FakeDevice.__init__(self, spc)
        self.devtype = devtype

    def execute(self, cmd, en_raw_sense=False):
        check_eq(cmd.cdb[0], 0x12, "probe command is INQUIRY")
        check_eq(len(cmd.cdb), 6, "INQUIRY is a 6 byte cdb")
        cmd.datain[0] = self.devtype
        cmd.datain[4] = 91


for devtype, want in (
    (0x00, sbc),
    (0x04, sbc),
    (0x07, sbc),
    (0x01, ssc),
    (0x02, ssc),
    (0x09, ssc),
    (0x03, spc),
    (0x08, smc),
    (0x05, mmc),
):
    s = SCSI(TypedDevice(devtype))
    check(s.device.opcodes is want, "command set for device type %#x" % devtype)

BUILDERS = {
    # facade call -> (key of the operation code, service action name or None)
    "testunitready": (lambda s: s.testunitready(), "TEST_UNIT_READY", None),
    "read10": (lambda s: s.read10(1024, 8), "READ_10", None),
    "read12": (lambda s: s.read12(1024, 8), "READ_12", None),
    "read16": (lambda s: s.read16(1024, 8), "READ_16", None),
    "write10": (lambda s: s.write10(0, 1, bytearray(512)), "WRITE_10", None),
    "write12": (lambda s: s.write12(0, 1, bytearray(512)), "WRITE_12", None),
    "write16": (lambda s: s.write16(0, 1, bytearray(512)), "WRITE_16", None),
    "writesame10": (lambda s: s.writesame10(0, 1, bytearray(512)), "WRITE_SAME_10", None),
    "writesame16": (lambda s: s.writesame16(0, 1, bytearray(512)), "WRITE_SAME_16", None),
    "synchronizecache10": (
        lambda s: s.synchronizecache10(0, 1),
        "SYNCHRONIZE_CACHE_10",
        None,
    ),
    "synchronizecache16": (
        lambda s: s.synchronizecache16(0, 1),
        "SYNCHRONIZE_CACHE_16",
        None,
    ),
    "preventallowmediumremoval": (
        lambda s: s.preventallowmediumremoval(prevent=1),
        "PREVENT_ALLOW_MEDIUM_REMOVAL",
        None,
    ),
    "movemedium": (lambda s: s.movemedium(1, 2, 3), "MOVE_MEDIUM", None),
    "exchangemedium": (lambda s: s.exchangemedium(1, 2, 3, 4), "EXCHANGE_MEDIUM", None),
    "positiontoelement": (lambda s: s.positiontoelement(1, 2), "POSITION_TO_ELEMENT", None),
    "initializeelementstatus": (
        lambda s: s.initializeelementstatus(),
        "INITIALIZE_ELEMENT_STATUS",
        None,
    ),
    "initializeelementstatuswithrange": (
        lambda s: s.initializeelementstatuswithrange(1, 2),
        "INITIALIZE_ELEMENT_STATUS_WITH_RANGE",
        None,
    ),
    "opencloseimportexportelement": (
        lambda s: s.opencloseimportexportelement(1, 0),
        "OPEN_CLOSE_IMPORT_EXPORT_ELEMENT",
        None,
    ),
}

built = 0
for set_name, enum in SETS.items():
    s = FakeSCSI(FakeDevice(enum))
    s.blocksize = 512
    for call, (builder, key, _sa) in BUILDERS.items():
        if key not in enum.keys:
            continue
        op = getattr(enum, key)
        want_len = expected_cdb_length(T10[key][0])
        cmd = builder(s)
        built += 1
        where = "%s via %s" % (call, set_name)
        check(cmd.opcode is op, where + ": opcode object")
        check_eq(cmd.cdb[0], T10[key][0], where + ": cdb[0]")
        check_eq(len(cmd.cdb), want_len, where + ": cdb length")
        check_eq(cmd.unmarshall_cdb(cmd.cdb)["opcode"], T10[key][0], where + ": decoded")
check(built >= 30, "facade commands built (%d)" % built)

# commands that carry a service action
from pyscsi.pyscsi.scsi_cdb_getlbastatus import GetLBAStatus  # noqa: E402
from pyscsi.pyscsi.scsi_cdb_persistentreservein import (  # noqa: E402
    PersistentReserveInReadFullStatus,
    PersistentReserveInReadKeys,
    PersistentReserveInReadReservation,
    PersistentReserveInReportCapabilities,
)
from pyscsi.pyscsi.scsi_cdb_readcapacity16 import ReadCapacity16  # noqa: E402
from pyscsi.pyscsi.scsi_cdb_report_priority import ReportPriority  # noqa: E402
from pyscsi.pyscsi.scsi_cdb_report_target_port_groups import (  # noqa: E402
    ReportTargetPortGroups,
)

cmd = ReadCapacity16(sbc.SBC_OPCODE_9E)
check_eq((len(cmd.cdb), cmd.cdb[0], cmd.cdb[1] & 0x1F), (16, 0x9E, 0x10), "RC16")
cmd = GetLBAStatus(sbc.SBC_OPCODE_9E, 0)
check_eq((len(cmd.cdb), cmd.cdb[0], cmd.cdb[1] & 0x1F), (16, 0x9E, 0x12), "GLS")
for set_name, enum in SETS.items():
    key = "%s_OPCODE_A3" % set_name.upper()
    if key not in enum.keys:
        check_eq(set_name, "mmc", "only mmc has no A3 mapper")
        continue
    op = getattr(enum, key)
    cmd = ReportPriority(op)
    check_eq((len(cmd.cdb), cmd.cdb[0], cmd.cdb[1] & 0x1F), (12, 0xA3, 0x0E), "RP " + set_name)
    cmd = ReportTargetPortGroups(op)
    check_eq((len(cmd.cdb), cmd.cdb[0], cmd.cdb[1] & 0x1F), (12, 0xA3, 0x0A), "RTPG " + set_name)
    for cls, sa in (
        (PersistentReserveInReadKeys, 0),
        (PersistentReserveInReadReservation, 1),
        (PersistentReserveInReportCapabilities, 2),
        (PersistentReserveInReadFullStatus, 3),
    ):
        cmd = cls(enum.PERSISTENT_RESERVE_IN)
        check_eq(
            (len(cmd.cdb), cmd.cdb[0], cmd.cdb[1] & 0x1F),
            (10, 0x5E, sa),
            "%s via %s" % (cls.__name__, set_name),
        )
    s = FakeSCSI(FakeDevice(enum))
    cmd = s.persistentreservein(enum.PERSISTENT_RESERVE_IN.serviceaction.READ_KEYS)
    check_eq((len(cmd.cdb), cmd.cdb[0], cmd.cdb[1] & 0x1F), (10, 0x5E, 0), "facade PRIN")
    if set_name == "sbc":
        cmd = s.readcapacity16()
        check_eq((len(cmd.cdb), cmd.cdb[0], cmd.cdb[1] & 0x1F), (16, 0x9E, 0x10), "facade RC16")
        cmd = s.getlbastatus(0)
        check_eq((len(cmd.cdb), cmd.cdb[0], cmd.cdb[1] & 0x1F), (16, 0x9E, 0x12), "facade GLS")
    cmd = s.reportpriority()
    check_eq((len(cmd.cdb), cmd.cdb[0], cmd.cdb[1] & 0x1F), (12, 0xA3, 0x0E), "facade RP")
    cmd = s.reporttargetportgroups()
    check_eq((len(cmd.cdb), cmd.cdb[0], cmd.cdb[1] & 0x1F), (12, 0xA3, 0x0A), "facade RTPG")

# ---------------------------------------------------------------------------
# 6. the OpCode and Enum helper objects themselves
# ---------------------------------------------------------------------------
op = OpCode("FOO", 0x28, {"BAR": 1, "BAZ": 2})
check_eq((op.name, op.value), ("FOO", 0x28), "OpCode positional")
check_eq(op.serviceaction.keys, ["BAR", "BAZ"], "OpCode service action keys")
check_eq((op.serviceaction.BAR, op.serviceaction.BAZ), (1, 2), "OpCode service actions")
check_eq(op.serviceaction[2], "BAZ", "OpCode service action name")
check_eq(op.serviceaction[3], "", "OpCode unknown service action name")
op = OpCode(name="KW", code=0xA5, serviceaction={})
check_eq((op.name, op.value, op.serviceaction.keys), ("KW", 0xA5, []), "OpCode keywords")
check_eq(str(op), "KW - a5", "str(OpCode)")
check_eq(repr(op), "KW - a5", "repr(OpCode)")
check_eq("%s" % OpCode("Z", 0, {}), "Z - 0", "str(OpCode) zero")
op.name, op.value = "RENAMED", 0x0A
check_eq((op.name, op.value, str(op)), ("RENAMED", 0x0A, "RENAMED - a"), "OpCode setters")
check_eq(len(SCSICommand.init_cdb(op)), 6, "cdb length follows a changed value")
op.value = 0x8A
check_eq(len(SCSICommand.init_cdb(op)), 16, "cdb length follows a changed value (2)")
other = Enum(X=9)
op.serviceaction = other
check(op.serviceaction is other, "OpCode serviceaction setter")
for bad in ((), ("A",), ("A", 1)):
    try:
        OpCode(*bad)
    except TypeError:
        check(True, "")
    else:
        check(False, "OpCode%r must raise TypeError" % (bad,))
try:
    OpCode("A", 1, [1, 2])
except NotSupportedArgumentError:
    check(True, "")
else:
    check(False, "OpCode with a list of service actions must be refused")
a, b = OpCode("SAME", 1, {}), OpCode("SAME", 1, {})
check(a != b and a == a, "OpCode compares by identity")
check(OpCode("A", 1, {}).serviceaction is not OpCode("A", 1, {}).serviceaction, "own sa enum")

# changing an OpCode of one command set does not leak into another one
saved = (spc.INQUIRY.name, spc.INQUIRY.value)
spc.INQUIRY.value = 0x99
spc.INQUIRY.name = "TEMP"
check_eq((sbc.INQUIRY.value, ssc.INQUIRY.value, smc.INQUIRY.value, mmc.INQUIRY.value), (0x12,) * 4, "isolation")
check_eq(sbc.INQUIRY.name, "INQUIRY", "isolation of names")
check_eq(spc_opcodes["INQUIRY"].value, 0x99, "dict and enum share the object")
spc.INQUIRY.name, spc.INQUIRY.value = saved
check_eq(str(spc.INQUIRY), "INQUIRY - 12", "restored")
sbc.SBC_OPCODE_A3.serviceaction.add("DEMO_ONLY", 0x1E)
check("DEMO_ONLY" not in sbc.SBC_OPCODE_A4.serviceaction.keys, "sa isolation (A4)")
check("DEMO_ONLY" not in spc.SPC_OPCODE_A3.serviceaction.keys, "sa isolation (spc)")
check("DEMO_ONLY" not in service_actions, "sa isolation (dict)")
check_eq(sbc.SBC_OPCODE_A3.serviceaction[0x1E], "DEMO_ONLY", "added sa")
sbc.SBC_OPCODE_A3.serviceaction.remove("DEMO_ONLY")
check_eq(enum_items(sbc.SBC_OPCODE_A3.serviceaction), PLAIN_TABLES["service_actions"], "sa restored")

# Enum
e = Enum({"A": 1, "B": 2, "C": 3})
check_eq(e.keys, ["A", "B", "C"], "Enum keys")
check_eq((e.A, e.B, e.C), (1, 2, 3), "Enum values")
check_eq((e[1], e[2], e[3], e[4], e[None], e["A"]), ("A", "B", "C", "", "", ""), "Enum names")
k = Enum(A=1, B=2, C=3)
check_eq(enum_items(k), enum_items(e), "Enum from keywords")
check(k is not e, "Enums are separate objects")
d = Enum({"FIRST": 7, "SECOND": 7})
check_eq(d[7], "FIRST", "duplicate values resolve to the first key")
check_eq(Enum({"A": 1}, B=2).keys, ["A"], "a dict wins over keywords")
check_eq(Enum({}).keys, [], "empty Enum")
check_eq(Enum({})[0], "", "empty Enum lookup")
for args, kwargs in (((1, 2, 3), {}), (((1, 2, 3),), {}), ((), {}), (([("A", 1)],), {}), (({"A": 1}, {"B": 2}), {})):
    try:
        Enum(*args, **kwargs)
    except NotSupportedArgumentError:
        check(True, "")
    else:
        check(False, "Enum(*%r, **%r) must be refused" % (args, kwargs))
check_eq(Enum((1, 2), A=5).keys, ["A"], "keywords used when the argument is no dict")
try:
    e.add("A", 6)
except KeyError:
    check(True, "")
else:
    check(False, "Enum.add of an existing key must raise KeyError")
check_eq(e.A, 1, "failed add leaves the value alone")
e.add("D", 4)
check_eq((e.keys, e.D, e[4]), (["A", "B", "C", "D"], 4, "D"), "Enum.add")
e.remove("B")
check_eq((e.keys, e[2]), (["A", "C", "D"], ""), "Enum.remove")
check(not hasattr(e, "B"), "removed key is gone")
try:
    e.remove("B")
except KeyError:
    check(True, "")
else:
    check(False, "Enum.remove of a missing key must raise KeyError")
check("__module__" not in e.keys and "__doc__" not in e.keys, "dunder names are no keys")
try:
    e.NOPE
except AttributeError:
    check(True, "")
else:
    check(False, "unknown Enum member must raise AttributeError")
try:
    spc.READ_10
except AttributeError:
    check(True, "")
else:
    check(False, "spc does not list READ(10)")
try:
    spc.INQUIRY.serviceaction.ANYTHING
except AttributeError:
    check(True, "")
else:
    check(False, "INQUIRY has no service actions")

# ---------------------------------------------------------------------------
if FAILURES:
    print("FAIL: %d of %d checks failed" % (len(FAILURES), CHECKS))
    sys.exit(1)
print("PASS (%d checks)" % CHECKS)
