#!/usr/bin/env python
# coding: utf-8
"""
Demo / check for property C11:

    Every response and sense decoder returns or raises within an amount of work
    proportional to the size of the buffer it was given, for any byte content
    and any length.  No response a faulty or hostile device can produce makes
    the initiator loop forever or allocate without bound.

The script drives every datain / sense decoder of the library through its
public API (the unmarshall_datain classmethods, the SCSICheckCondition
constructor and the SCSI facade with a fake device) with several thousand
buffers: every length from 0 up to a few dozen bytes, long buffers, constant,
patterned and random content, well formed responses, every truncation of
them and copies whose length fields were overwritten with extreme values.

For every call it checks that

  * the call returns, or raises an ordinary Exception (never hangs, never
    raises MemoryError / RecursionError),
  * the number of python lines executed inside the library is bounded by an
    affine function of the buffer length (counted with sys.settrace; the
    tracer aborts the call as soon as the budget is exceeded, so a decoder
    that loops forever is reported instead of hanging the script),
  * the size of the decoded result is bounded by an affine function of the
    buffer length,
  * the input buffer is left untouched,
  * the outcome (decoded value or the exception type) is exactly the one the
    library has always produced -- a digest of all outcomes per decoder is
    compared with a recorded value,
  * the SCSI facade gives the same outcome as the classmethod.

Run:  cd /tmp/seed/C11v && PYTHONPATH=/tmp/seed/C11v /venv/bin/python SEED/demo.py
      (add --golden to print the digests instead of comparing them)
Prints PASS and exits 0 when everything holds.
"""

import hashlib
import random
import signal
import sys
import types

# --------------------------------------------------------------------------
# the external bindings are not needed for decoding; fake them when missing
# --------------------------------------------------------------------------
for _name in ("sgio", "iscsi"):
    try:
        __import__(_name)
    except Exception:  # pragma: no cover - depends on the environment
        sys.modules[_name] = types.ModuleType(_name)

from pyscsi.pyscsi.scsi import SCSI  # noqa: E402
from pyscsi.pyscsi.scsi_cdb_getlbastatus import GetLBAStatus  # noqa: E402
from pyscsi.pyscsi.scsi_cdb_inquiry import Inquiry  # noqa: E402
from pyscsi.pyscsi.scsi_cdb_modesense6 import ModeSense6  # noqa: E402
from pyscsi.pyscsi.scsi_cdb_modesense10 import ModeSense10  # noqa: E402
from pyscsi.pyscsi.scsi_cdb_persistentreservein import (  # noqa: E402
    PersistentReserveInReadFullStatus,
    PersistentReserveInReadKeys,
    PersistentReserveInReadReservation,
    PersistentReserveInReportCapabilities,
)
from pyscsi.pyscsi.scsi_cdb_readcapacity10 import ReadCapacity10  # noqa: E402
from pyscsi.pyscsi.scsi_cdb_readcapacity16 import ReadCapacity16  # noqa: E402
from pyscsi.pyscsi.scsi_cdb_readcd import ReadCd  # noqa: E402
from pyscsi.pyscsi.scsi_cdb_readdiscinformation import ReadDiscInformation  # noqa: E402
from pyscsi.pyscsi.scsi_cdb_readelementstatus import ReadElementStatus  # noqa: E402
from pyscsi.pyscsi.scsi_cdb_report_luns import ReportLuns  # noqa: E402
from pyscsi.pyscsi.scsi_cdb_report_priority import ReportPriority  # noqa: E402
from pyscsi.pyscsi.scsi_cdb_report_target_port_groups import (  # noqa: E402
    ReportTargetPortGroups,
)
from pyscsi.pyscsi.scsi_enum_command import mmc, sbc, smc, spc  # noqa: E402
from pyscsi.pyscsi.scsi_sense import SCSICheckCondition  # noqa: E402

GOLDEN = {
    # recorded from the unmodified library with --golden
    "getlbastatus": "315c1d7ef502599558992786589dd17c7d579a783bdc706e6188765a18978280",
    "inquiry-ata-information": "b1576460c67f5097e4eebd3567d8e52b36a6a420c82fb9aae3b951ec28cddd20",
    "inquiry-designator-0": "5af8b69d16ceec1ae3a314e294d9cb836f7b026e8aa42705f626cfbc4d39c6a8",
    "inquiry-designator-1": "5386d8d775d354befa92bf9ced5464ba06e9fad4fd7bfeb89efc7ce4a81c05e4",
    "inquiry-designator-10": "1bcc1278a4e86c64d879544b6176c61c125c135d99fc265b1fc5541c80d2ab34",
    "inquiry-designator-11": "1bcc1278a4e86c64d879544b6176c61c125c135d99fc265b1fc5541c80d2ab34",
    "inquiry-designator-2": "c20387a1dd1d9437d5e22dc256832818710fda874c5352a428ceb7d3dceff254",
    "inquiry-designator-3": "498b8710110d45f494d64333f02d1fd0aad6627a1857e00c01e17dc7c38926d5",
    "inquiry-designator-4": "7f5201d94e36ad8e1810d6635ce083f441d9062dcc60d24e87ef5e81be6bec97",
    "inquiry-designator-5": "61eee5f1a5ce9625d4b26cf8bd24e0f4b17ed2d7fa2a4386707f028bb79d9454",
    "inquiry-designator-6": "4a6b9a924f357b7b033eb7425996e5bb1a2255448d67a61846175ee87aff2559",
    "inquiry-designator-7": "86c045a10073350338930b50aaba6256468b2efcfa3999163d16f574dd6137f5",
    "inquiry-designator-8": "be59af1b4ebd7f9e5146a0161e1844ba6c5770182a5e873cbe0859c47cab3ef4",
    "inquiry-designator-9": "5516ed40c520580e5251e017c4730740fbfef4c8de42baade1bcc2697d44ed45",
    "inquiry-standard": "768858daf6c9b52e123e913274802d98fc1b4224dbe91910c22cc63f9ed0768f",
    "inquiry-standard-evpd0": "0e35ac932cda1ca6da9b343a345166156ad3eb10713567006d41740a82f7863a",
    "inquiry-vpd": "c2032514777d385c97f3c88476f7d62db8c3bd4b6de1fdd12d5b88a6bc7a141a",
    "inquiry-vpd-positional": "578dbebd55b6d1f112524d1612fd052a2c004b10853c1e8116e04746a774796a",
    "modesense10": "29ace044a1683acf14a9718729f6a7242aa06af395f4213f84b3958d5686a6d2",
    "modesense6": "a7004c94e1ad6a2ac049f1213af369e2e6820a91c5792f2617a4ca628a850977",
    "pr-in-read-full-status": "70b290f9f161a1ff20bcbdf6a9a598287ec4c279570207b8e74e99c279429b87",
    "pr-in-read-keys": "c54c206aff5e05753249e8530e396eca65212de87fe65f606ab76c61ef1ac6f4",
    "pr-in-read-reservation": "facc85fb3371dc78278e1df87d2ecb73fa86b652690d31d1d3b2090dd1dfa018",
    "pr-in-report-capabilities": "d8a54cc0f50330c9d874f4c2c63b14a92b8164e2b5e7a0d3fa673597e1dcc448",
    "pr-in-transport-id": "029c852a378a739331ae1a306772bb2da1f1866dc20f8b5b4b5fc3d17a22307b",
    "readcapacity10": "5ac4c5baccce5d424f38578de1a6711311cedbad94662b6a96dc65f9723b598b",
    "readcapacity16": "c041d406b7ea0ef72d4eb75dc2dc68ef48f3e06cf218bb9a9ecdb73946f010d9",
    "readcd": "b40895cfccb7e03c0c080620bdec111bc8464aea6b69a03abd96c83dd9730c17",
    "readcd-defaults": "e206500903c789256228153a6e11daa94fc10c2d2f04fb3de3a965b01eaf68ac",
    "readcd-many-blocks": "5d15f12672c42ced83b6cf98979bd6944c2997df104c98be00cb67427dae29cc",
    "readdiscinformation": "da97c5f0210360e135823cac10ee7fd6e3f7e72ace17eb84ff0c6a7b536e3e64",
    "readelementstatus": "e1ce0d03a317c553757f6393cdc2195ce0ed48aabfdfc6c1c48b0fa843091224",
    "reportluns": "3f2d80536585abbf9f684c9bb767513a18d4eb67404dd5da9003f27162083210",
    "reportpriority": "1525d5889e12374054aeb2ac20c3f28eba865a184e09a769f4d586b188f43533",
    "reporttargetportgroups": "f0130a10e0dcef1e67d61fd420436956bb77e2582673b46403effd1851a31530",
    "sense": "282dd071d3607f25e9cfd217d9d732ffa43c9637e2fe83b854473b931263cc67",
    "sense-desc-static": "eb9c42258af16f7db4e8588672a2d73a8dce438e0cb47e06cfbaca7869699720",
    "sense-fixed-static": "9ce9c04ce54bfb635cf36e4e5e9fbb9057536b6fb0450078170b8be49dd9d80e",
}

# budget of traced library lines:  LINES_A + LINES_B * len(buffer) (+ per item)
LINES_A = 6000
LINES_B = 600
LINES_PER_ITEM = 800  # ReadCd: per requested block
# budget for the size of the decoded value
SIZE_A = 400
SIZE_B = 300
SIZE_PER_ITEM = 300

FAILURES = []


def fail(msg):
    FAILURES.append(msg)
    if len(FAILURES) <= 25:
        print("FAIL:", msg)


# --------------------------------------------------------------------------
# measuring
# --------------------------------------------------------------------------
class BudgetExceeded(BaseException):
    pass


class Meter:
    """count the python lines executed in the library while a call runs"""

    def __init__(self):
        self.count = 0
        self.limit = 0

    def _local(self, frame, event, arg):
        if event == "line":
            self.count += 1
            if self.count > self.limit:
                raise BudgetExceeded()
        return self._local

    def _global(self, frame, event, arg):
        if "pyscsi" in frame.f_code.co_filename:
            return self._local
        return None

    def run(self, limit, fn, *args, **kwargs):
        self.count = 0
        self.limit = limit
        sys.settrace(self._global)
        try:
            return ("ok", fn(*args, **kwargs))
        except BudgetExceeded:
            return ("budget", None)
        except (MemoryError, RecursionError) as e:
            return ("fatal", type(e).__name__)
        except Exception as e:  # the property allows ordinary exceptions
            return ("exc", type(e).__name__)
        finally:
            sys.settrace(None)


METER = Meter()


def size_of(o):
    """number of containers, scalars and bytes reachable from a decoded value"""
    total = 0
    stack = [o]
    while stack:
        x = stack.pop()
        total += 1
        if isinstance(x, dict):
            stack.extend(x.keys())
            stack.extend(x.values())
        elif isinstance(x, (list, tuple)):
            stack.extend(x)
        elif isinstance(x, (bytes, bytearray, str)):
            total += len(x)
        elif isinstance(x, int):
            total += x.bit_length() // 8
    return total


def canon(o):
    """a canonical, type and order preserving text of a decoded value"""
    if isinstance(o, dict):
        return "{" + ",".join(canon(k) + ":" + canon(v) for k, v in o.items()) + "}"
    if isinstance(o, list):
        return "[" + ",".join(canon(v) for v in o) + "]"
    if isinstance(o, tuple):
        return "(" + ",".join(canon(v) for v in o) + ")"
    if isinstance(o, bytearray):
        return "Y" + bytes(o).hex()
    if isinstance(o, bytes):
        return "y" + o.hex()
    if isinstance(o, bool):
        return "B%d" % o
    if isinstance(o, int):
        return "i%d" % o
    if isinstance(o, str):
        return "s" + repr(o)
    if o is None:
        return "N"
    return "?" + type(o).__name__ + repr(o)


# --------------------------------------------------------------------------
# buffers
# --------------------------------------------------------------------------
def generic_buffers(seed, small=44, big=(48, 64, 96, 127, 200, 256, 300, 515, 1024, 4099)):
    rnd = random.Random(seed)
    out = []
    for n in list(range(small)) + list(big):
        out.append(bytes(n))
        out.append(b"\xff" * n)
        out.append(bytes((i * 7 + 1) & 0xFF for i in range(n)))
        out.append(bytes(rnd.randrange(256) for _ in range(n)))
        # small values: length fields stay small, so nested records are walked
        out.append(bytes(rnd.choice((0, 0, 0, 1, 2, 3, 4, 8, 12, 16, 24, 0x40, 0x83)) for _ in range(n)))
        # mostly zero with a few large bytes
        out.append(bytes(rnd.choice((0, 0, 0, 0, 0, 0xFF, 0x80, 1)) for _ in range(n)))
    return out


def variations(valid, seed):
    """every truncation of a well formed response and header mutations of it"""
    rnd = random.Random(seed)
    out = [bytes(valid)]
    for n in range(len(valid)):
        out.append(bytes(valid[:n]))
    for pos in range(min(len(valid), 28)):
        for v in (0x00, 0x01, 0x7F, 0x80, 0xFF):
            m = bytearray(valid)
            m[pos] = v
            out.append(bytes(m))
    for _ in range(40):
        m = bytearray(valid)
        for _ in range(rnd.randrange(1, 4)):
            if m:
                m[rnd.randrange(len(m))] = rnd.randrange(256)
        out.append(bytes(m))
    out.append(bytes(valid) + bytes(7))
    out.append(bytes(valid) + b"\xff" * 9)
    return out


def force(buffers, pos, values):
    """copies of the buffers with byte `pos` forced to each of the values"""
    out = []
    for i, b in enumerate(buffers):
        if len(b) > pos:
            m = bytearray(b)
            m[pos] = values[i % len(values)]
            out.append(bytes(m))
        else:
            out.append(b)
    return out


# --------------------------------------------------------------------------
# fake transport for the facade
# --------------------------------------------------------------------------
class FakeDevice:
    """a device that answers every command with a canned response"""

    def __init__(self, opcodes):
        self.opcodes = opcodes
        self.devicetype = None
        self.response = b""

    def execute(self, cmd, en_raw_sense=False):
        cmd.datain = bytearray(self.response)

    def open(self):
        pass

    def close(self):
        pass


class Facade(SCSI):
    def __init__(self, dev):
        self.device = dev
        self._blocksize = 0


def facade_outcome(opcodes, response, call, limit):
    dev = FakeDevice(opcodes)
    dev.response = response

    def run():
        with Facade(dev) as s:
            return call(s).result

    return METER.run(limit, run)


# --------------------------------------------------------------------------
# the checks
# --------------------------------------------------------------------------
DIGESTS = {}
COUNTS = {}
USAGE = {}  # largest used fraction of the line budget, per decoder (--stats)


def check(name, fn, buffers, items=0, facade=None, facade_every=4, exc_map=None):
    """
    run fn(buffer) for every buffer, as bytes and as bytearray

    :param items: an extra work / size allowance factor (ReadCd block count)
    :param facade: (opcodes, call) to repeat every few inputs through SCSI
    :param exc_map: exception type names the facade turns into other ones
    """
    h = hashlib.sha256()
    n_calls = 0
    for idx, raw in enumerate(buffers):
        outcomes = []
        for kind in (bytes, bytearray):
            buf = kind(raw)
            limit = LINES_A + LINES_B * len(buf) + LINES_PER_ITEM * items
            status, value = METER.run(limit, fn, buf)
            n_calls += 1
            where = "%s input #%d (%s, %d bytes: %s)" % (
                name, idx, kind.__name__, len(raw), raw[:24].hex())
            if status == "budget":
                fail("%s: more than %d library lines executed - work is not "
                     "proportional to the buffer" % (where, limit))
                outcomes.append("budget")
                continue
            if status == "fatal":
                fail("%s: raised %s" % (where, value))
                outcomes.append("fatal")
                continue
            if bytes(buf) != raw:
                fail("%s: the input buffer was modified" % where)
            USAGE[name] = max(USAGE.get(name, 0.0), METER.count / float(limit))
            if status == "ok":
                size = size_of(value)
                if size > SIZE_A + SIZE_B * len(buf) + SIZE_PER_ITEM * items:
                    fail("%s: decoded value of size %d - allocation is not "
                         "proportional to the buffer" % (where, size))
                outcomes.append("ok:" + canon(value))
            else:
                outcomes.append("exc:" + value)
        h.update(("%d|%s|%s\n" % (idx, outcomes[0], outcomes[1])).encode())

        if facade is not None and idx % facade_every == 0 and "budget" not in outcomes \
                and "fatal" not in outcomes:
            opcodes, call = facade
            fstatus, fvalue = facade_outcome(opcodes, raw, call, limit + 2000)
            if fstatus == "fatal":
                fail("%s input #%d through the facade raised %s" % (name, idx, fvalue))
                continue
            if fstatus == "budget":
                fail("%s input #%d through the facade: more than %d library lines "
                     "executed" % (name, idx, limit + 2000))
                continue
            got = "ok:" + canon(fvalue) if fstatus == "ok" else "exc:" + fvalue
            want = outcomes[1]  # the facade hands a bytearray to the decoder
            if exc_map and want.startswith("exc:"):
                want = "exc:" + exc_map.get(want[4:], want[4:])
            if got != want:
                fail("%s input #%d: the facade gives %s, the decoder %s"
                     % (name, idx, got[:80], want[:80]))
    DIGESTS[name] = h.hexdigest()
    COUNTS[name] = n_calls


# the SCSICommand.unmarshall wrapper reports AttributeError as NotImplementedError
WRAP = {"AttributeError": "NotImplementedError"}


def sense_outcome(buf):
    e = SCSICheckCondition(buf)
    return {
        "valid": e.valid,
        "response_code": e.response_code,
        "data": e.data,
        "asc": e.asc,
        "ascq": e.ascq,
        "str": str(e),
        "is_exception": isinstance(e, Exception),
    }


def main():
    golden_mode = "--golden" in sys.argv

    def timeout(signum, frame):
        print("FAIL: timeout - a decoder did not terminate")
        sys.stdout.flush()
        import os
        os._exit(1)

    signal.signal(signal.SIGALRM, timeout)
    signal.alarm(900)
    try:
        # a decoder that allocates without bound gets a MemoryError, not the machine
        import resource
        resource.setrlimit(resource.RLIMIT_AS, (4 << 30, 4 << 30))
    except Exception:  # pragma: no cover - not available everywhere
        pass

    gen = generic_buffers(11)

    # ---------------------------------------------------------------- INQUIRY
    std = Inquiry.marshall_datain({
        "peripheral_qualifier": 1, "peripheral_device_type": 5, "rmb": 1, "version": 5,
        "normaca": 0, "hisup": 1, "response_data_format": 2, "additional_length": 91,
        "sccs": 1, "acc": 0, "tpgs": 3, "3pc": 1, "protect": 1, "encserv": 1, "vs": 1,
        "multip": 1, "addr16": 1, "wbus16": 1, "sync": 1, "cmdque": 1, "vs2": 1,
        "clocking": 3, "qas": 0, "ius": 1,
        "t10_vendor_identification": b"ACME    ",
        "product_identification": b"ROADRUNNER TRAP ",
        "product_revision_level": b"0001",
    })
    check("inquiry-standard", lambda b: Inquiry.unmarshall_datain(b),
          gen + variations(std, 1),
          facade=(spc, lambda s: s.inquiry(alloclen=255)), exc_map=WRAP)
    check("inquiry-standard-evpd0", lambda b: Inquiry.unmarshall_datain(b, evpd=0),
          generic_buffers(12, small=12, big=(96,)))

    vpd_codes = (0x00, 0x80, 0x83, 0x86, 0x89, 0xB0, 0xB1, 0xB2, 0xB3, 0x01, 0x84, 0xFF)
    dev_id = Inquiry.marshall_datain({
        "peripheral_qualifier": 0, "peripheral_device_type": 0, "page_code": 0x83,
        "designator_descriptors": [
            {"protocol_identifier": 5, "code_set": 2, "piv": 1, "association": 1,
             "designator_type": 0, "designator_length": 0,
             "designator": {"vendor_specific": b"vendor!"}},
            {"protocol_identifier": 0, "code_set": 2, "piv": 0, "association": 0,
             "designator_type": 1, "designator_length": 0,
             "designator": {"t10_vendor_id": b"ACME    ", "vendor_specific_id": b"serial-0001"}},
            {"protocol_identifier": 0, "code_set": 1, "piv": 0, "association": 0,
             "designator_type": 2, "designator_length": 0,
             "designator": {"ieee_company_id": 0x123456,
                            "vendor_specific_extension_id": b"abcde"}},
            {"protocol_identifier": 0, "code_set": 1, "piv": 0, "association": 0,
             "designator_type": 2, "designator_length": 0,
             "designator": {"ieee_company_id": 0x123456,
                            "vendor_specific_extension_id": b"abcde",
                            "directory_id": b"dirs"}},
            {"protocol_identifier": 0, "code_set": 1, "piv": 0, "association": 0,
             "designator_type": 2, "designator_length": 0,
             "designator": {"identifier_extension": b"extensio",
                            "ieee_company_id": 0x123456,
                            "vendor_specific_extension_id": b"abcde"}},
            {"protocol_identifier": 6, "code_set": 1, "piv": 1, "association": 2,
             "designator_type": 3, "designator_length": 0,
             "designator": {"naa": 2, "vendor_specific_identifier_a": 0x123,
                            "ieee_company_id": 0xABCDEF,
                            "vendor_specific_identifier_b": 0x654321}},
            {"protocol_identifier": 0, "code_set": 1, "piv": 0, "association": 0,
             "designator_type": 3, "designator_length": 0,
             "designator": {"naa": 3, "locally_administered_value": 0x0123456789ABCDE}},
            {"protocol_identifier": 0, "code_set": 1, "piv": 0, "association": 0,
             "designator_type": 3, "designator_length": 0,
             "designator": {"naa": 5, "ieee_company_id": 0x2A3B4C,
                            "vendor_specific_identifier": 0x123456789}},
            {"protocol_identifier": 0, "code_set": 1, "piv": 0, "association": 0,
             "designator_type": 3, "designator_length": 0,
             "designator": {"naa": 6, "ieee_company_id": 0x2A3B4C,
                            "vendor_specific_identifier": 0x123456789,
                            "vendor_specific_identifier_extension": 0x1122334455667788}},
            {"protocol_identifier": 0, "code_set": 1, "piv": 0, "association": 1,
             "designator_type": 4, "designator_length": 0,
             "designator": {"relative_port": 0x0102}},
            {"protocol_identifier": 0, "code_set": 1, "piv": 0, "association": 1,
             "designator_type": 5, "designator_length": 0,
             "designator": {"target_portal_group": 0x0304}},
            {"protocol_identifier": 0, "code_set": 1, "piv": 0, "association": 0,
             "designator_type": 6, "designator_length": 0,
             "designator": {"logical_unit_group": 0x0506}},
            {"protocol_identifier": 0, "code_set": 1, "piv": 0, "association": 0,
             "designator_type": 7, "designator_length": 0,
             "designator": {"md5_logical_identifier": bytes(range(16))}},
            {"protocol_identifier": 5, "code_set": 3, "piv": 1, "association": 1,
             "designator_type": 8, "designator_length": 0,
             "designator": {"scsi_name_string": b"iqn.2001-04.com.example:storage\x00"}},
            {"protocol_identifier": 0, "code_set": 1, "piv": 0, "association": 0,
             "designator_type": 9, "designator_length": 0,
             "designator": {"pci_express_routing_id": 0x0708}},
        ],
    })
    lbp = Inquiry.marshall_datain({
        "peripheral_qualifier": 0, "peripheral_device_type": 0, "page_code": 0xB2,
        "threshold_exponent": 9, "lbpu": 1, "lpbws": 1, "lbpws10": 0, "lbprz": 1,
        "anc_sup": 1, "dp": 0, "provisioning_type": 2})
    usn = Inquiry.marshall_datain({
        "peripheral_qualifier": 0, "peripheral_device_type": 0, "page_code": 0x80,
        "unit_serial_number": b"SN-0123456789"})
    ext = Inquiry.marshall_datain({
        "peripheral_qualifier": 0, "peripheral_device_type": 0, "page_code": 0x86,
        "activate_microcode": 2, "spt": 5, "grd_chk": 1, "app_chk": 0, "ref_chk": 1,
        "extended_self_test_completion_minutes": 0x1234,
        "maximum_supported_sense_data_length": 252})
    ref = Inquiry.marshall_datain({
        "peripheral_qualifier": 0, "peripheral_device_type": 0, "page_code": 0xB3,
        "user_data_segment_size": 0x01020304, "user_data_segment_multiplier": 0x05060708})
    supported = bytes([0, 0x00, 0, 9]) + bytes(vpd_codes[:9])
    limits = bytes([0, 0xB0, 0, 0x3C]) + bytes((i * 5 + 3) & 0xFF for i in range(0x3C))
    bdc = bytes([0, 0xB1, 0, 0x3C]) + bytes((i * 3 + 1) & 0xFF for i in range(0x3C))
    ata = bytes([0, 0x89, 0x02, 0x38]) + bytes((i * 11 + 5) & 0xFF for i in range(0x238))
    vpd_inputs = force(gen, 1, vpd_codes)
    for k, v in enumerate((dev_id, lbp, usn, ext, ref, supported, limits, bdc, ata)):
        vpd_inputs += variations(v, 20 + k)
    # designation descriptors with every type / length combination
    rnd = random.Random(5)
    for dtype in range(16):
        for dlen in (0, 1, 3, 4, 7, 8, 9, 12, 15, 16, 17, 24, 255):
            body = bytes(rnd.randrange(256) for _ in range(min(dlen, 40)))
            desc = bytes([0x51, 0x90 | dtype, 0, dlen]) + body
            page = bytes([0, 0x83]) + len(desc * 2).to_bytes(2, "big") + desc * 2
            vpd_inputs.append(page)
            vpd_inputs.append(page[:-3])
    for naa in range(16):
        body = bytes([(naa << 4) | 0x0A]) + bytes(range(1, 16))
        for dlen in (1, 8, 16):
            desc = bytes([0x01, 0x03, 0, dlen]) + body[:dlen]
            vpd_inputs.append(bytes([0, 0x83, 0, len(desc)]) + desc)
    check("inquiry-vpd", lambda b: Inquiry.unmarshall_datain(b, evpd=1), vpd_inputs,
          facade=(spc, lambda s: s.inquiry(evpd=1, page_code=0x83, alloclen=255)),
          exc_map=WRAP)
    check("inquiry-vpd-positional", lambda b: Inquiry.unmarshall_datain(b, 1),
          vpd_inputs[::9])
    desig_inputs = generic_buffers(13, small=30, big=(64, 300))
    for t in range(0, 12):
        check("inquiry-designator-%d" % t,
              lambda b, t=t: Inquiry.unmarshall_designator(t, b), desig_inputs)
    check("inquiry-ata-information", Inquiry.unmarshall_ata_information,
          generic_buffers(14, small=10, big=(36, 40, 56, 60, 62, 80, 100, 130, 572, 600)))

    # ------------------------------------------------------------- MODE SENSE
    page_bytes = (0x1D, 0x0A, 0x4A, 0x02, 0x42, 0x00, 0x3F, 0x5D, 0x9D, 0x8A, 0xCA, 0x82)
    for cls, hdr, tag, call in (
        (ModeSense6, 4, "modesense6", lambda s: s.modesense6(page_code=0x0A, alloclen=255)),
        (ModeSense10, 8, "modesense10", lambda s: s.modesense10(page_code=0x0A, alloclen=255)),
    ):
        ms_inputs = list(gen)
        ms_inputs += force(generic_buffers(15), hdr, page_bytes)
        valid = []
        valid.append(cls.marshall_datain({
            "medium_type": 1, "device_specific_parameter": 0x10, "mode_pages": [{
                "ps": 1, "spf": 0, "page_code": 0x1D, "sub_page_code": 0,
                "medium_transport_element_address": 0x0102,
                "num_medium_transport_elements": 1,
                "first_storage_element_address": 0x1000, "num_storage_elements": 40,
                "first_import_element_address": 0x0010, "num_import_elements": 4,
                "first_data_transfer_element_address": 0x0100,
                "num_data_transfer_elements": 2}]}))
        valid.append(cls.marshall_datain({
            "medium_type": 0, "device_specific_parameter": 0, "mode_pages": [{
                "ps": 0, "spf": 0, "page_code": 0x0A, "sub_page_code": 0,
                "tst": 1, "tmf_only": 1, "dpicz": 1, "d_sense": 1, "gltsd": 1, "rlec": 1,
                "queue_algorithm_modifier": 1, "nuar": 1, "qerr": 1, "vs": 1, "rac": 1,
                "ua_intlck_ctrl": 2, "swp": 1, "ato": 1, "tas": 1, "atmpe": 1, "rwwp": 1,
                "autoload_mode": 1, "busy_timeout_period": 0x1234,
                "extended_self_test_completion_time": 0x5678}]}))
        valid.append(cls.marshall_datain({
            "medium_type": 0, "device_specific_parameter": 0, "mode_pages": [{
                "ps": 0, "spf": 1, "page_code": 0x0A, "sub_page_code": 1,
                "tcmos": 1, "scsip": 1, "ialuae": 1, "initial_command_priority": 3,
                "maximum_sense_data_length": 0xFC}]}))
        valid.append(cls.marshall_datain({
            "medium_type": 0, "device_specific_parameter": 0, "mode_pages": [{
                "ps": 0, "spf": 0, "page_code": 0x02, "sub_page_code": 0,
                "buffer_full_ratio": 1, "buffer_empty_ratio": 2,
                "bus_inactivity_limit": 0x0304, "disconnect_time_limit": 0x0506,
                "connect_time_limit": 0x0708, "maximum_burst_size": 0x090A,
                "emdp": 1, "fair_arbitration": 3, "dimm": 1, "dtdc": 2,
                "first_burst_size": 0x0B0C}]}))
        for k, v in enumerate(valid):
            ms_inputs += variations(v, 30 + k)
            # with block descriptors in front of the page
            if hdr == 4:
                w = bytearray(v[:4]) + bytes(8) + v[4:]
                w[3] = 8
            else:
                w = bytearray(v[:8]) + bytes(8) + v[8:]
                w[7] = 8
            ms_inputs += variations(bytes(w), 40 + k)[::3]
        check(tag, cls.unmarshall_datain, ms_inputs, facade=(spc, call), exc_map=WRAP)

    # ---------------------------------------------------------- READ CAPACITY
    rc10 = ReadCapacity10.marshall_datain({"returned_lba": 0x01020304, "block_length": 4096})
    check("readcapacity10", ReadCapacity10.unmarshall_datain,
          generic_buffers(16, small=20, big=(32, 100)) + variations(rc10, 50),
          facade=(sbc, lambda s: s.readcapacity10()), exc_map=WRAP)
    rc16 = ReadCapacity16.marshall_datain({
        "returned_lba": 0x0102030405060708, "block_length": 512, "p_type": 3, "prot_en": 1,
        "p_i_exponent": 2, "lbppbe": 3, "lbpme": 1, "lbprz": 1, "lowest_aligned_lba": 0x123})
    check("readcapacity16", ReadCapacity16.unmarshall_datain,
          generic_buffers(17, small=36, big=(64, 100)) + variations(rc16, 51),
          facade=(sbc, lambda s: s.readcapacity16()), exc_map=WRAP)

    # --------------------------------------------------------- GET LBA STATUS
    lbas = GetLBAStatus.marshall_datain({"lbas": [
        {"lba": 0x1000 * i + 5, "num_blocks": 0x100 + i, "p_status": i % 3}
        for i in range(5)]})
    glb_inputs = gen + variations(lbas, 52)
    glb_inputs += variations(GetLBAStatus.marshall_datain({}), 53)
    for ln in (0, 1, 3, 4, 5, 11, 12, 19, 20, 21, 35, 36, 37, 0xFFFF, 0xFFFFFFFF, 0x7FFFFFFF):
        for total in (8, 9, 23, 24, 25, 40, 57):
            body = bytes((i * 13 + 7) & 0xFF for i in range(total))
            glb_inputs.append((ln & 0xFFFFFFFF).to_bytes(4, "big") + body[4:])
    check("getlbastatus", GetLBAStatus.unmarshall_datain, glb_inputs,
          facade=(sbc, lambda s: s.getlbastatus(0)), exc_map=WRAP)

    # ------------------------------------------------------------ REPORT LUNS
    luns = ReportLuns.marshall_datain({"luns": [{"lun%d" % i: 0x0001000000000000 * i}
                                                for i in range(6)]})
    rl_inputs = gen + variations(luns, 54) + variations(ReportLuns.marshall_datain({}), 55)
    for ln in (0, 1, 7, 8, 9, 15, 16, 17, 24, 0xFFFF, 0xFFFFFFFF):
        for total in (8, 9, 15, 16, 17, 24, 31, 33):
            body = bytes((i * 17 + 3) & 0xFF for i in range(total))
            rl_inputs.append(ln.to_bytes(4, "big") + body[4:])
    check("reportluns", ReportLuns.unmarshall_datain, rl_inputs,
          facade=(spc, lambda s: s.reportluns()), exc_map=WRAP)

    # -------------------------------------------------------- REPORT PRIORITY
    rp_inputs = generic_buffers(18, small=30, big=(64, 300))
    for ln in (0, 1, 3, 4, 5, 8, 12, 16, 100):
        rp_inputs.append(ln.to_bytes(4, "big") + bytes(range(40)))
        rp_inputs.append(ln.to_bytes(4, "big"))
    rp_inputs += variations(ReportPriority.marshall_datain({}), 56)
    check("reportpriority", ReportPriority.unmarshall_datain, rp_inputs,
          facade=(spc, lambda s: s.reportpriority()), exc_map=WRAP)

    # ------------------------------------------------------------------- TPGS
    tpg = ReportTargetPortGroups.marshall_datain({
        "target_port_group_descriptors": [
            {"asymmetric_access_state": 1, "pref": 1, "ao_sup": 1, "an_sup": 1, "s_sup": 0,
             "u_sup": 1, "o_sup": 0, "t_sup": 1, "target_port_group": 0x0102,
             "status_code": 2, "vendor": 3, "target_port_count": 3,
             "target_ports": [{"relative_target_port_id": 1},
                              {"relative_target_port_id": 2},
                              {"relative_target_port_id": 0x0303}]},
            {"asymmetric_access_state": 2, "pref": 0, "ao_sup": 0, "an_sup": 0, "s_sup": 1,
             "u_sup": 0, "o_sup": 1, "t_sup": 0, "target_port_group": 0x0203,
             "status_code": 0, "vendor": 0, "target_port_count": 0, "target_ports": []},
            {"asymmetric_access_state": 0, "pref": 0, "ao_sup": 0, "an_sup": 0, "s_sup": 1,
             "u_sup": 0, "o_sup": 1, "t_sup": 0, "target_port_group": 0x0204,
             "status_code": 0, "vendor": 0, "target_port_count": 1,
             "target_ports": [{"relative_target_port_id": 9}]},
        ]})
    tpg_ext = ReportTargetPortGroups.marshall_datain({
        "format_type": 1, "implicit_transition_time": 30,
        "target_port_group_descriptors": [
            {"asymmetric_access_state": 1, "pref": 1, "ao_sup": 1, "an_sup": 1, "s_sup": 0,
             "u_sup": 1, "o_sup": 0, "t_sup": 1, "target_port_group": 0x0102,
             "status_code": 2, "vendor": 3, "target_port_count": 2,
             "target_ports": [{"relative_target_port_id": 1},
                              {"relative_target_port_id": 2}]}]})
    tpg_inputs = gen + variations(tpg, 57) + variations(tpg_ext, 58)
    for count in (0, 1, 2, 5, 255):
        for total in range(4, 40, 3):
            body = bytearray((i * 19 + 2) & 0x0F for i in range(total))
            if total > 11:
                body[11] = count
            body[:4] = (total - 4).to_bytes(4, "big")
            tpg_inputs.append(bytes(body))
            body[:4] = (0xFFFFFFFF).to_bytes(4, "big")
            tpg_inputs.append(bytes(body))
    check("reporttargetportgroups", ReportTargetPortGroups.unmarshall_datain, tpg_inputs,
          facade=(spc, lambda s: s.reporttargetportgroups()), exc_map=WRAP)

    # ---------------------------------------------------- READ ELEMENT STATUS
    def es_page(etype, pvol, avol, n):
        return {
            "element_type": etype, "pvoltag": pvol, "avoltag": avol,
            "element_descriptors": [{
                "element_address": 0x100 + i, "except": i & 1, "full": 1,
                "additional_sense_code": 0x3B, "additional_sense_code_qualifier": 0x0D,
                "svalid": 1, "invert": 0, "ed": 0, "medium_type": 1,
                "source_storage_element_address": 0x200 + i, "access": 1,
                "oir": 1, "cmc": 0, "inenab": 1, "exenab": 1, "impexp": 1,
                "primary_volume_tag": bytearray(b"VOL%03d" % i + b" " * 30),
                "alternate_volume_tag": bytearray(b"ALT%03d" % i + b" " * 30),
            } for i in range(n)]}
    res = ReadElementStatus.marshall_datain({
        "first_element_address": 0x100, "num_elements": 7,
        "element_status_pages": [es_page(1, 0, 0, 1), es_page(2, 1, 0, 3),
                                 es_page(3, 1, 1, 2), es_page(4, 0, 1, 1)]})
    res_inputs = gen + variations(res, 59)
    res_small = ReadElementStatus.marshall_datain({
        "first_element_address": 1, "num_elements": 2,
        "element_status_pages": [es_page(2, 0, 0, 2)]})
    res_inputs += variations(res_small, 60)
    for edl in (0, 1, 2, 11, 12, 13, 16, 52, 0xFFFF):
        for bc in (0, 1, 16, 17, 32, 40, 0xFFFFFF):
            m = bytearray(res_small)
            m[10:12] = edl.to_bytes(2, "big")
            m[13:16] = bc.to_bytes(3, "big")
            res_inputs.append(bytes(m))
            m[5:8] = (0xFFFFFF).to_bytes(3, "big")
            res_inputs.append(bytes(m))
            m[9] = 0xC0
            res_inputs.append(bytes(m))
    check("readelementstatus", ReadElementStatus.unmarshall_datain, res_inputs,
          facade=(smc, lambda s: s.readelementstatus(0, 10)), exc_map=WRAP)

    # ------------------------------------------------- READ DISC INFORMATION
    rdi_inputs = list(gen)
    rdi_inputs += force(generic_buffers(19), 2, (0x00, 0x20, 0x40, 0x60, 0x1F, 0x3F, 0x5F, 0xE0))
    check("readdiscinformation", ReadDiscInformation.unmarshall_datain, rdi_inputs,
          facade=(mmc, lambda s: s.readdiscinformation(0)), exc_map=WRAP)

    # ---------------------------------------------------------------- READ CD
    cd_buffers = generic_buffers(21, small=0, big=(0, 1, 3, 4, 11, 12, 16, 20, 24, 100,
                                                   2047, 2352, 2400, 2448, 2646, 5000))
    rnd = random.Random(23)
    combos = []
    for est in range(0, 7):
        for mcsb in range(32):
            combos.append((est, mcsb, rnd.choice((0, 0, 1, 2, 3)), rnd.choice((0, 0, 1, 2, 4)),
                           rnd.choice((0, 1, 2, 3))))
    cd_digest = hashlib.sha256()
    cd_calls = 0
    for ci, (est, mcsb, c2ei, scsb, tl) in enumerate(combos):
        bufs = cd_buffers[ci % 7::7]
        name = "readcd[est=%d,mcsb=%d,c2ei=%d,scsb=%d,tl=%d]" % (est, mcsb, c2ei, scsb, tl)
        kw = {"est": est, "mcsb": mcsb, "c2ei": c2ei, "scsb": scsb}
        check(name,
              lambda b, kw=kw, tl=tl: ReadCd.unmarshall_datain(b, lba=7, tl=tl, **kw),
              bufs, items=tl,
              facade=(mmc, lambda s, kw=kw, tl=tl: s.readcd(7, tl, **kw)),
              facade_every=5, exc_map=WRAP)
        cd_digest.update(DIGESTS.pop(name).encode())
        cd_calls += COUNTS.pop(name)
    DIGESTS["readcd"] = cd_digest.hexdigest()
    COUNTS["readcd"] = cd_calls
    check("readcd-defaults", lambda b: ReadCd.unmarshall_datain(b), cd_buffers[::5])
    check("readcd-many-blocks",
          lambda b: ReadCd.unmarshall_datain(b, 0, 40, est=2, mcsb=0x1F, c2ei=1, scsb=2),
          cd_buffers[::6], items=40)

    # -------------------------------------------------- PERSISTENT RESERVE IN
    keys = bytes([0, 0, 0, 9, 0, 0, 0, 24]) + bytes(range(1, 25))
    rk_inputs = gen + variations(keys, 61)
    for ln in (0, 1, 7, 8, 9, 16, 17, 0xFFFFFFFF):
        for total in (8, 9, 15, 16, 17, 25, 32):
            rk_inputs.append(bytes(4) + ln.to_bytes(4, "big") + bytes(range(50, 50 + total - 8)))
    check("pr-in-read-keys", PersistentReserveInReadKeys.unmarshall_datain, rk_inputs,
          facade=(spc, lambda s: s.persistentreservein(0)), exc_map=WRAP)

    resv = bytes([0, 0, 0, 3, 0, 0, 0, 16]) + bytes(range(1, 9)) + bytes(5) + bytes([0x35, 0, 0])
    rr_inputs = generic_buffers(24, small=30, big=(64,)) + variations(resv, 62)
    rr_inputs += force(force(generic_buffers(25, small=30, big=(64,)), 7, (0, 16, 16, 8)), 6, (0,))
    rr_inputs = [b[:4] + bytes(2) + b[6:] if i % 2 else b for i, b in enumerate(rr_inputs)]
    check("pr-in-read-reservation", PersistentReserveInReadReservation.unmarshall_datain,
          rr_inputs, facade=(spc, lambda s: s.persistentreservein(1)), exc_map=WRAP)

    caps = bytes([0, 8, 0x9D, 0xF1, 0xEA, 0x01, 0, 0])
    rc_inputs = generic_buffers(26, small=20, big=(64,)) + variations(caps, 63)
    rc_inputs += force(force(generic_buffers(27, small=20, big=(64,)), 1, (8, 0, 8, 9)), 0, (0,))
    check("pr-in-report-capabilities", PersistentReserveInReportCapabilities.unmarshall_datain,
          rc_inputs, facade=(spc, lambda s: s.persistentreservein(2)), exc_map=WRAP)

    def full_status(descs):
        body = bytearray()
        for d in descs:
            tid = PersistentReserveInReadFullStatus.marshall_transport_id(d["transport_id"])
            h = bytearray(24)
            h[0:8] = d["reservation_key"].to_bytes(8, "big")
            h[12] = d["flags"]
            h[13] = d["scope_type"]
            h[18:20] = d["rtpi"].to_bytes(2, "big")
            h[20:24] = len(tid).to_bytes(4, "big")
            body += h + tid
        return bytes([0, 0, 0, 5]) + len(body).to_bytes(4, "big") + bytes(body)

    tids = [
        {"tpid_format": 0, "protocol_id": 0, "n_port_name": bytes(range(8))},
        {"tpid_format": 0, "protocol_id": 3, "eui64_name": bytes(range(8, 16))},
        {"tpid_format": 0, "protocol_id": 4, "initiator_port_identifier": bytes(range(16))},
        {"tpid_format": 0, "protocol_id": 5, "iscsi_name": "iqn.1993-08.org.debian:01:abcdef"},
        {"tpid_format": 1, "protocol_id": 5, "iscsi_name": "iqn.1993-08.org.debian:01:abcdef",
         "iscsi_initiator_session_id": "00023d000001"},
        {"tpid_format": 0, "protocol_id": 6, "sas_address": bytes(range(16, 24))},
        {"tpid_format": 0, "protocol_id": 10, "routing_id": bytes(range(24, 32))},
    ]
    fs = full_status([{"reservation_key": 0x1122334455667788 + i, "flags": i & 3,
                       "scope_type": 0x15, "rtpi": i, "transport_id": t}
                      for i, t in enumerate(tids)])
    fs_inputs = gen + variations(fs, 64)
    for i, t in enumerate(tids):
        one = full_status([{"reservation_key": i, "flags": 1, "scope_type": 3, "rtpi": 1,
                            "transport_id": t}])
        fs_inputs += variations(one, 70 + i)[::2]
        for proto in range(16):
            for fmt in (0, 1, 2, 3):
                m = bytearray(one)
                m[32] = (fmt << 6) | proto
                fs_inputs.append(bytes(m))
        for adl in (0, 1, 3, 4, 23, 24, 25, 0xFFFFFFFF):
            m = bytearray(one)
            m[28:32] = adl.to_bytes(4, "big")
            fs_inputs.append(bytes(m))
            fs_inputs.append(bytes(m) + bytes(30))
    # descriptors without transport ids, many of them
    fs_inputs.append(bytes(4) + (24 * 30).to_bytes(4, "big") + bytes(24 * 30))
    fs_inputs.append(bytes(4) + (0xFFFFFFFF).to_bytes(4, "big") + bytes(24 * 9 + 5))
    # iSCSI names that are not valid utf-8 / have no or several separators
    for name in (b"\xff\xfe\xfd\x00", b"a,i,0xb,i,0xc\x00\x00\x00", b"plain\x00\x00\x00", b"",
                 b"\xc3", b"x" * 300):
        for fmt in (0, 1):
            tid = bytes([(fmt << 6) | 5, 0]) + len(name).to_bytes(2, "big") + name
            h = bytearray(24)
            h[20:24] = len(tid).to_bytes(4, "big")
            body = bytes(h) + tid
            fs_inputs.append(bytes(4) + len(body).to_bytes(4, "big") + body)
    check("pr-in-read-full-status", PersistentReserveInReadFullStatus.unmarshall_datain,
          fs_inputs, facade=(spc, lambda s: s.persistentreservein(3)), exc_map=WRAP)
    tid_inputs = generic_buffers(28, small=30, big=(64, 300))
    tid_inputs += force(generic_buffers(29, small=30, big=(64, 300)), 0,
                        (0x00, 0x03, 0x04, 0x05, 0x45, 0x85, 0x06, 0x0A, 0x01, 0xC5))
    check("pr-in-transport-id", PersistentReserveInReadFullStatus.unmarshall_transport_id,
          tid_inputs)

    # ------------------------------------------------------------------ SENSE
    sense_inputs = list(gen)
    sense_inputs += force(generic_buffers(31), 0,
                          (0x70, 0x71, 0x72, 0x73, 0xF0, 0xF1, 0xF2, 0xF3, 0x74, 0x00, 0x7F))
    fixed = bytes([0xF0, 0, 0x05, 1, 2, 3, 4, 10, 5, 6, 7, 8, 0x24, 0x00, 9, 0xC1, 2, 3])
    desc = bytes([0x72, 0x06, 0x29, 0x01, 0x80, 0, 0, 12,
                  0x00, 0x0A, 0x80, 0, 1, 2, 3, 4, 5, 6, 7, 8])
    sense_inputs += variations(fixed, 80) + variations(desc, 81)
    for asc in (0x00, 0x04, 0x29, 0x3A, 0x7F, 0x80, 0xFF):
        for ascq in (0x00, 0x01, 0x7F, 0x80, 0xFF):
            for key in (0, 5, 0x0C, 0x0F):
                sense_inputs.append(bytes([0x70, 0, key, 0, 0, 0, 0, 10, 0, 0, 0, 0, asc, ascq,
                                           0, 0, 0, 0]))
                sense_inputs.append(bytes([0x73, key, asc, ascq, 0, 0, 0, 0]))
    check("sense", sense_outcome, sense_inputs)
    check("sense-fixed-static", SCSICheckCondition.unmarshall_fixed_format_sense_data,
          sense_inputs[::7])
    check("sense-desc-static", SCSICheckCondition.unmarshall_desc_format_sense_data,
          sense_inputs[::7])
    for empty in (None, b"", bytearray()):
        st, val = METER.run(LINES_A, sense_outcome, empty)
        if st != "ok" or val["response_code"] != 0 or val["data"] != {} or \
                val["str"] != "Check Condition: No Sense(0x00) ASC+Q:NO ADDITIONAL SENSE INFORMATION(0x0000)":
            fail("sense without data: %r %r" % (st, val))

    # ---------------------------------------------------------- a few spot checks
    r = PersistentReserveInReadKeys.unmarshall_datain(bytearray(keys))
    if r != {"pr_generation": 9, "reservation_keys": [0x0102030405060708, 0x090A0B0C0D0E0F10,
                                                      0x1112131415161718]}:
        fail("read keys spot check: %r" % r)
    r = ReportLuns.unmarshall_datain(luns)
    if r != {"luns": [{"lun%d" % i: 0x0001000000000000 * i} for i in range(6)]}:
        fail("report luns spot check: %r" % r)
    r = GetLBAStatus.unmarshall_datain(lbas)
    if r != {"lbas": [{"lba": 0x1000 * i + 5, "num_blocks": 0x100 + i, "p_status": i % 3}
                      for i in range(5)]}:
        fail("get lba status spot check: %r" % r)
    r = Inquiry.unmarshall_datain(dev_id, evpd=1)
    if len(r["designator_descriptors"]) != 15 or \
            r["designator_descriptors"][1]["designator"]["t10_vendor_id"] != b"ACME    ":
        fail("device identification spot check: %r" % r)
    r = ReportTargetPortGroups.unmarshall_datain(tpg)
    if [len(g["target_ports"]) for g in r["target_port_group_descriptors"]] != [3, 0, 1]:
        fail("target port groups spot check: %r" % r)
    r = ReadElementStatus.unmarshall_datain(res)
    if [len(p["element_descriptors"]) for p in r["element_status_pages"]] != [1, 3, 2, 1]:
        fail("read element status spot check: %r" % r)
    r = PersistentReserveInReadFullStatus.unmarshall_datain(fs)
    if len(r["full_status"]) != 7 or \
            r["full_status"][4]["transport_id"]["iscsi_initiator_session_id"] != "00023d000001":
        fail("read full status spot check: %r" % r)
    e = SCSICheckCondition(fixed)
    if (e.asc, e.ascq, e.data["sense_key"]) != (0x24, 0, 5) or "Illegal Request" not in str(e):
        fail("sense spot check: %s" % e)

    signal.alarm(0)

    total = sum(COUNTS.values())
    if "--stats" in sys.argv:
        for k in sorted(USAGE, key=USAGE.get)[-12:]:
            print("# line budget used by %-50s %5.1f%%" % (k, 100 * USAGE[k]))
    if golden_mode:
        print("GOLDEN = {")
        for k in sorted(DIGESTS):
            print('    "%s": "%s",' % (k, DIGESTS[k]))
        print("}")
        print("# %d decoder calls" % total)
        return 1 if FAILURES else 0

    for k in sorted(DIGESTS):
        if GOLDEN.get(k) != DIGESTS[k]:
            fail("%s: the outcomes differ from the recorded behaviour of the library "
                 "(digest %s, expected %s)" % (k, DIGESTS[k][:16], str(GOLDEN.get(k))[:16]))
    for k in GOLDEN:
        if k not in DIGESTS:
            fail("%s: not checked" % k)

    if FAILURES:
        print("FAIL: %d problem(s) in %d decoder calls" % (len(FAILURES), total))
        return 1
    print("PASS (%d decoder calls, %d decoders)" % (total, len(DIGESTS)))
    return 0


if __name__ == "__main__":
    sys.exit(main())
