#!/usr/bin/env python
# coding: utf-8
"""
Demo / behaviour check for property C18 (pyscsi.utils.enum.Enum).

An enumeration built from a mapping exposes exactly the supplied names with
their values; reverse lookup of a value returns a name carrying that value
(the first supplied) or "" if none does.  After any sequence of add/remove
the names, values and the reverse lookup agree with an ordinary dict that
underwent the same operations; adding an existing name / removing a missing
one raises KeyError; one enumeration never affects another.

Run:  cd /tmp/seed/C18t && PYTHONPATH=/tmp/seed/C18t /venv/bin/python SEED/demo.py
"""
import collections
import random
import sys
import types

# --- fake external bindings (not installed) -------------------------------
for _name in ("sgio", "iscsi", "libiscsi", "linux_nvme_ioctl"):
    if _name not in sys.modules:
        try:
            __import__(_name)
        except Exception:  # pragma: no cover - depends on the environment
            sys.modules[_name] = types.ModuleType(_name)

from pyscsi.pyscsi import scsi_enum_command  # noqa: E402
from pyscsi.pyscsi.scsi_opcode import OpCode  # noqa: E402
from pyscsi.utils.converter import get_opcode  # noqa: E402
from pyscsi.utils.enum import Enum  # noqa: E402
from pyscsi.utils.exception import NotSupportedArgumentError  # noqa: E402

CHECKS = 0
FAILURES = []


def check(cond, msg):
    global CHECKS
    CHECKS += 1
    if not cond:
        FAILURES.append(msg)
        if len(FAILURES) <= 25:
            print("FAIL: %s" % msg)


def raises(exc_type, func, *args, **kwargs):
    """Return the exception instance if func raises exactly exc_type, else None."""
    try:
        func(*args, **kwargs)
    except BaseException as ex:  # noqa: B902
        if type(ex) is exc_type:
            return ex
        return None
    return None


def model_lookup(model, value):
    """Reference reverse lookup on an ordinary (ordered) dict."""
    for k, v in model.items():
        if k.startswith("__"):
            continue
        if v == value:
            return k
    return ""


def model_names(model):
    return [k for k in model if not k.startswith("__")]


def agree(e, model, probes, tag):
    """Compare an Enum with the dict model."""
    names = e.keys
    check(type(names) is list, "%s: keys is not a list" % tag)
    check(names == model_names(model), "%s: keys %r != %r" % (tag, names, model_names(model)))
    check(e.keys is not names, "%s: keys should be a fresh list" % tag)
    for k, v in model.items():
        check(hasattr(e, k), "%s: missing attribute %r" % (tag, k))
        got = getattr(e, k)
        check(got is v or got == v, "%s: %r has value %r, want %r" % (tag, k, got, v))
        check(vars(e)[k] is v, "%s: stored object for %r differs" % (tag, k))
    for p in list(probes) + list(model.values()):
        want = model_lookup(model, p)
        got = e[p]
        check(got == want and type(got) is str, "%s: e[%r] = %r, want %r" % (tag, p, got, want))


# --------------------------------------------------------------------------
# 1. construction from a mapping / keyword arguments
# --------------------------------------------------------------------------
def test_construction():
    samples = [
        {},
        {"A": 1},
        {"A": 1, "B": 2, "C": 3},
        {"C": 3, "B": 2, "A": 1},
        {"a": 0, "b": False, "c": None, "d": "", "e": 0.0},
        {"x": "text", "y": b"bytes", "z": (1, 2), "w": 2.5},
        {"dup1": 7, "dup2": 7, "dup3": 7},
        {"one": 1, "true": True, "onef": 1.0},
        {"_private": 1, "_": 2, "_x_": 3, "x__": 4, "a__b": 5},
        {"big": 2 ** 70, "neg": -1, "hex": 0xFF},
        {"UPPER": 1, "upper": 2, "Upper": 3},
        {"ünï": 1, "ß": 2},
        {"lst": [1, 2], "dct": {"k": 1}, "st": frozenset([1])},
        dict(("K%03d" % i, i * 3) for i in range(300)),
    ]
    probes = [0, 1, 2, 3, 4, 7, True, False, None, "", "text", b"bytes", (1, 2),
              2.5, 1.0, -1, 255, 2 ** 70, [1, 2], {"k": 1}, frozenset([1]),
              "A", "missing", 897, 898, object()]
    for n, src in enumerate(samples):
        snapshot = dict(src)
        e = Enum(src)
        check(src == snapshot, "construction #%d modified the source mapping" % n)
        agree(e, snapshot, probes, "dict #%d" % n)
        check(type(e) is Enum, "dict #%d: type(e) is %r" % (n, type(e)))
        check(isinstance(e, type), "dict #%d: not a class" % n)
        check(e.__name__ == "Enum", "dict #%d: __name__ %r" % (n, e.__name__))
        check(e.__bases__ == (object,), "dict #%d: bases %r" % (n, e.__bases__))
        if snapshot:
            k = Enum(**snapshot)
            agree(k, snapshot, probes, "kwargs #%d" % n)
            check(type(k) is Enum, "kwargs #%d: type" % n)
        # later changes of the source mapping are not seen
        src["LATER"] = "later-value"
        check("LATER" not in e.keys and not hasattr(e, "LATER"),
              "dict #%d: enum follows source mapping" % n)
        check(e["later-value"] == "", "dict #%d: enum sees later value" % n)

    # unique values: reverse lookup gives the name itself
    uniq = dict(("N%d" % i, i) for i in range(64))
    e = Enum(uniq)
    for k, v in uniq.items():
        check(e[v] == k, "unique: e[%r] != %r" % (v, k))
        check(getattr(e, e[v]) == v, "unique roundtrip %r" % v)

    # dict wins over keyword arguments when both are given
    e = Enum({"A": 1}, B=2)
    check(e.keys == ["A"] and not hasattr(e, "B"), "dict+kwargs: %r" % e.keys)
    e = Enum({}, B=2)
    check(e.keys == [] and not hasattr(e, "B"), "emptydict+kwargs: %r" % e.keys)
    # dunder names are stored but not listed / not found by value
    e = Enum({"__hidden": 5, "shown": 6})
    check(e.keys == ["shown"], "dunder listed: %r" % e.keys)
    check(vars(e)["__hidden"] == 5, "dunder not stored")
    check(e[5] == "" and e[6] == "shown", "dunder reverse lookup")
    # doc / module of created class
    e = Enum({"A": 1})
    check(e.__doc__ is None, "doc of created enum: %r" % (e.__doc__,))
    e = Enum({"__doc__": "hello", "A": 1})
    check(e.__doc__ == "hello" and e.keys == ["A"], "explicit __doc__")


def test_construction_errors():
    class NotADict(collections.abc.Mapping):
        def __getitem__(self, k):
            return 1

        def __iter__(self):
            return iter(["A"])

        def __len__(self):
            return 1

    class dict_sub(dict):
        pass

    bad_calls = [
        ((), {}),
        ((1,), {}),
        ((1, 2, 3), {}),
        (((1, 2, 3),), {}),
        (([("A", 1)],), {}),
        (("A",), {}),
        ((None,), {}),
        (({"A": 1}, {"B": 2}), {}),
        (({"A": 1}, 1), {}),
        ((collections.OrderedDict(A=1),), {}),
        ((collections.defaultdict(int, A=1),), {}),
        ((types.MappingProxyType({"A": 1}),), {}),
        ((NotADict(),), {}),
        ((dict_sub(A=1),), {}),
        ((Enum({"A": 1}),), {}),
        ((dict,), {}),
    ]
    for args, kwargs in bad_calls:
        ex = raises(NotSupportedArgumentError, Enum, *args, **kwargs)
        check(ex is not None, "Enum(*%r) did not raise NotSupportedArgumentError" % (args,))
        if ex is not None:
            check(ex.args == ("use either as dict or provide keyword arguments",),
                  "error text %r" % (ex.args,))
    # a wrong positional argument is tolerated when keyword arguments exist
    for args in [(1,), (1, 2), ((1, 2),), ({"Z": 1}, {"Y": 2}),
                 (collections.OrderedDict(Z=1),)]:
        e = Enum(*args, A=1, B=2)
        check(e.keys == ["A", "B"] and e.A == 1 and e.B == 2 and not hasattr(e, "Z"),
              "args %r + kwargs gave %r" % (args, e.keys))
    # the exception type itself
    check(issubclass(NotSupportedArgumentError, Exception), "exception base")
    check(NotSupportedArgumentError.__mro__ == (NotSupportedArgumentError, Exception,
                                                BaseException, object), "exception mro")
    check(NotSupportedArgumentError.__name__ == "NotSupportedArgumentError", "exception name")
    check(NotSupportedArgumentError.__module__ == "pyscsi.utils.exception", "exception module")
    check(str(NotSupportedArgumentError("x")) == "x", "exception str")
    check(not issubclass(NotSupportedArgumentError, (KeyError, TypeError, ValueError)),
          "exception is too specific")


# --------------------------------------------------------------------------
# 2. reverse lookup details
# --------------------------------------------------------------------------
class Loud(object):
    """value whose __eq__ records how it was called"""

    log = []

    def __init__(self, tag, answer):
        self.tag = tag
        self.answer = answer

    def __eq__(self, other):
        Loud.log.append((self.tag, other if not isinstance(other, Loud) else other.tag))
        return self.answer

    __hash__ = object.__hash__


class Boom(Exception):
    pass


class Exploding(object):
    def __eq__(self, other):
        raise Boom("compared")

    __hash__ = object.__hash__


def test_reverse_lookup():
    nan = float("nan")
    e = Enum({"n": nan, "m": 1})
    check(e[nan] == "", "nan must not be found (no identity shortcut)")
    check(e[1] == "m", "value after nan")

    # first supplied wins
    e = Enum({"z": 1, "a": 1, "m": 1})
    check(e[1] == "z", "first supplied must win, got %r" % e[1])
    check(e[True] == "z" and e[1.0] == "z", "equal values of other types")
    e = Enum({"a": 1, "z": 1})
    check(e[1] == "a", "first supplied must win (2)")

    # comparison is stored_value == probe, in order, and stops at the first hit
    Loud.log = []
    e = Enum({"p": Loud("p", False), "q": Loud("q", True), "r": Loud("r", True)})
    check(e["probe"] == "q", "Loud lookup")
    check(Loud.log == [("p", "probe"), ("q", "probe")], "comparison order %r" % Loud.log)
    # truthiness of the comparison result decides
    Loud.log = []
    e = Enum({"p": Loud("p", 0), "q": Loud("q", "yes"), "r": Loud("r", [])})
    check(e[5] == "q", "truthy comparison result")
    Loud.log = []
    e = Enum({"p": Loud("p", 0), "r": Loud("r", [])})
    check(e[5] == "", "falsy comparison result")
    check(Loud.log == [("p", 5), ("r", 5)], "all compared %r" % Loud.log)
    # the probe's reflected __eq__ is used for plain stored values
    Loud.log = []
    e = Enum({"i": 3, "j": 4})
    check(e[Loud("probe", True)] == "i", "reflected eq")
    check(Loud.log == [("probe", 3)], "reflected eq log %r" % Loud.log)

    # exceptions of a comparison propagate unchanged
    e = Enum({"a": 1, "b": Exploding(), "c": 3})
    check(e[1] == "a", "lookup before exploding value")
    check(raises(Boom, lambda: e[3]) is not None, "exception from __eq__ must propagate")
    check(raises(Boom, lambda: e["zzz"]) is not None, "exception from __eq__ must propagate (2)")

    # unhashable probes are fine
    e = Enum({"a": [1], "b": {"x": 1}, "c": {1, 2}})
    check(e[[1]] == "a" and e[{"x": 1}] == "b" and e[{2, 1}] == "c" and e[[2]] == "",
          "unhashable probes")

    # descriptor-like values are read through normal attribute access
    def func(x):
        return x

    sm = staticmethod(func)
    prop = property(func)
    e = Enum({"f": func, "s": sm, "p": prop, "after": 9})
    check(e[func] == "f", "function value")
    check(e[prop] == "p", "property value")
    check(e[9] == "after", "plain after descriptors")
    check(e[sm] == "", "staticmethod object is unwrapped on access, got %r" % e[sm])
    e = Enum({"s": sm, "f": func})
    check(e[func] == "s", "staticmethod unwrapped equals function: %r" % e[func])

    # names that collide with the helpers of the enumeration itself
    e = Enum({"keys": 1, "other": 1})
    check(e.keys == ["keys", "other"], "name 'keys': %r" % (e.keys,))
    check(e[1] == "other", "name 'keys' reverse lookup: %r" % e[1])
    e = Enum({"add": 1, "remove": 2, "mro": 3, "__getitem__": 4, "x": 2})
    check(e.keys == ["add", "remove", "mro", "x"], "helper names listed: %r" % e.keys)
    check(e.add == 1 and e.remove == 2 and e.mro == 3, "helper names readable")
    check(e[1] == "add" and e[2] == "remove" and e[3] == "mro" and e[4] == "",
          "helper names reverse lookup")
    Enum.add(e, "y", 10)
    check(e.keys == ["add", "remove", "mro", "x", "y"] and e[10] == "y", "unbound add")
    check(raises(KeyError, Enum.add, e, "add", 5) is not None, "unbound add existing")
    Enum.remove(e, "add")
    check(e.keys == ["remove", "mro", "x", "y"] and e[1] == "", "unbound remove")
    check(callable(e.add), "add is a method again")
    e.add("add", 11)
    check(e.add == 11 and e[11] == "add", "add named add")
    for priv in ("_members", "_items", "_names", "_public", "_lookup", "_find",
                 "_namespace", "_pairs", "_keys", "_key_list", "_is_public",
                 "_collect", "_translate", "cls", "self", "name", "value"):
        e = Enum({priv: 1, "k": 2})
        check(e.keys == [priv, "k"] and e[1] == priv and e[2] == "k" and e[3] == "",
              "private-looking name %r" % priv)
        e.add("n", 3)
        check(raises(KeyError, e.add, priv, 3) is not None, "add existing %r" % priv)
        e.remove(priv)
        check(e.keys == ["k", "n"] and e[1] == "" and e[3] == "n", "remove %r" % priv)
        check(raises(KeyError, e.remove, priv) is not None, "remove missing %r" % priv)


# --------------------------------------------------------------------------
# 3. add / remove against a dict model
# --------------------------------------------------------------------------
def test_add_remove_basic():
    e = Enum({"A": 1, "B": 2, "C": 3})
    ex = raises(KeyError, e.add, "A", 6)
    check(ex is not None and ex.args == ("key A already exist",), "add existing: %r" % (ex,))
    check(e.A == 1 and e.keys == ["A", "B", "C"], "failed add changed the enum")
    ex = raises(KeyError, e.add, "A", 1)
    check(ex is not None, "add existing with same value")
    check(e.add("D", 1) is None, "add returns None")
    check(e.keys == ["A", "B", "C", "D"] and e.D == 1 and e[1] == "A", "after add D")
    check(e.remove("A") is None, "remove returns None")
    check(e.keys == ["B", "C", "D"] and not hasattr(e, "A") and e[1] == "D", "after remove A")
    ex = raises(KeyError, e.remove, "A")
    check(ex is not None, "remove missing")
    if ex is not None:
        check(ex.args == ("Key type object 'Enum' has no attribute 'A' not found",),
              "remove missing text %r" % (ex.args,))
        check(type(ex.__cause__) is AttributeError, "remove missing cause %r" % (ex.__cause__,))
        check(ex.__cause__ is ex.__context__, "cause is context")
        check(ex.__suppress_context__ is True, "raise ... from")
    check(e.keys == ["B", "C", "D"], "failed remove changed the enum")
    ex = raises(KeyError, e.remove, "never")
    check(ex is not None, "remove never-present")
    # add again after remove goes to the end
    e.add("A", 100)
    check(e.keys == ["B", "C", "D", "A"] and e.A == 100 and e[100] == "A" and e[1] == "D",
          "re-add")
    # removing everything
    for k in list(e.keys):
        e.remove(k)
    check(e.keys == [] and e[1] == "" and e[None] == "", "empty after removals")
    e.add("only", None)
    check(e.keys == ["only"] and e[None] == "only" and e.only is None, "add None value")
    # empty start
    e = Enum({})
    check(raises(KeyError, e.remove, "x") is not None, "remove from empty")
    e.add("x", 0)
    check(e.keys == ["x"] and e[0] == "x" and e[False] == "x", "add to empty")
    # keyword-built behaves the same
    e = Enum(A=1)
    check(raises(KeyError, e.add, "A", 2) is not None, "kwargs add existing")
    e.remove("A")
    check(raises(KeyError, e.remove, "A") is not None, "kwargs remove missing")
    # keyword call of the methods
    e = Enum(A=1)
    e.add(key="B", value=2)
    e.remove(key="A")
    check(e.keys == ["B"], "keyword call of add/remove")
    # dunder names: not listed, so can be "added" again and again
    e = Enum({"A": 1})
    e.add("__x", 1)
    e.add("__x", 2)
    check(vars(e)["__x"] == 2 and e.keys == ["A"] and e[2] == "", "dunder add")
    e.remove("__x")
    check("__x" not in vars(e), "dunder remove")
    check(raises(KeyError, e.remove, "__x") is not None, "dunder remove twice")
    # non-string names are refused by the class machinery, enum unchanged
    for bad in (1, None, b"A", ("A",)):
        check(raises(TypeError, e.add, bad, 1) is not None, "add(%r) should be TypeError" % (bad,))
        check(raises(TypeError, e.remove, bad) is not None, "remove(%r) should be TypeError" % (bad,))
    check(e.keys == ["A"], "enum changed by refused names")
    # the keys property can neither be removed nor listed as a name by remove
    ex = raises(KeyError, e.remove, "keys")
    check(ex is not None, "remove('keys') on enum without such name")
    check(e.keys == ["A"], "keys still works")
    # wrong arity
    check(raises(TypeError, e.add, "Z") is not None, "add with one argument")
    check(raises(TypeError, e.remove) is not None, "remove without argument")


def test_random_sequences():
    rnd = random.Random(18)
    names = ["N%d" % i for i in range(12)] + ["_p", "x_", "Ä", "keys2", "a b", "", "1", "__h"]
    values = [0, 1, 2, 3, True, False, None, "s", "", 1.0, 2.5, (1,), -1, 0xFF, "N1"]
    probes = values + [4, "none", (2,), 256]
    for run in range(120):
        start = {}
        for _ in range(rnd.randrange(0, 7)):
            start[rnd.choice(names)] = rnd.choice(values)
        model = dict(start)
        if start and rnd.random() < 0.3:
            e = Enum(**start)
        else:
            e = Enum(dict(start))
        bystander_model = {"N0": 1, "N1": 2, "q": 3}
        bystander = Enum(dict(bystander_model))
        for step in range(rnd.randrange(5, 60)):
            name = rnd.choice(names)
            tag = "run %d step %d" % (run, step)
            if rnd.random() < 0.55:
                value = rnd.choice(values)
                if name in model and not name.startswith("__"):
                    ex = raises(KeyError, e.add, name, value)
                    check(ex is not None, "%s: add existing %r not refused" % (tag, name))
                    if ex is not None:
                        check(ex.args == ("key %s already exist" % name,), "%s: text" % tag)
                else:
                    e.add(name, value)
                    # an ordinary dict keeps the position of an overwritten key
                    model[name] = value
            else:
                if name in model:
                    e.remove(name)
                    del model[name]
                else:
                    ex = raises(KeyError, e.remove, name)
                    check(ex is not None, "%s: remove missing %r not refused" % (tag, name))
            if step % 7 == 0:
                agree(e, model, probes, tag)
        agree(e, model, probes, "run %d end" % run)
        agree(bystander, bystander_model, probes, "run %d bystander" % run)
        if len(FAILURES) > 25:
            return


# --------------------------------------------------------------------------
# 4. isolation between enumerations
# --------------------------------------------------------------------------
def test_isolation():
    src = {"A": 1, "B": 2}
    e1 = Enum(src)
    e2 = Enum(src)
    e3 = Enum(**src)
    check(e1 is not e2 and e1 is not e3, "distinct objects")
    e1.add("C", 3)
    e1.remove("A")
    check(e2.keys == ["A", "B"] and e3.keys == ["A", "B"], "add/remove leaked to siblings")
    check(src == {"A": 1, "B": 2}, "add/remove leaked to the source mapping")
    check(e2[3] == "" and e3[3] == "" and e2[1] == "A", "reverse lookup leaked")
    check(not hasattr(e2, "C") and not hasattr(Enum, "C") and not hasattr(Enum, "A"),
          "attributes leaked")
    e2.add("C", 30)
    check(e1.C == 3 and e2.C == 30 and not hasattr(e3, "C"), "same name, different enums")
    e4 = Enum({"A": 1, "B": 2})
    check(e4.keys == ["A", "B"] and not hasattr(e4, "C"), "later enum polluted")
    # many enums, each altered differently
    enums = [Enum({"base": 0}) for _ in range(50)]
    for i, e in enumerate(enums):
        e.add("own%d" % i, i + 1)
        if i % 2:
            e.remove("base")
    for i, e in enumerate(enums):
        want = ["own%d" % i] if i % 2 else ["base", "own%d" % i]
        check(e.keys == want, "enum %d has %r" % (i, e.keys))
        check(e[i + 1] == "own%d" % i and e[i + 2] == "", "enum %d lookup" % i)
    # shared mutable value objects are shared, not the enums
    shared = []
    a = Enum({"v": shared})
    b = Enum({"v": shared})
    check(a.v is b.v is shared, "values are stored as given")
    a.remove("v")
    check(b.v is shared and b.keys == ["v"], "remove with shared value leaked")
    # Enum itself keeps no names
    check(not [k for k in vars(Enum) if k in ("A", "B", "C", "base", "v")], "metaclass polluted")
    check(isinstance(vars(Enum)["keys"], property), "keys is a property of Enum")
    for meth in ("add", "remove", "__getitem__", "__new__", "__init__"):
        check(meth in vars(Enum), "Enum.%s defined on the class" % meth)


# --------------------------------------------------------------------------
# 5. OpCode and the library's own enumerations
# --------------------------------------------------------------------------
def test_opcode():
    actions = {"SA_ONE": 1, "SA_TWO": 2}
    o1 = OpCode("FIRST", 0xA3, actions)
    o2 = OpCode("SECOND", 0xA4, actions)
    check(type(o1.serviceaction) is Enum and o1.serviceaction is not o2.serviceaction,
          "each OpCode has its own service action enum")
    check(o1.serviceaction.keys == ["SA_ONE", "SA_TWO"], "service action names")
    check(o1.serviceaction.SA_TWO == 2 and o1.serviceaction[1] == "SA_ONE"
          and o1.serviceaction[3] == "", "service action values")
    o1.serviceaction.add("SA_THREE", 3)
    o1.serviceaction.remove("SA_ONE")
    check(o2.serviceaction.keys == ["SA_ONE", "SA_TWO"] and actions == {"SA_ONE": 1, "SA_TWO": 2},
          "service actions leaked")
    check(o1.serviceaction.keys == ["SA_TWO", "SA_THREE"], "service actions after change")
    actions["SA_NEW"] = 9
    check(o2.serviceaction.keys == ["SA_ONE", "SA_TWO"], "service actions follow source")
    o3 = OpCode("EMPTY", 0x00, {})
    check(o3.serviceaction.keys == [] and o3.serviceaction[0] == "", "empty service actions")
    check(raises(KeyError, o3.serviceaction.remove, "x") is not None, "empty sa remove")
    for bad in (None, [], "abc", 5, Enum({"A": 1}), collections.OrderedDict(A=1)):
        check(raises(NotSupportedArgumentError, OpCode, "BAD", 1, bad) is not None,
              "OpCode with service actions %r" % (bad,))
    check(raises(TypeError, OpCode, "X", 1) is not None, "OpCode needs three arguments")
    o = OpCode(name="KW", code=0x12, serviceaction={"A": 1})
    check(o.name == "KW" and o.value == 0x12 and o.serviceaction.A == 1, "keyword construction")
    # str / repr
    check(str(o1) == "FIRST - a3" and repr(o1) == "FIRST - a3", "str/repr %r" % str(o1))
    check(str(o3) == "EMPTY - 0", "str of zero code %r" % str(o3))
    check("%s" % OpCode("N", 0x1FF, {}) == "N - 1ff", "large code")
    check(str(OpCode(5, True, {})) == "5 - 1", "odd name / code types")
    check(str(OpCode(None, -255, {})) == "None - -ff", "negative code")
    check(raises(TypeError, str, OpCode("N", 1.5, {})) is not None, "float code")
    check(raises(TypeError, str, OpCode("N", None, {})) is not None, "None code")
    check(raises(TypeError, str, OpCode("N", "12", {})) is not None, "str code")
    check(raises(TypeError, repr, OpCode("N", (1,), {})) is not None, "tuple code")
    check(raises(TypeError, repr, OpCode("N", (1, 2), {})) is not None, "2-tuple code")
    check(str(OpCode(("a", "b"), 1, {})) == "('a', 'b') - 1", "tuple name")

    class Idx(object):
        def __index__(self):
            return 26

    check(str(OpCode("I", Idx(), {})) == "I - 1a", "__index__ code")

    class Fmt(str):
        def __format__(self, spec):
            return "FORMATTED"

        def __str__(self):
            return "STR"

    check(str(OpCode(Fmt("raw"), 1, {})) == "STR - 1", "name goes through str()")
    # setters
    o1.name = "RENAMED"
    o1.value = 0x10
    check(o1.name == "RENAMED" and o1.value == 0x10 and str(o1) == "RENAMED - 10", "setters")
    check(o2.name == "SECOND" and o2.value == 0xA4, "setter leaked")
    new_sa = Enum({"Z": 26})
    o1.serviceaction = new_sa
    check(o1.serviceaction is new_sa, "serviceaction setter stores the object as is")
    o1.serviceaction = {"plain": "dict"}
    check(o1.serviceaction == {"plain": "dict"}, "serviceaction setter does not convert")
    check(o2.serviceaction.keys == ["SA_ONE", "SA_TWO"], "serviceaction setter leaked")
    for attr in ("name", "value", "serviceaction"):
        p = vars(OpCode)[attr]
        check(isinstance(p, property) and p.fget is not None and p.fset is not None
              and p.fdel is None, "OpCode.%s is a read/write property" % attr)
        check(raises(AttributeError, delattr, o2, attr) is not None, "OpCode.%s not deletable" % attr)
    # OpCode objects compare by identity, so reverse lookup finds exactly them
    a = OpCode("SAME", 1, {})
    b = OpCode("SAME", 1, {})
    check(a != b and a == a, "OpCode identity comparison")
    check(raises(TypeError, hash, a) is None and isinstance(hash(a), int), "OpCode hashable")
    e = Enum({"first": a, "second": b})
    check(e[a] == "first" and e[b] == "second" and e[OpCode("SAME", 1, {})] == "", "OpCode lookup")
    # bare instance defaults
    bare = OpCode.__new__(OpCode)
    check(bare.name == "" and bare.value == 0xFF and bare.serviceaction is None, "bare defaults")
    check(str(bare) == " - ff", "bare str")


def test_library_enums():
    count = 0
    for modname in ("spc", "sbc", "ssc", "smc", "mmc"):
        e = getattr(scsi_enum_command, modname, None)
        if e is None:
            continue
        count += 1
        check(type(e) is Enum, "%s is an Enum" % modname)
        names = e.keys
        check(len(names) > 5 and len(set(names)) == len(names), "%s names" % modname)
        check(names == [k for k in vars(e) if not k.startswith("__")], "%s names order" % modname)
        for n in names:
            op = getattr(e, n)
            check(isinstance(op, OpCode), "%s.%s is an OpCode" % (modname, n))
            check(e[op] == n, "%s[%s] reverse lookup gave %r" % (modname, n, e[op]))
            check(type(op.serviceaction) is Enum, "%s.%s service actions" % (modname, n))
            check(str(op) == "%s - %x" % (op.name, op.value), "%s.%s str" % (modname, n))
            for sa in op.serviceaction.keys:
                v = getattr(op.serviceaction, sa)
                found = op.serviceaction[v]
                check(getattr(op.serviceaction, found) == v, "%s.%s sa %s" % (modname, n, sa))
        check(e[0x12] == "" and e["INQUIRY"] == "" and e[None] == "", "%s lookup by non-member" % modname)
        check(raises(KeyError, e.add, names[0], 1) is not None, "%s add existing" % modname)
        check(raises(KeyError, e.remove, "NO_SUCH_COMMAND") is not None, "%s remove missing" % modname)
        check(e.keys == names, "%s unchanged by refused operations" % modname)
        # add and remove again leaves it as it was
        e.add("DEMO_TEMP", 12345)
        check(e.keys == names + ["DEMO_TEMP"] and e[12345] == "DEMO_TEMP", "%s temp add" % modname)
        for other in ("spc", "sbc", "ssc", "smc"):
            o = getattr(scsi_enum_command, other)
            if o is not e:
                check(not hasattr(o, "DEMO_TEMP") and o[12345] == "", "%s leaked into %s" % (modname, other))
        e.remove("DEMO_TEMP")
        check(e.keys == names and e[12345] == "" and not hasattr(e, "DEMO_TEMP"),
              "%s temp remove" % modname)
    check(count >= 4, "library enums found: %d" % count)
    spc = scsi_enum_command.spc
    check(spc.INQUIRY.value == 0x12 and spc.INQUIRY.name == "INQUIRY", "spc.INQUIRY")
    check(scsi_enum_command.smc.WRITE_BUFFER.value == 0x3B, "smc.WRITE_BUFFER")
    check(spc.SPC_OPCODE_A3.serviceaction is not spc.SPC_OPCODE_A4.serviceaction,
          "A3/A4 service action enums are separate")
    check(spc.SPC_OPCODE_A3.serviceaction.keys == spc.SPC_OPCODE_A4.serviceaction.keys,
          "A3/A4 service action names")
    # get_opcode walks the names
    got = list(get_opcode(spc, "A3"))
    check(got == [spc.SPC_OPCODE_A3], "get_opcode A3: %r" % got)
    check(list(get_opcode(spc, "??")) == [], "get_opcode none")
    e = Enum({"X_16": 1, "Y_16": 2, "Z_10": 3, "6": 4})
    check(list(get_opcode(e, "16")) == [1, 2] and list(get_opcode(e, "10")) == [3], "get_opcode order")
    e.remove("X_16")
    e.add("W_16", 5)
    check(list(get_opcode(e, "16")) == [2, 5], "get_opcode after add/remove")


def main():
    tests = [
        test_construction,
        test_construction_errors,
        test_reverse_lookup,
        test_add_remove_basic,
        test_random_sequences,
        test_isolation,
        test_opcode,
        test_library_enums,
    ]
    for t in tests:
        try:
            t()
        except BaseException as ex:  # noqa: B902
            import traceback

            traceback.print_exc()
            FAILURES.append("%s crashed: %r" % (t.__name__, ex))
    if FAILURES:
        print("FAILED: %d of %d checks" % (len(FAILURES), CHECKS))
        return 1
    print("PASS (%d checks)" % CHECKS)
    return 0


if __name__ == "__main__":
    sys.exit(main())
