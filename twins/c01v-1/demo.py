#!/usr/bin/env python
# coding: utf-8
"""
Property C01 demo: every CDB the library builds has the SAM length for its
operation code, carries each argument at the byte/bit position the standards
assign to it, has the right operation code / service action, and every other
bit is zero.

The expectations in this file are written independently of the library: field
positions are given in the notation of the standards (byte, most significant
bit, width in bits) and the reference CDB is assembled as one big integer.

run as:  cd /tmp/seed/C01v && PYTHONPATH=/tmp/seed/C01v /venv/bin/python SEED/demo.py
"""
import random
import sys
import types

# the transport bindings are optional; provide tiny stand-ins when missing
for _name in ("sgio", "iscsi"):
    if _name not in sys.modules:
        try:
            __import__(_name)
        except Exception:  # pragma: no cover
            sys.modules[_name] = types.ModuleType(_name)

import pyscsi.pyscsi.scsi as scsi_module
from pyscsi.pyscsi import scsi_enum_command as enum_module
from pyscsi.pyscsi.scsi import SCSI
from pyscsi.pyscsi.scsi_command import SCSICommand
from pyscsi.pyscsi.scsi_enum_command import mmc, sbc, smc, spc, ssc
from pyscsi.pyscsi.scsi_opcode import OpCode
from pyscsi.utils.converter import (
    decode_bits,
    encode_dict,
    get_opcode,
    scsi_ba_to_int,
    scsi_int_to_ba,
)

RNG = random.Random(0xC01)
CHECKS = 0


def check(cond, *msg):
    global CHECKS
    CHECKS += 1
    if not cond:
        print("FAIL:", *msg)
        sys.exit(1)


# --------------------------------------------------------------------------
# expected operation code tables (key=value[:service action table][~name])
# --------------------------------------------------------------------------
OPCODES = {
    "spc": """
SPC_OPCODE_A4=A4:T0 SPC_OPCODE_A3=A3:T0 ACCESS_CONTROL_IN=86 ACCESS_CONTROL_OUT=87 EXTENDED_COPY=83
INQUIRY=12 LOG_SELECT=4C LOG_SENSE=4D MODE_SELECT_6=15 MODE_SELECT_10=55 MODE_SENSE_6=1A
MODE_SENSE_10=5A PERSISTENT_RESERVE_IN=5E:T1 PERSISTENT_RESERVE_OUT=5F:T2
PREVENT_ALLOW_MEDIUM_REMOVAL=1E READ_ATTRIBUTE=8C READ_BUFFER_10=3C READ_BUFFER_16=9B
READ_MEDIA_SERIAL_NUMBER=AB:T3 RECEIVE_COPY_RESULTS=84 RECEIVE_DIAGNOSTIC_RESULTS=1C REPORT_LUNS=A0
REQUEST_SENSE=03 SEND_DIAGNOSTIC=1D TEST_UNIT_READY=00 WRITE_ATTRIBUTE=8D WRITE_BUFFER=3B
""",
    "sbc": """
SBC_OPCODE_7F=7F:T0 SBC_OPCODE_A4=A4:T0 SBC_OPCODE_A3=A3:T0 SBC_OPCODE_9E=9E:T0 ACCESS_CONTROL_IN=86
ACCESS_CONTROL_OUT=87 ATA_PASS_THROUGH_12=A1 ATA_PASS_THROUGH_16=85 COMPARE_AND_WRITE=89
EXTENDED_COPY=83 FORMAT_UNIT=04 INQUIRY=12 LOG_SELECT=4C LOG_SENSE=4D MAINTENANCE_IN=A3:T4
MAINTENANCE_OUT=A4:T5 MODE_SELECT_6=15 MODE_SELECT_10=55 MODE_SENSE_6=1A MODE_SENSE_10=5A
ORWRITE_16=8B PERSISTENT_RESERVE_IN=5E:T1 PERSISTENT_RESERVE_OUT=5F:T2 PRE_FETCH_10=34
PRE_FETCH_16=90 PREVENT_ALLOW_MEDIUM_REMOVAL=1E READ_6=08 READ_10=28 READ_12=A8 READ_16=88
READ_ATTRIBUTE=8C READ_BUFFER_10=3C READ_BUFFER_16=9B READ_CAPACITY_10=25 READ_DEFECT_DATA_10=37
READ_DEFECT_DATA_12=B7 READ_LONG_10=3E READ_LONG_16=9E:T6 REASSIGN_BLOCKS=07 RECEIVE_COPY_RESULTS=84
RECEIVE_DIAGNOSTIC_RESULTS=1C REDUNDANCY_GROUP_IN=BA REDUNDANCY_GROUP_OUT=BB~REDUNDANCY_GROUP_OT
REPORT_LUNS=A0 REQUEST_SENSE=03 SECURITY_PROTOCOL_IN=A2 SECURITY_PROTOCOL_OUT=B5 SEND_DIAGNOSTIC=1D
SPARE_IN=BC SPARE_OUT=BD START_STOP_UNIT=1B SYNCHRONIZE_CACHE_10=35 SYNCHRONIZE_CACHE_16=91
TEST_UNIT_READY=00 UNMAP=42 VERIFY_10=2F VERIFY_12=AF VERIFY_16=8F VOLUME_SET_IN=BE
VOLUME_SET_OUT=BF WRITE_6=0A WRITE_10=2A WRITE_12=AA WRITE_16=8A WRITE_AND_VERIFY_10=2E
WRITE_AND_VERIFY_12=AE WRITE_AND_VERIFY_16=8E WRITE_ATTRIBUTE=8D WRITE_BUFFER=3B WRITE_LONG_10=3F
WRITE_LONG_16=9F:T7 WRITE_SAME_10=41 WRITE_SAME_16=93 XDREAD_10=52 XDWRITE_10=50 XDWRITEREAD_10=53
XPWRITE_10=51
""",
    "ssc": """
SSC_OPCODE_A4=A4:T0 SSC_OPCODE_A3=A3:T0 ACCESS_CONTROL_IN=86 ACCESS_CONTROL_OUT=87 ERASE_16=93
EXTENDED_COPY=83 FORMAT_MEDIUM=04 INQUIRY=12 LOAD_UNLOAD=1B LOCATE_16=92 LOG_SELECT=4C LOG_SENSE=4D
MODE_SELECT_6=15 MODE_SELECT_10=55 MODE_SENSE_6=1A MODE_SENSE_10=5A MOVE_MEDIUM_ATTACHED=A7
PERSISTENT_RESERVE_IN=5E:T1 PERSISTENT_RESERVE_OUT=5F:T2 PREVENT_ALLOW_MEDIUM_REMOVAL=1E READ_6=08
READ_16=88 READ_ATTRIBUTE=8C READ_BLOCK_LIMITS=05 READ_BUFFER_10=3C READ_BUFFER_16=9B
READ_ELEMENT_STATUS_ATTACHED=B4 READ_POSITION=34 READ_REVERSE_6=0F READ_REVERSE_16=81
RECEIVE_COPY_RESULTS=84 RECEIVE_DIAGNOSTIC_RESULTS=1C RECOVER_BUFFERED_DATA=14 REPORT_ALIAS=A3:T8
REPORT_DENSITY_SUPPORT=44 REPORT_LUNS=A0 REQUEST_SENSE=03 REWIND=01 SEND_DIAGNOSTIC=1D
SET_CAPACITY=0B SPACE_6=11 SPACE_16=91 TEST_UNIT_READY=00 VERIFY_6=13 VERIFY_16=8F WRITE_6=0A
WRITE_16=8A WRITE_ATTRIBUTE=8D WRITE_BUFFER=3B WRITE_FILEMARKS_6=10 WRITE_FILEMARKS_16=80
""",
    "smc": """
SMC_OPCODE_A4=A4:T0 SMC_OPCODE_A3=A3:T0 ACCESS_CONTROL_IN=86 ACCESS_CONTROL_OUT=87
EXCHANGE_MEDIUM=A6 INITIALIZE_ELEMENT_STATUS=07 INITIALIZE_ELEMENT_STATUS_WITH_RANGE=37 INQUIRY=12
LOG_SELECT=4C LOG_SENSE=4D MAINTENANCE_IN=A3:T4 MAINTENANCE_OUT=A4:T5 MODE_SELECT_6=15
MODE_SELECT_10=55 MODE_SENSE_6=1A MODE_SENSE_10=5A MOVE_MEDIUM=A5
OPEN_CLOSE_IMPORT_EXPORT_ELEMENT=1B:T0~SMC_OPCODE_1B PERSISTENT_RESERVE_IN=5E:T1
PERSISTENT_RESERVE_OUT=5F:T2 PREVENT_ALLOW_MEDIUM_REMOVAL=1E POSITION_TO_ELEMENT=2B
READ_ATTRIBUTE=8C READ_BUFFER_10=3C READ_BUFFER_16=9B READ_ELEMENT_STATUS=B8
RECEIVE_DIAGNOSTIC_RESULTS=1C REDUNDANCY_GROUP_IN=BA REDUNDANCY_GROUP_OUT=BB RELEASE_6=17
RELEASE_10=57 REPORT_LUNS=A0 REPORT_VOLUME_TYPES_SUPPORTED=44 REQUEST_VOLUME_ELEMENT_ADDRESS=B5
REQUEST_SENSE=03 RESERVE_6=16 RESERVE_10=56 SEND_DIAGNOSTIC=1D SEND_VOLUME_TAG=B6 SPARE_IN=BC
SPARE_OUT=BD TEST_UNIT_READY=00 VOLUME_SET_IN=BE VOLUME_SET_OUT=BF WRITE_ATTRIBUTE=8D
WRITE_BUFFER=3B
""",
    "mmc": """
BLANK=A1 CLOSE_TRACK_SESSION=5B FORMAT_UNIT=04 GET_CONFIGURATION=46 GET_EVENT_STATUS_NOTIFICATION=4A
GET_PERFORMANCE=AC INQUIRY=12 LOAD_UNLOAD_MEDIUM=A6 MECHANISM_STATUS=BD MODE_SELECT_10=55
MODE_SENSE_10=5A PREVENT_ALLOW_MEDIUM_REMOVAL=1E READ_10=28 READ_12=A8 READ_BUFFER_10=3C
READ_BUFFER_16=9B READ_BUFFER_CAPACITY=5C READ_CAPACITY=25 READ_CD=BE READ_CD_MSF=B9
READ_DISC_INFORMATION=51 READ_DISC_STRUCTURE=AD READ_FORMAT_CAPACITIES=23 READ_TOC_PMA_ATIP=43
READ_TRACK_INFORMATION=52 REPAIR_TRACK=58 REPORT_KEY=A4 REPORT_LUNS=A0 REQUEST_SENSE=03
RESERVE_TRACK=53 SECURITY_PROTOCOL_IN=A2 SECURITY_PROTOCOL_OUT=B5 SEEK_10=2B SEND_CUE_SHEET=5D
SEND_DISC_STRUCTURE=BF SEND_KEY=A3 SEND_OPC_INFORMATION=54 SET_CD_SPEED=BB SET_READ_AHEAD=A7
SET_STREAMING=B6 START_STOP_UNIT=1B SYNCHRONIZE_CACHE=35 TEST_UNIT_READY=00 VERIFY_10=2F WRITE_10=2A
WRITE_12=AA WRITE_AND_VERIFY_10=2E WRITE_BUFFER=3B
""",
}

SERVICE_ACTIONS = {
    "T0": """
REPORT_DEVICE_IDENTIFIER=05 REPORT_ALIASES=0B REPORT_PRIORITY=0E REPORT_SUPPORTED_OPERATION_CODES=0C
REPORT_SUPPORTED_TASK_MANAGEMENT_FUNCTIONS=0D REPORT_TARGET_PORT_GROUPS=0A REPORT_TIMESTAMP=0F
REPORT_IDENTIFYING_INFORMATION=05 REQUEST_DATA_TRANSFER_ELEMENT_INQUIRY=06 CHANGE_ALIASES=0B
SET_DEVICE_IDENTIFIER=06 SET_PRIORITY=0E SET_TARGET_PORT_GROUPS=0A SET_TIMESTAMP=0F
SET_IDENTIFYING_INFORMATION=06 ORWRITE_32=0E READ_32=09 VERIFY_32=0A WRITE_32=0B
WRITE_AND_VERIFY_32=0C WRITE_SAME_32=0D XDREAD_32=03 XDWRITE_32=04 XDWRITEREAD_32=07 XPWRITE_32=06
GET_LBA_STATUS=12 READ_CAPACITY_16=10 REPORT_REFERRALS=13 OPEN_IMPORTEXPORT_ELEMENT=00
CLOSE_IMPORTEXPORT_ELEMENT=01
""",
    "T1": "READ_KEYS=00 READ_RESERVATION=01 REPORT_CAPABILITIES=02 READ_FULL_STATUS=03",
    "T2": """
REGISTER=00 RESERVE=01 RELEASE=02 CLEAR=03 PREEMPT=04 PREEMPT_AND_ABORT=05
REGISTER_AND_IGNORE_EXISTING_KEY=06 REGISTER_AND_MOVE=07 REPLACE_LOST_REGISTRATION=08
""",
    "T3": "READ_MEDIA_SERIAL_NUMBER=01",
    "T4": """
REPORT_ASSIGNED_UNASSIGNED_P_EXTENT=00 REPORT_COMPONENT_DEVICE=01
REPORT_COMPONENT_DEVICE_ATTACHMENTS=02 REPORT_DEVICE_IDENTIFICATION=07 REPORT_PERIPHERAL_DEVICE=03
REPORT_PERIPHERAL_DEVICE_ASSOCIATIONS=04 REPORT_PERIPHERAL_DEVICE_COMPONENT_DEVICE_IDENTIFIER=05
REPORT_STATES=06 REPORT_SUPPORTED_CONFIGURATION_METHOD=09 REPORT_UNCONFIGURED_CAPACITY=08
""",
    "T5": """
ADD_PERIPHERAL_DEVICE_COMPONENT_DEVICE=00 ATTACH_TO_COMPONENT_DEVICE=01
BREAK_PERIPHERAL_DEVICE_COMPONENT_DEVICE=07 EXCHANGE_P_EXTENT=02
EXCHANGE_PERIPHERAL_DEVICE_COMPONENT_DEVICE=03 INSTRUCT_COMPONENT_DEVICE=04
REMOVE_PERIPHERAL_DEVICE_COMPONENT_DEVICE=05 SET_PERIPHERAL_DEVICE_COMPONENT_DEVICE_IDENTIFIER=06
""",
    "T6": "READ_LONG_16=11",
    "T7": "WRITE_LONG_16=11",
    "T8": "REPORT_ALIAS=0B",
}

SETS = {"spc": spc, "sbc": sbc, "ssc": ssc, "smc": smc, "mmc": mmc}
# peripheral device type reported by INQUIRY -> command set the facade selects
DEVICE_TYPES = {
    0x00: "sbc",
    0x04: "sbc",
    0x07: "sbc",
    0x01: "ssc",
    0x02: "ssc",
    0x09: "ssc",
    0x03: "spc",
    0x08: "smc",
    0x05: "mmc",
}


def sam_length(code):
    """CDB length from the group code (top three bits) of the operation code"""
    group = code // 32
    return {0: 6, 1: 10, 2: 10, 4: 16, 5: 12}.get(group)


def parse_pairs(text):
    out = []
    for tok in text.split():
        key, _, rest = tok.partition("=")
        rest, _, alt = rest.partition("~")
        val, _, sa = rest.partition(":")
        out.append((key, int(val, 16), sa, alt or key))
    return out


def check_opcode_tables():
    seen = set()
    for setname, enum in SETS.items():
        expected = parse_pairs(OPCODES[setname])
        check(
            list(enum.keys) == [e[0] for e in expected],
            "opcode keys of",
            setname,
            list(enum.keys),
        )
        table = getattr(enum_module, setname + "_opcodes")
        check(list(table.keys()) == [e[0] for e in expected], "dict keys", setname)
        for key, value, sa, name in expected:
            op = getattr(enum, key)
            check(table[key] is op, "table and enum disagree", setname, key)
            check(isinstance(op, OpCode), setname, key, "is not an OpCode")
            check(id(op) not in seen, "OpCode object shared", setname, key)
            seen.add(id(op))
            check(op.value == value and type(op.value) is int, setname, key, op.value)
            check(op.name == name, setname, key, op.name)
            want = [(k, v) for k, v, _, _ in parse_pairs(SERVICE_ACTIONS[sa])] if sa else []
            got = [(k, getattr(op.serviceaction, k)) for k in op.serviceaction.keys]
            check(got == want, "service actions of", setname, key, got)
            # CDB length prescribed by SAM for this operation code
            want_len = sam_length(value)
            if want_len is None:
                try:
                    SCSICommand.init_cdb(op)
                except SCSICommand.OpcodeException:
                    check(True)
                else:
                    check(False, "init_cdb accepted", setname, key)
            else:
                cdb = SCSICommand.init_cdb(op)
                check(
                    isinstance(cdb, bytearray)
                    and len(cdb) == want_len
                    and not any(cdb),
                    "init_cdb",
                    setname,
                    key,
                    cdb,
                )
    # all 256 operation codes
    for code in range(256):
        op = OpCode("X%02X" % code, code, {})
        want_len = sam_length(code)
        try:
            cdb = SCSICommand.init_cdb(op)
        except SCSICommand.OpcodeException:
            check(want_len is None, "init_cdb rejected", code)
        else:
            check(cdb == bytearray(want_len or 0) and want_len, "init_cdb", code, cdb)
    # the suffix lookup the facade uses for service action opcodes
    for setname, enum in SETS.items():
        for suffix in ("9E", "A3", "A4", "7F", "1B", "ZZ", "E", ""):
            want = [getattr(enum, k) for k in enum.keys if k[len(k) - 2 :] == suffix]
            got = list(get_opcode(enum, suffix))
            check(
                len(got) == len(want) and all(a is b for a, b in zip(got, want)),
                "get_opcode",
                setname,
                suffix,
            )


# --------------------------------------------------------------------------
# reference CDB assembly
# --------------------------------------------------------------------------
def assemble(length, code, fields):
    """fields: (byte, msb, width, value) in the notation of the standards"""
    total = code << (8 * (length - 1))
    used = 0xFF << (8 * (length - 1))
    for byte, msb, width, value in fields:
        value = int(value)
        assert 0 <= value < (1 << width), (byte, msb, width, value)
        lsb = 8 * (length - 1 - byte) + msb - (width - 1)
        assert lsb >= 0
        mask = ((1 << width) - 1) << lsb
        assert not used & mask, "overlapping reference fields"
        used |= mask
        total |= value << lsb
    return total.to_bytes(length, "big"), used.to_bytes(length, "big")


def extract(cdb, byte, msb, width):
    """what a conformant target reads from the field"""
    length = len(cdb)
    lsb = 8 * (length - 1 - byte) + msb - (width - 1)
    return (int.from_bytes(cdb, "big") >> lsb) & ((1 << width) - 1)


class Transport(object):
    """a device that records what it is handed"""

    def __init__(self, devtype):
        self.devtype = devtype
        self.opcodes = spc
        self.devicetype = None
        self.sent = []
        self.closed = 0

    def execute(self, cmd, en_raw_sense=False):
        cdb = cmd.cdb
        self.sent.append((type(cdb), bytes(cdb), en_raw_sense))
        if cdb[0] == 0x12 and not cdb[1] & 1 and len(cmd.datain):
            cmd.datain[0] = self.devtype

    def open(self):
        pass

    def close(self):
        self.closed += 1


# --------------------------------------------------------------------------
# value generators
# --------------------------------------------------------------------------
def patterns(width, cap=None):
    top = (1 << width) - 1
    vals = {0, 1, top, top >> 1, top ^ (top >> 1)}
    vals.update(1 << i for i in range(width))
    vals.add(int("AA" * 8, 16) & top)
    vals.add(int("55" * 8, 16) & top)
    vals.add(int("0123456789ABCDEF", 16) & top)
    vals.add(int("FEDCBA9876543210", 16) & top)
    for _ in range(4):
        vals.add(RNG.getrandbits(width))
    if cap is not None:
        vals = {v for v in vals if v <= cap}
        vals.add(cap)
        for _ in range(4):
            vals.add(RNG.randint(0, cap))
    return sorted(vals)


class Arg(object):
    def __init__(self, name, width, default=0, cap=None, flag=False):
        self.name = name
        self.width = width
        self.default = default
        self.cap = cap
        self.flag = flag

    def values(self):
        vals = patterns(self.width, self.cap)
        if self.width == 1:
            vals = vals + [True, False]
        return vals

    def rand(self):
        top = (1 << self.width) - 1
        if self.cap is not None:
            top = min(top, self.cap)
        # keep big allocations rare
        if top > 0xFFFF and self.cap is not None:
            return RNG.randint(0, 0xFFFF)
        return RNG.randint(0, top)


class Cmd(object):
    """
    one facade method:
      where    - opcode attribute name, or ("suffix", "9E")
      code     - the operation code the standards assign
      args     - list of Arg
      call     - (scsi, a) -> command object, a is a dict name -> value
      fields   - a -> [(byte, msb, width, value)]
      post     - optional (cmd, a) -> extra fields known only afterwards
      raw      - execute is called with en_raw_sense=True
    """

    def __init__(self, name, where, code, args, call, fields, post=None, raw=False,
                 blocksize=1):
        self.name = name
        self.where = where
        self.code = code
        self.args = args
        self.call = call
        self.fields = fields
        self.post = post
        self.raw = raw
        self.blocksize = blocksize


BIG = 1 << 24  # largest buffer the demo asks the library to allocate

COMMANDS = [
    Cmd(
        "inquiry", "INQUIRY", 0x12,
        [Arg("evpd", 1), Arg("page_code", 8), Arg("alloclen", 16, 96)],
        lambda s, a: s.inquiry(a["evpd"], a["page_code"], a["alloclen"]),
        lambda a: [(1, 0, 1, a["evpd"]), (2, 7, 8, a["page_code"]), (3, 7, 16, a["alloclen"])],
    ),
    Cmd(
        "inquiry_kw", "INQUIRY", 0x12,
        [Arg("evpd", 1), Arg("page_code", 8), Arg("alloclen", 16, 96)],
        lambda s, a: s.inquiry(alloclen=a["alloclen"], page_code=a["page_code"], evpd=a["evpd"]),
        lambda a: [(1, 0, 1, a["evpd"]), (2, 7, 8, a["page_code"]), (3, 7, 16, a["alloclen"])],
    ),
    Cmd(
        "getlbastatus", ("suffix", "9E"), 0x9E,
        [Arg("lba", 64), Arg("alloclen", 32, 16384, cap=BIG)],
        lambda s, a: s.getlbastatus(a["lba"], alloclen=a["alloclen"]),
        lambda a: [(1, 4, 5, 0x12), (2, 7, 64, a["lba"]), (10, 7, 32, a["alloclen"])],
    ),
    Cmd(
        "getlbastatus_default", ("suffix", "9E"), 0x9E,
        [Arg("lba", 64)],
        lambda s, a: s.getlbastatus(a["lba"]),
        lambda a: [(1, 4, 5, 0x12), (2, 7, 64, a["lba"]), (10, 7, 32, 16384)],
    ),
    Cmd(
        "initializeelementstatus", "INITIALIZE_ELEMENT_STATUS", 0x07, [],
        lambda s, a: s.initializeelementstatus(),
        lambda a: [],
    ),
    Cmd(
        "initializeelementstatuswithrange", "INITIALIZE_ELEMENT_STATUS_WITH_RANGE", 0x37,
        [Arg("xfer", 16), Arg("elements", 16), Arg("rng", 1), Arg("fast", 1)],
        lambda s, a: s.initializeelementstatuswithrange(
            a["xfer"], a["elements"], rng=a["rng"], fast=a["fast"]
        ),
        lambda a: [(1, 1, 1, a["fast"]), (1, 0, 1, a["rng"]), (2, 7, 16, a["xfer"]),
                   (6, 7, 16, a["elements"])],
    ),
    Cmd(
        "initializeelementstatuswithrange_default", "INITIALIZE_ELEMENT_STATUS_WITH_RANGE",
        0x37, [Arg("xfer", 16), Arg("elements", 16)],
        lambda s, a: s.initializeelementstatuswithrange(a["xfer"], a["elements"]),
        lambda a: [(2, 7, 16, a["xfer"]), (6, 7, 16, a["elements"])],
    ),
    Cmd(
        "modesense6", "MODE_SENSE_6", 0x1A,
        [Arg("page_code", 6), Arg("sub_page_code", 8), Arg("dbd", 1), Arg("pc", 2),
         Arg("alloclen", 8, 96)],
        lambda s, a: s.modesense6(
            a["page_code"], sub_page_code=a["sub_page_code"], dbd=a["dbd"], pc=a["pc"],
            alloclen=a["alloclen"],
        ),
        lambda a: [(1, 3, 1, a["dbd"]), (2, 7, 2, a["pc"]), (2, 5, 6, a["page_code"]),
                   (3, 7, 8, a["sub_page_code"]), (4, 7, 8, a["alloclen"])],
    ),
    Cmd(
        "modesense6_default", "MODE_SENSE_6", 0x1A, [Arg("page_code", 6)],
        lambda s, a: s.modesense6(a["page_code"]),
        lambda a: [(2, 5, 6, a["page_code"]), (4, 7, 8, 96)],
    ),
    Cmd(
        "modesense10", "MODE_SENSE_10", 0x5A,
        [Arg("page_code", 6), Arg("sub_page_code", 8), Arg("llbaa", 1), Arg("dbd", 1),
         Arg("pc", 2), Arg("alloclen", 16, 96)],
        lambda s, a: s.modesense10(
            a["page_code"], sub_page_code=a["sub_page_code"], llbaa=a["llbaa"], dbd=a["dbd"],
            pc=a["pc"], alloclen=a["alloclen"],
        ),
        lambda a: [(1, 4, 1, a["llbaa"]), (1, 3, 1, a["dbd"]), (2, 7, 2, a["pc"]),
                   (2, 5, 6, a["page_code"]), (3, 7, 8, a["sub_page_code"]),
                   (7, 7, 16, a["alloclen"])],
    ),
    Cmd(
        "modesense10_default", "MODE_SENSE_10", 0x5A, [Arg("page_code", 6)],
        lambda s, a: s.modesense10(a["page_code"]),
        lambda a: [(2, 5, 6, a["page_code"]), (7, 7, 16, 96)],
    ),
    Cmd(
        "modeselect6", "MODE_SELECT_6", 0x15, [Arg("pf", 1, 1), Arg("sp", 1)],
        lambda s, a: s.modeselect6({"mode_pages": []}, pf=a["pf"], sp=a["sp"]),
        lambda a: [(1, 4, 1, a["pf"]), (1, 0, 1, a["sp"])],
        post=lambda cmd, a: [(4, 7, 8, len(cmd.dataout))],
    ),
    Cmd(
        "modeselect6_default", "MODE_SELECT_6", 0x15, [],
        lambda s, a: s.modeselect6({"mode_pages": []}),
        lambda a: [(1, 4, 1, 1)],
        post=lambda cmd, a: [(4, 7, 8, len(cmd.dataout))],
    ),
    Cmd(
        "modeselect10", "MODE_SELECT_10", 0x55, [Arg("pf", 1, 1), Arg("sp", 1)],
        lambda s, a: s.modeselect10({"mode_pages": []}, pf=a["pf"], sp=a["sp"]),
        lambda a: [(1, 4, 1, a["pf"]), (1, 0, 1, a["sp"])],
        post=lambda cmd, a: [(7, 7, 16, len(cmd.dataout))],
    ),
    Cmd(
        "modeselect10_default", "MODE_SELECT_10", 0x55, [],
        lambda s, a: s.modeselect10({"mode_pages": []}),
        lambda a: [(1, 4, 1, 1)],
        post=lambda cmd, a: [(7, 7, 16, len(cmd.dataout))],
    ),
    Cmd(
        "opencloseimportexportelement", "OPEN_CLOSE_IMPORT_EXPORT_ELEMENT", 0x1B,
        [Arg("xfer", 16), Arg("acode", 5)],
        lambda s, a: s.opencloseimportexportelement(a["xfer"], a["acode"]),
        lambda a: [(2, 7, 16, a["xfer"]), (4, 4, 5, a["acode"])],
    ),
    Cmd(
        "positiontoelement", "POSITION_TO_ELEMENT", 0x2B,
        [Arg("xfer", 16), Arg("dest", 16), Arg("invert", 1)],
        lambda s, a: s.positiontoelement(a["xfer"], a["dest"], invert=a["invert"]),
        lambda a: [(2, 7, 16, a["xfer"]), (4, 7, 16, a["dest"]), (8, 0, 1, a["invert"])],
    ),
    Cmd(
        "positiontoelement_default", "POSITION_TO_ELEMENT", 0x2B,
        [Arg("xfer", 16), Arg("dest", 16)],
        lambda s, a: s.positiontoelement(a["xfer"], a["dest"]),
        lambda a: [(2, 7, 16, a["xfer"]), (4, 7, 16, a["dest"])],
    ),
    Cmd(
        "preventallowmediumremoval", "PREVENT_ALLOW_MEDIUM_REMOVAL", 0x1E,
        [Arg("prevent", 2)],
        lambda s, a: s.preventallowmediumremoval(prevent=a["prevent"]),
        lambda a: [(4, 1, 2, a["prevent"])],
    ),
    Cmd(
        "preventallowmediumremoval_default", "PREVENT_ALLOW_MEDIUM_REMOVAL", 0x1E, [],
        lambda s, a: s.preventallowmediumremoval(),
        lambda a: [],
    ),
    Cmd(
        "read10", "READ_10", 0x28,
        [Arg("lba", 32), Arg("tl", 16), Arg("rdprotect", 3), Arg("dpo", 1), Arg("fua", 1),
         Arg("rarc", 1), Arg("group", 5)],
        lambda s, a: s.read10(a["lba"], a["tl"], rdprotect=a["rdprotect"], dpo=a["dpo"],
                              fua=a["fua"], rarc=a["rarc"], group=a["group"]),
        lambda a: [(1, 7, 3, a["rdprotect"]), (1, 4, 1, a["dpo"]), (1, 3, 1, a["fua"]),
                   (1, 2, 1, a["rarc"]), (2, 7, 32, a["lba"]), (6, 4, 5, a["group"]),
                   (7, 7, 16, a["tl"])],
        blocksize=512,
    ),
    Cmd(
        "read10_default", "READ_10", 0x28, [Arg("lba", 32), Arg("tl", 16)],
        lambda s, a: s.read10(a["lba"], a["tl"]),
        lambda a: [(2, 7, 32, a["lba"]), (7, 7, 16, a["tl"])],
    ),
    Cmd(
        "read12", "READ_12", 0xA8,
        [Arg("lba", 32), Arg("tl", 32, cap=BIG), Arg("rdprotect", 3), Arg("dpo", 1),
         Arg("fua", 1), Arg("rarc", 1), Arg("group", 5)],
        lambda s, a: s.read12(a["lba"], a["tl"], rdprotect=a["rdprotect"], dpo=a["dpo"],
                              fua=a["fua"], rarc=a["rarc"], group=a["group"]),
        lambda a: [(1, 7, 3, a["rdprotect"]), (1, 4, 1, a["dpo"]), (1, 3, 1, a["fua"]),
                   (1, 2, 1, a["rarc"]), (2, 7, 32, a["lba"]), (6, 7, 32, a["tl"]),
                   (10, 4, 5, a["group"])],
    ),
    Cmd(
        "read16", "READ_16", 0x88,
        [Arg("lba", 64), Arg("tl", 32, cap=BIG), Arg("rdprotect", 3), Arg("dpo", 1),
         Arg("fua", 1), Arg("rarc", 1), Arg("group", 5)],
        lambda s, a: s.read16(a["lba"], a["tl"], rdprotect=a["rdprotect"], dpo=a["dpo"],
                              fua=a["fua"], rarc=a["rarc"], group=a["group"]),
        lambda a: [(1, 7, 3, a["rdprotect"]), (1, 4, 1, a["dpo"]), (1, 3, 1, a["fua"]),
                   (1, 2, 1, a["rarc"]), (2, 7, 64, a["lba"]), (10, 7, 32, a["tl"]),
                   (14, 4, 5, a["group"])],
    ),
    Cmd(
        "readcapacity10", "READ_CAPACITY_10", 0x25, [Arg("alloclen", 16, 8)],
        lambda s, a: s.readcapacity10(alloclen=a["alloclen"]),
        lambda a: [],
    ),
    Cmd(
        "readcapacity10_default", "READ_CAPACITY_10", 0x25, [],
        lambda s, a: s.readcapacity10(),
        lambda a: [],
    ),
    Cmd(
        "readcapacity16", ("suffix", "9E"), 0x9E, [Arg("alloclen", 32, 32, cap=BIG)],
        lambda s, a: s.readcapacity16(alloclen=a["alloclen"]),
        lambda a: [(1, 4, 5, 0x10), (10, 7, 32, a["alloclen"])],
    ),
    Cmd(
        "readcapacity16_default", ("suffix", "9E"), 0x9E, [],
        lambda s, a: s.readcapacity16(),
        lambda a: [(1, 4, 5, 0x10), (10, 7, 32, 32)],
    ),
    Cmd(
        "readcd", "READ_CD", 0xBE,
        [Arg("lba", 32), Arg("tl", 24, cap=600), Arg("est", 3), Arg("dap", 1), Arg("mcsb", 5),
         Arg("c2ei", 2), Arg("scsb", 3)],
        lambda s, a: s.readcd(a["lba"], a["tl"], est=a["est"], dap=a["dap"], mcsb=a["mcsb"],
                              c2ei=a["c2ei"], scsb=a["scsb"]),
        lambda a: [(1, 4, 3, a["est"]), (1, 1, 1, a["dap"]), (2, 7, 32, a["lba"]),
                   (6, 7, 24, a["tl"]), (9, 7, 5, a["mcsb"]), (9, 2, 2, a["c2ei"]),
                   (10, 2, 3, a["scsb"])],
    ),
    Cmd(
        "readcd_default", "READ_CD", 0xBE, [Arg("lba", 32), Arg("tl", 24, cap=600)],
        lambda s, a: s.readcd(a["lba"], a["tl"]),
        lambda a: [(2, 7, 32, a["lba"]), (6, 7, 24, a["tl"])],
    ),
    Cmd(
        "readdiscinformation", "READ_DISC_INFORMATION", 0x51,
        [Arg("data_type", 3), Arg("alloc_len", 16, 4096)],
        lambda s, a: s.readdiscinformation(a["data_type"], a["alloc_len"]),
        lambda a: [(1, 2, 3, a["data_type"]), (7, 7, 16, a["alloc_len"])],
    ),
    Cmd(
        "readdiscinformation_default", "READ_DISC_INFORMATION", 0x51, [Arg("data_type", 3)],
        lambda s, a: s.readdiscinformation(a["data_type"]),
        lambda a: [(1, 2, 3, a["data_type"]), (7, 7, 16, 4096)],
    ),
    Cmd(
        "readelementstatus", "READ_ELEMENT_STATUS", 0xB8,
        [Arg("start", 16), Arg("num", 16), Arg("element_type", 4), Arg("voltag", 1),
         Arg("curdata", 1, 1), Arg("dvcid", 1), Arg("alloclen", 24, 16384)],
        lambda s, a: s.readelementstatus(
            a["start"], a["num"], element_type=a["element_type"], voltag=a["voltag"],
            curdata=a["curdata"], dvcid=a["dvcid"], alloclen=a["alloclen"],
        ),
        lambda a: [(1, 4, 1, a["voltag"]), (1, 3, 4, a["element_type"]),
                   (2, 7, 16, a["start"]), (4, 7, 16, a["num"]), (6, 1, 1, a["curdata"]),
                   (6, 0, 1, a["dvcid"]), (7, 7, 24, a["alloclen"])],
    ),
    Cmd(
        "readelementstatus_default", "READ_ELEMENT_STATUS", 0xB8,
        [Arg("start", 16), Arg("num", 16)],
        lambda s, a: s.readelementstatus(a["start"], a["num"]),
        lambda a: [(2, 7, 16, a["start"]), (4, 7, 16, a["num"]), (6, 1, 1, 1),
                   (7, 7, 24, 16384)],
    ),
    Cmd(
        "movemedium", "MOVE_MEDIUM", 0xA5,
        [Arg("xfer", 16), Arg("source", 16), Arg("dest", 16), Arg("invert", 1)],
        lambda s, a: s.movemedium(a["xfer"], a["source"], a["dest"], invert=a["invert"]),
        lambda a: [(2, 7, 16, a["xfer"]), (4, 7, 16, a["source"]), (6, 7, 16, a["dest"]),
                   (10, 0, 1, a["invert"])],
    ),
    Cmd(
        "movemedium_default", "MOVE_MEDIUM", 0xA5,
        [Arg("xfer", 16), Arg("source", 16), Arg("dest", 16)],
        lambda s, a: s.movemedium(a["xfer"], a["source"], a["dest"]),
        lambda a: [(2, 7, 16, a["xfer"]), (4, 7, 16, a["source"]), (6, 7, 16, a["dest"])],
    ),
    Cmd(
        "exchangemedium", "EXCHANGE_MEDIUM", 0xA6,
        [Arg("xfer", 16), Arg("source", 16), Arg("dest1", 16), Arg("dest2", 16),
         Arg("inv1", 1), Arg("inv2", 1)],
        lambda s, a: s.exchangemedium(a["xfer"], a["source"], a["dest1"], a["dest2"],
                                      inv1=a["inv1"], inv2=a["inv2"]),
        lambda a: [(2, 7, 16, a["xfer"]), (4, 7, 16, a["source"]), (6, 7, 16, a["dest1"]),
                   (8, 7, 16, a["dest2"]), (10, 1, 1, a["inv1"]), (10, 0, 1, a["inv2"])],
    ),
    Cmd(
        "exchangemedium_default", "EXCHANGE_MEDIUM", 0xA6,
        [Arg("xfer", 16), Arg("source", 16), Arg("dest1", 16), Arg("dest2", 16)],
        lambda s, a: s.exchangemedium(a["xfer"], a["source"], a["dest1"], a["dest2"]),
        lambda a: [(2, 7, 16, a["xfer"]), (4, 7, 16, a["source"]), (6, 7, 16, a["dest1"]),
                   (8, 7, 16, a["dest2"])],
    ),
    Cmd(
        "synchronizecache10", "SYNCHRONIZE_CACHE_10", 0x35,
        [Arg("lba", 32), Arg("numblks", 16), Arg("immed", 1), Arg("group", 5)],
        lambda s, a: s.synchronizecache10(a["lba"], a["numblks"], immed=a["immed"],
                                          group=a["group"]),
        lambda a: [(1, 1, 1, a["immed"]), (2, 7, 32, a["lba"]), (6, 4, 5, a["group"]),
                   (7, 7, 16, a["numblks"])],
    ),
    Cmd(
        "synchronizecache16", "SYNCHRONIZE_CACHE_16", 0x91,
        [Arg("lba", 64), Arg("numblks", 32), Arg("immed", 1), Arg("group", 5)],
        lambda s, a: s.synchronizecache16(a["lba"], a["numblks"], immed=a["immed"],
                                          group=a["group"]),
        lambda a: [(1, 1, 1, a["immed"]), (2, 7, 64, a["lba"]), (10, 7, 32, a["numblks"]),
                   (14, 4, 5, a["group"])],
    ),
    Cmd(
        "synchronizecache16_default", "SYNCHRONIZE_CACHE_16", 0x91,
        [Arg("lba", 64), Arg("numblks", 32)],
        lambda s, a: s.synchronizecache16(a["lba"], a["numblks"]),
        lambda a: [(2, 7, 64, a["lba"]), (10, 7, 32, a["numblks"])],
    ),
    Cmd(
        "testunitready", "TEST_UNIT_READY", 0x00, [],
        lambda s, a: s.testunitready(),
        lambda a: [],
    ),
    Cmd(
        "write10", "WRITE_10", 0x2A,
        [Arg("lba", 32), Arg("tl", 16), Arg("wrprotect", 3), Arg("dpo", 1), Arg("fua", 1),
         Arg("group", 5)],
        lambda s, a: s.write10(a["lba"], a["tl"], bytearray(4), wrprotect=a["wrprotect"],
                               dpo=a["dpo"], fua=a["fua"], group=a["group"]),
        lambda a: [(1, 7, 3, a["wrprotect"]), (1, 4, 1, a["dpo"]), (1, 3, 1, a["fua"]),
                   (2, 7, 32, a["lba"]), (6, 4, 5, a["group"]), (7, 7, 16, a["tl"])],
        blocksize=512,
    ),
    Cmd(
        "write12", "WRITE_12", 0xAA,
        [Arg("lba", 32), Arg("tl", 32, cap=BIG), Arg("wrprotect", 3), Arg("dpo", 1),
         Arg("fua", 1), Arg("group", 5)],
        lambda s, a: s.write12(a["lba"], a["tl"], bytearray(4), wrprotect=a["wrprotect"],
                               dpo=a["dpo"], fua=a["fua"], group=a["group"]),
        lambda a: [(1, 7, 3, a["wrprotect"]), (1, 4, 1, a["dpo"]), (1, 3, 1, a["fua"]),
                   (2, 7, 32, a["lba"]), (6, 7, 32, a["tl"]), (10, 4, 5, a["group"])],
    ),
    Cmd(
        "write16", "WRITE_16", 0x8A,
        [Arg("lba", 64), Arg("tl", 32, cap=BIG), Arg("wrprotect", 3), Arg("dpo", 1),
         Arg("fua", 1), Arg("group", 5)],
        lambda s, a: s.write16(a["lba"], a["tl"], bytearray(4), wrprotect=a["wrprotect"],
                               dpo=a["dpo"], fua=a["fua"], group=a["group"]),
        lambda a: [(1, 7, 3, a["wrprotect"]), (1, 4, 1, a["dpo"]), (1, 3, 1, a["fua"]),
                   (2, 7, 64, a["lba"]), (10, 7, 32, a["tl"]), (14, 4, 5, a["group"])],
    ),
    Cmd(
        "write16_default", "WRITE_16", 0x8A, [Arg("lba", 64), Arg("tl", 32, cap=BIG)],
        lambda s, a: s.write16(a["lba"], a["tl"], bytearray(4)),
        lambda a: [(2, 7, 64, a["lba"]), (10, 7, 32, a["tl"])],
    ),
    Cmd(
        "writesame10", "WRITE_SAME_10", 0x41,
        [Arg("lba", 32), Arg("nb", 16), Arg("wrprotect", 3), Arg("anchor", 1),
         Arg("unmap", 1), Arg("group", 5)],
        lambda s, a: s.writesame10(a["lba"], a["nb"], bytearray(4), wrprotect=a["wrprotect"],
                                   anchor=a["anchor"], unmap=a["unmap"], group=a["group"]),
        lambda a: [(1, 7, 3, a["wrprotect"]), (1, 4, 1, a["anchor"]), (1, 3, 1, a["unmap"]),
                   (2, 7, 32, a["lba"]), (6, 4, 5, a["group"]), (7, 7, 16, a["nb"])],
        blocksize=4096,
    ),
    Cmd(
        "writesame16", "WRITE_SAME_16", 0x93,
        [Arg("lba", 64), Arg("nb", 32), Arg("wrprotect", 3), Arg("anchor", 1),
         Arg("unmap", 1), Arg("ndob", 1), Arg("group", 5)],
        lambda s, a: s.writesame16(a["lba"], a["nb"], bytearray(4), wrprotect=a["wrprotect"],
                                   anchor=a["anchor"], unmap=a["unmap"], ndob=a["ndob"],
                                   group=a["group"]),
        lambda a: [(1, 7, 3, a["wrprotect"]), (1, 4, 1, a["anchor"]), (1, 3, 1, a["unmap"]),
                   (1, 0, 1, a["ndob"]), (2, 7, 64, a["lba"]), (10, 7, 32, a["nb"]),
                   (14, 4, 5, a["group"])],
        blocksize=4096,
    ),
    Cmd(
        "reportluns", "REPORT_LUNS", 0xA0,
        [Arg("report", 8), Arg("alloclen", 32, 96, cap=BIG)],
        lambda s, a: s.reportluns(report=a["report"], alloclen=a["alloclen"]),
        lambda a: [(2, 7, 8, a["report"]), (6, 7, 32, a["alloclen"])],
    ),
    Cmd(
        "reportluns_default", "REPORT_LUNS", 0xA0, [],
        lambda s, a: s.reportluns(),
        lambda a: [(6, 7, 32, 96)],
    ),
    Cmd(
        "reportpriority", ("suffix", "A3"), 0xA3,
        [Arg("priority", 2), Arg("alloclen", 32, 16384, cap=BIG)],
        lambda s, a: s.reportpriority(priority=a["priority"], alloclen=a["alloclen"]),
        lambda a: [(1, 4, 5, 0x0E), (2, 7, 2, a["priority"]), (6, 7, 32, a["alloclen"])],
    ),
    Cmd(
        "reportpriority_default", ("suffix", "A3"), 0xA3, [],
        lambda s, a: s.reportpriority(),
        lambda a: [(1, 4, 5, 0x0E), (6, 7, 32, 16384)],
    ),
    Cmd(
        "reporttargetportgroups", ("suffix", "A3"), 0xA3,
        [Arg("data_format", 3), Arg("alloclen", 32, 16384, cap=BIG)],
        lambda s, a: s.reporttargetportgroups(data_format=a["data_format"],
                                              alloclen=a["alloclen"]),
        lambda a: [(1, 7, 3, a["data_format"]), (1, 4, 5, 0x0A), (6, 7, 32, a["alloclen"])],
    ),
    Cmd(
        "reporttargetportgroups_default", ("suffix", "A3"), 0xA3, [],
        lambda s, a: s.reporttargetportgroups(),
        lambda a: [(1, 4, 5, 0x0A), (6, 7, 32, 16384)],
    ),
    Cmd(
        "persistentreservein", "PERSISTENT_RESERVE_IN", 0x5E,
        [Arg("service_action", 5, cap=3), Arg("alloclen", 16, 1024)],
        lambda s, a: s.persistentreservein(a["service_action"], alloclen=a["alloclen"]),
        lambda a: [(1, 4, 5, a["service_action"]), (7, 7, 16, a["alloclen"])],
    ),
    Cmd(
        "persistentreservein_default", "PERSISTENT_RESERVE_IN", 0x5E,
        [Arg("service_action", 5, cap=3)],
        lambda s, a: s.persistentreservein(a["service_action"]),
        lambda a: [(1, 4, 5, a["service_action"]), (7, 7, 16, 1024)],
    ),
    Cmd(
        "persistentreserveout", "PERSISTENT_RESERVE_OUT", 0x5F,
        [Arg("service_action", 5, cap=8), Arg("scope", 4), Arg("pr_type", 4),
         Arg("reservation_key", 64), Arg("aptpl", 1)],
        lambda s, a: s.persistentreserveout(
            a["service_action"], a["scope"], a["pr_type"],
            reservation_key=a["reservation_key"], aptpl=a["aptpl"],
        ),
        lambda a: [(1, 4, 5, a["service_action"]), (2, 7, 4, a["scope"]),
                   (2, 3, 4, a["pr_type"])],
        post=lambda cmd, a: [(5, 7, 32, len(cmd.dataout))],
    ),
    Cmd(
        "persistentreserveout_default", "PERSISTENT_RESERVE_OUT", 0x5F,
        [Arg("service_action", 5, cap=8)],
        lambda s, a: s.persistentreserveout(a["service_action"]),
        lambda a: [(1, 4, 5, a["service_action"])],
        post=lambda cmd, a: [(5, 7, 32, len(cmd.dataout))],
    ),
    Cmd(
        "atapassthrough12", "ATA_PASS_THROUGH_12", 0xA1,
        [Arg("protocal", 4), Arg("t_length", 2), Arg("byte_block", 1), Arg("t_dir", 1),
         Arg("t_type", 1), Arg("off_line", 2), Arg("fetures", 8), Arg("count", 8),
         Arg("lba", 24), Arg("command", 8), Arg("ck_cond", 1), Arg("device", 8),
         Arg("control", 8)],
        lambda s, a: s.atapassthrough12(
            a["protocal"], a["t_length"], a["byte_block"], a["t_dir"], a["t_type"],
            a["off_line"], a["fetures"], a["count"], a["lba"], a["command"],
            blocksize=3, extra_tl=5, ck_cond=a["ck_cond"], device=a["device"],
            control=a["control"],
        ),
        lambda a: [(1, 4, 4, a["protocal"]), (2, 7, 2, a["off_line"]), (2, 5, 1, a["ck_cond"]),
                   (2, 4, 1, a["t_type"]), (2, 3, 1, a["t_dir"]), (2, 2, 1, a["byte_block"]),
                   (2, 1, 2, a["t_length"]), (3, 7, 8, a["fetures"]), (4, 7, 8, a["count"]),
                   (5, 7, 8, a["lba"] & 0xFF), (6, 7, 8, (a["lba"] >> 8) & 0xFF),
                   (7, 7, 8, (a["lba"] >> 16) & 0xFF), (8, 7, 8, a["device"]),
                   (9, 7, 8, a["command"]), (11, 7, 8, a["control"])],
        raw=True,
    ),
    Cmd(
        "atapassthrough12_default", "ATA_PASS_THROUGH_12", 0xA1,
        [Arg("protocal", 4), Arg("fetures", 8), Arg("count", 8), Arg("lba", 24),
         Arg("command", 8)],
        lambda s, a: s.atapassthrough12(a["protocal"], 0, 0, 1, 0, 0, a["fetures"], a["count"],
                                        a["lba"], a["command"]),
        lambda a: [(1, 4, 4, a["protocal"]), (2, 3, 1, 1), (3, 7, 8, a["fetures"]),
                   (4, 7, 8, a["count"]), (5, 7, 8, a["lba"] & 0xFF),
                   (6, 7, 8, (a["lba"] >> 8) & 0xFF), (7, 7, 8, (a["lba"] >> 16) & 0xFF),
                   (9, 7, 8, a["command"])],
        raw=True,
    ),
    Cmd(
        "atapassthrough16", "ATA_PASS_THROUGH_16", 0x85,
        [Arg("protocal", 4), Arg("t_length", 2), Arg("byte_block", 1), Arg("t_dir", 1),
         Arg("t_type", 1), Arg("off_line", 2), Arg("fetures", 16), Arg("count", 16),
         Arg("lba", 48), Arg("command", 8), Arg("ck_cond", 1), Arg("device", 8),
         Arg("control", 8), Arg("extend", 1, 1)],
        lambda s, a: s.atapassthrough16(
            a["protocal"], a["t_length"], a["byte_block"], a["t_dir"], a["t_type"],
            a["off_line"], a["fetures"], a["count"], a["lba"], a["command"],
            blocksize=3, extra_tl=5, ck_cond=a["ck_cond"], device=a["device"],
            control=a["control"], extend=a["extend"],
        ),
        lambda a: [(1, 4, 4, a["protocal"]), (1, 0, 1, a["extend"]), (2, 7, 2, a["off_line"]),
                   (2, 5, 1, a["ck_cond"]), (2, 4, 1, a["t_type"]), (2, 3, 1, a["t_dir"]),
                   (2, 2, 1, a["byte_block"]), (2, 1, 2, a["t_length"]),
                   (3, 7, 16, a["fetures"]), (5, 7, 16, a["count"]),
                   (7, 7, 8, (a["lba"] >> 24) & 0xFF), (8, 7, 8, a["lba"] & 0xFF),
                   (9, 7, 8, (a["lba"] >> 32) & 0xFF), (10, 7, 8, (a["lba"] >> 8) & 0xFF),
                   (11, 7, 8, (a["lba"] >> 40) & 0xFF), (12, 7, 8, (a["lba"] >> 16) & 0xFF),
                   (13, 7, 8, a["device"]), (14, 7, 8, a["command"]),
                   (15, 7, 8, a["control"])],
        raw=True,
    ),
    Cmd(
        "atapassthrough16_default", "ATA_PASS_THROUGH_16", 0x85,
        [Arg("protocal", 4), Arg("fetures", 16), Arg("count", 16), Arg("lba", 48),
         Arg("command", 8)],
        lambda s, a: s.atapassthrough16(a["protocal"], 0, 0, 0, 0, 0, a["fetures"], a["count"],
                                        a["lba"], a["command"]),
        lambda a: [(1, 4, 4, a["protocal"]), (1, 0, 1, 1), (3, 7, 16, a["fetures"]),
                   (5, 7, 16, a["count"]), (7, 7, 8, (a["lba"] >> 24) & 0xFF),
                   (8, 7, 8, a["lba"] & 0xFF), (9, 7, 8, (a["lba"] >> 32) & 0xFF),
                   (10, 7, 8, (a["lba"] >> 8) & 0xFF), (11, 7, 8, (a["lba"] >> 40) & 0xFF),
                   (12, 7, 8, (a["lba"] >> 16) & 0xFF), (14, 7, 8, a["command"])],
        raw=True,
    ),
    Cmd(
        "extendedcopy4", "EXTENDED_COPY", 0x83,
        [Arg("list_identifier", 8), Arg("str", 1), Arg("nrcr", 1), Arg("priority", 3),
         Arg("inline", 12)],
        lambda s, a: s.extendedcopy4(
            list_identifier=a["list_identifier"], sequential_striped=a["str"],
            nrcr=a["nrcr"], priority=a["priority"], target_descriptor_list=[],
            segment_descriptor_list=[], inline_data=bytearray(a["inline"]),
        ),
        lambda a: [(1, 4, 5, 0x00)],
        post=lambda cmd, a: [(10, 7, 32, len(cmd.dataout))],
    ),
    Cmd(
        "extendedcopy4_default", "EXTENDED_COPY", 0x83, [],
        lambda s, a: s.extendedcopy4(),
        lambda a: [(1, 4, 5, 0x00)],
        post=lambda cmd, a: [(10, 7, 32, len(cmd.dataout))],
    ),
    Cmd(
        "extendedcopy5", "EXTENDED_COPY", 0x83,
        [Arg("list_identifier", 32), Arg("str", 1), Arg("list_id_usage", 2),
         Arg("priority", 3), Arg("g_sense", 1), Arg("immed", 1), Arg("inline", 12)],
        lambda s, a: s.extendedcopy5(
            sequential_striped=a["str"], list_id_usage=a["list_id_usage"],
            priority=a["priority"], g_sense=a["g_sense"], immed=a["immed"],
            list_identifier=a["list_identifier"], cscd_descriptor_list=[],
            segment_descriptor_list=[], inline_data=bytearray(a["inline"]),
        ),
        lambda a: [(1, 4, 5, 0x01)],
        post=lambda cmd, a: [(10, 7, 32, len(cmd.dataout))],
    ),
    Cmd(
        "extendedcopy5_default", "EXTENDED_COPY", 0x83, [],
        lambda s, a: s.extendedcopy5(),
        lambda a: [(1, 4, 5, 0x01)],
        post=lambda cmd, a: [(10, 7, 32, len(cmd.dataout))],
    ),
]


def offered(enum, where):
    """the OpCode a command set offers for a facade method, or None"""
    if isinstance(where, tuple):
        for key in enum.keys:
            if key.endswith(where[1]) and len(where[1]) == 2:
                return getattr(enum, key)
        return None
    return getattr(enum, where, None)


def run_one(scsi, dev, spec, args, cmdclasses):
    fields = spec.fields(args)
    before = len(dev.sent)
    scsi.blocksize = spec.blocksize
    cmd = None
    error = None
    try:
        cmd = spec.call(scsi, dict(args))
    except Exception as exc:  # unmarshalling of the (empty) reply may fail
        error = exc
    check(
        len(dev.sent) == before + 1,
        spec.name,
        args,
        "transport saw",
        len(dev.sent) - before,
        "commands",
        repr(error),
    )
    kind, sent, raw = dev.sent[-1]
    check(kind is bytearray, spec.name, "cdb type", kind)
    check(bool(raw) == spec.raw, spec.name, "en_raw_sense", raw)
    if spec.post is not None:
        check(cmd is not None, spec.name, args, "raised", repr(error))
        fields = fields + spec.post(cmd, args)
    length = sam_length(spec.code)
    want, used = assemble(length, spec.code, fields)
    check(
        sent == want,
        spec.name,
        args,
        "sent",
        sent.hex(),
        "expected",
        want.hex(),
    )
    # what the target decodes is what the caller supplied
    for byte, msb, width, value in fields:
        check(extract(sent, byte, msb, width) == int(value), spec.name, "decode", byte, msb)
    if cmd is not None:
        check(
            isinstance(cmd.cdb, bytearray) and bytes(cmd.cdb) == want,
            spec.name,
            "cmd.cdb differs from what was sent",
        )
        check(cmd.opcode.value == spec.code, spec.name, "opcode property")
        check(isinstance(cmd, SCSICommand), spec.name, "type", type(cmd))
        cmdclasses[spec.name] = (type(cmd), used, want)
        if RNG.random() < 0.05:
            roundtrip(type(cmd), cmd, used, want, not spec.name.endswith("_default"))
    return cmd


def roundtrip(cls, cmd, used, want, complete):
    """static marshall / unmarshall helpers, valid for the latest command built"""
    length = len(want)
    fields = cls.unmarshall_cdb(bytearray(want))
    check(isinstance(fields, dict) and fields["opcode"] == want[0], cls, "unmarshall opcode")
    again = cls.marshall_cdb(fields)
    check(
        isinstance(again, bytearray) and bytes(again) == want,
        cls,
        "marshall(unmarshall(cdb))",
        bytes(again).hex(),
        want.hex(),
    )
    # instance level access gives the same
    check(cmd.unmarshall_cdb(cmd.cdb) == fields, cls, "instance unmarshall")
    check(cmd.marshall_cdb(fields) == again, cls, "instance marshall")
    if not complete:
        return
    # arbitrary bit patterns: defined bits survive, everything else is dropped
    mask = int.from_bytes(used, "big")
    for _ in range(6):
        raw = RNG.getrandbits(8 * length)
        dec = cls.unmarshall_cdb(bytearray(raw.to_bytes(length, "big")))
        enc = cls.marshall_cdb(dec)
        check(
            int.from_bytes(enc, "big") == raw & mask and len(enc) == length,
            cls,
            "random pattern",
            "%x" % raw,
            bytes(enc).hex(),
        )
        check(cls.unmarshall_cdb(enc) == dec, cls, "decode stable")
    for raw in (mask, 0):
        dec = cls.unmarshall_cdb(bytearray(raw.to_bytes(length, "big")))
        enc = cls.marshall_cdb(dec)
        check(int.from_bytes(enc, "big") == raw, cls, "all ones / zeros pattern")


def check_commands():
    calls = 0
    for devtype, setname in sorted(DEVICE_TYPES.items()):
        enum = SETS[setname]
        dev = Transport(devtype)
        scsi = SCSI(dev, 512)
        # the facade asked the device what it is and selected the command set
        check(dev.opcodes is enum, "command set for device type", devtype)
        check(dev.devicetype == devtype, "device type", devtype)
        check(
            [(k, c.hex(), r) for k, c, r in dev.sent] == [(bytearray, "120000006000", False)],
            "initial inquiry",
            dev.sent,
        )
        check(scsi.blocksize == 512, "blocksize")
        full = devtype in (0x00, 0x01, 0x03, 0x08, 0x05)
        classes = {}
        for spec in COMMANDS:
            op = offered(enum, spec.where)
            if op is None:
                # not offered by this command set: nothing reaches the transport
                before = len(dev.sent)
                try:
                    spec.call(scsi, {a.name: a.default for a in spec.args})
                except (AttributeError, StopIteration):
                    check(len(dev.sent) == before, spec.name, "sent although not offered")
                else:
                    check(False, spec.name, "is not offered by", setname)
                continue
            check(op.value == spec.code, setname, spec.name, "opcode", op.value)
            base = {a.name: a.default for a in spec.args}
            # defaults
            run_one(scsi, dev, spec, base, classes)
            calls += 1
            if not full:
                for _ in range(3):
                    run_one(scsi, dev, spec, {a.name: a.rand() for a in spec.args}, classes)
                    calls += 1
                continue
            # one argument at a time, others at their defaults, then at their maximum
            for arg in spec.args:
                for value in arg.values():
                    args = dict(base)
                    args[arg.name] = value
                    run_one(scsi, dev, spec, args, classes)
                    calls += 1
            # everything at its largest allowed value
            top = {
                a.name: min((1 << a.width) - 1, a.cap if a.cap is not None else 1 << 70)
                for a in spec.args
            }
            for arg in spec.args:
                if arg.cap is not None and arg.cap > 0xFFFF:
                    top[arg.name] = 0xFFFF
            if spec.args:
                run_one(scsi, dev, spec, top, classes)
                calls += 1
                for arg in spec.args:
                    args = dict(top)
                    args[arg.name] = 0
                    run_one(scsi, dev, spec, args, classes)
                    calls += 1
            # random combinations
            for _ in range(25 if spec.args else 1):
                run_one(scsi, dev, spec, {a.name: a.rand() for a in spec.args}, classes)
                calls += 1
            # the static helpers right after a command of that class was built
            cmd = run_one(scsi, dev, spec, base, classes)
            if cmd is not None:
                cls, used, want = classes[spec.name]
                roundtrip(cls, cmd, used, want, not spec.name.endswith("_default"))
        # context manager protocol closes the device
        with scsi as again:
            check(again is scsi, "__enter__")
        check(dev.closed == 1, "close on exit")
    return calls


def check_misc_commands():
    """things the table above does not express"""
    dev = Transport(0)
    scsi = SCSI(dev, 0)
    # block commands need a block size, nothing is sent without one
    for call in (
        lambda: scsi.read10(0, 1),
        lambda: scsi.read12(0, 1),
        lambda: scsi.read16(0, 1),
        lambda: scsi.write10(0, 1, bytearray(1)),
        lambda: scsi.write12(0, 1, bytearray(1)),
        lambda: scsi.write16(0, 1, bytearray(1)),
        lambda: scsi.writesame10(0, 1, bytearray(1)),
        lambda: scsi.writesame16(0, 1, bytearray(1)),
    ):
        before = len(dev.sent)
        try:
            call()
        except SCSICommand.MissingBlocksizeException:
            check(len(dev.sent) == before, "sent without blocksize")
        else:
            check(False, "blocksize 0 accepted")
    # WRITE SAME(16) with NDOB needs none
    cmd = scsi.writesame16(0x1122334455667788, 0x99AABBCC, None, ndob=1, group=0x1F)
    check(
        bytes(cmd.cdb) == bytes.fromhex("93011122334455667788" "99aabbcc1f00"),
        "writesame16 ndob",
        bytes(cmd.cdb).hex(),
    )
    check(dev.sent[-1][1] == bytes(cmd.cdb), "writesame16 ndob sent")
    # invalid PERSISTENT RESERVE IN service action never reaches the transport
    before = len(dev.sent)
    try:
        scsi.persistentreservein(4)
    except ValueError:
        check(len(dev.sent) == before, "invalid service action sent")
    else:
        check(False, "invalid service action accepted")
    # the blocksize of the facade scales buffers, not the CDB
    for bs in (1, 512, 520, 4096):
        scsi.blocksize = bs
        cmd = scsi.read16(0xDEADBEEFCAFEF00D, 7, group=3)
        check(
            bytes(cmd.cdb) == bytes.fromhex("8800deadbeefcafef00d000000070300"),
            "read16 blocksize",
            bs,
        )
        check(len(cmd.datain) == bs * 7, "read16 datain size")
        cmd = scsi.write10(0xDEADBEEF, 7, bytearray(bs * 7), fua=1)
        check(bytes(cmd.cdb) == bytes.fromhex("2a08deadbeef00000700"), "write10", bs)
    # re-targeting an existing facade at another device
    dev2 = Transport(8)
    scsi(dev2)
    check(dev2.opcodes is smc, "__call__ selects command set")
    cmd = scsi.movemedium(0x0102, 0x0304, 0x0506, invert=1)
    check(bytes(cmd.cdb) == bytes.fromhex("a50001020304050600000100"), "movemedium")
    check(dev2.sent[-1][1] == bytes(cmd.cdb), "movemedium sent")
    # command classes are reachable from the facade module as before
    for name in (
        "ATAPassThrough12 ATAPassThrough16 ExchangeMedium ExtendedCopy4 ExtendedCopy5 "
        "GetLBAStatus InitializeElementStatus InitializeElementStatusWithRange Inquiry "
        "ModeSelect6 ModeSense6 ModeSelect10 ModeSense10 MoveMedium "
        "OpenCloseImportExportElement PersistentReserveIn PersistentReserveInReadKeys "
        "PersistentReserveInReadReservation PersistentReserveInReportCapabilities "
        "PersistentReserveInReadFullStatus PersistentReserveOut PositionToElement "
        "PreventAllowMediumRemoval Read10 Read12 Read16 ReadCapacity10 ReadCapacity16 ReadCd "
        "ReadDiscInformation ReadElementStatus ReportLuns ReportPriority "
        "ReportTargetPortGroups SynchronizeCache10 SynchronizeCache16 TestUnitReady Write10 "
        "Write12 Write16 WriteSame10 WriteSame16 SCSI"
    ).split():
        obj = getattr(scsi_module, name)
        check(isinstance(obj, type), "scsi module attribute", name)
    from pyscsi.pyscsi.scsi_cdb_read10 import Read10
    from pyscsi.pyscsi.scsi_cdb_extended_copy_spc5 import ExtendedCopy

    check(scsi_module.Read10 is Read10, "Read10 identity")
    check(scsi_module.ExtendedCopy5 is ExtendedCopy, "ExtendedCopy5 identity")

    # direct construction of command objects with OpCode objects
    r = Read10(sbc.READ_10, 512, 0x01020304, 0x0506, rdprotect=7, group=0x15)
    check(bytes(r.cdb) == bytes.fromhex("28e00102030415050600"), "direct Read10")
    r2 = Read10(mmc.READ_10, 2048, 1, 2)
    check(bytes(r2.cdb) == bytes.fromhex("28000000000100000200"), "direct Read10 mmc")
    check(bytes(r.cdb) == bytes.fromhex("28e00102030415050600"), "earlier command unchanged")
    # the properties of a command object
    r.cdb = bytearray(b"\x01\x02")
    check(r.cdb == bytearray(b"\x01\x02"), "cdb setter")
    check(bytes(r2.cdb) == bytes.fromhex("28000000000100000200"), "cdb is per instance")
    for prop in ("dataout", "datain", "result", "sense", "raw_sense_data", "pagecode", "opcode"):
        marker = object()
        setattr(r, prop, marker)
        check(getattr(r, prop) is marker, "property", prop)
        check(getattr(r2, prop) is not marker, "property is per instance", prop)
    check(r2.opcode is mmc.READ_10, "opcode property")
    check(r2.sense is None and r2.raw_sense_data is None, "sense defaults")
    check(r2.pagecode is None and r2.result == {}, "pagecode / result defaults")
    check(len(r2.datain) == 4096 and len(r2.dataout) == 0, "buffers")


# --------------------------------------------------------------------------
# the converter helpers against a bit-by-bit reference
# --------------------------------------------------------------------------
def ref_int_to_ba(value, size):
    out = bytearray(size)
    for i in range(size):
        out[size - 1 - i] = (value >> (8 * i)) % 256
    return out


def ref_ba_to_int(ba):
    total = 0
    for b in ba:
        total = total * 256 + b
    return total


def ref_mask_geometry(mask):
    nbytes = 1
    while mask >= 1 << (8 * nbytes):
        nbytes += 1
    shift = 0
    while not (mask >> shift) & 1:
        shift += 1
    return nbytes, shift


def check_converter():
    for size in range(0, 18):
        for _ in range(40):
            value = RNG.getrandbits(8 * size) if size else 0
            got = scsi_int_to_ba(value, size)
            check(
                isinstance(got, bytearray) and got == ref_int_to_ba(value, size),
                "scsi_int_to_ba",
                value,
                size,
            )
            check(scsi_ba_to_int(got) == value, "scsi_ba_to_int", value)
            check(scsi_ba_to_int(bytes(got)) == value, "scsi_ba_to_int bytes", value)
        # values wider than the array keep their low bytes
        wide = RNG.getrandbits(8 * size + 13)
        check(scsi_int_to_ba(wide, size) == ref_int_to_ba(wide, size), "wide value", size)
    check(scsi_int_to_ba() == bytearray(4), "defaults")
    check(scsi_int_to_ba(34, 4) == bytearray(b'\x00\x00\x00"'), "docstring example")
    check(scsi_int_to_ba(0x0102) == bytearray(b"\x00\x00\x01\x02"), "default size")
    check(scsi_ba_to_int(bytearray()) == 0, "empty array")

    # contiguous masks at every width / alignment that fits in eight bytes
    for _ in range(1500):
        width = RNG.randint(1, 64)
        shift = RNG.randint(0, min(7, 64 - width))
        mask = ((1 << width) - 1) << shift
        nbytes, rshift = ref_mask_geometry(mask)
        check(rshift == shift, "geometry")
        pos = RNG.randint(0, 12)
        size = pos + nbytes + RNG.randint(0, 3)
        value = RNG.getrandbits(width)
        # encode into a zero buffer
        buf = bytearray(size)
        encode_dict({"f": value, "ignored": 5}, {"f": [mask, pos], "other": [0xFF, 0]}, buf)
        want = bytearray(size)
        want[pos : pos + nbytes] = ref_int_to_ba(value << shift, nbytes)
        check(buf == want, "encode_dict", hex(mask), pos, value, bytes(buf).hex())
        # tuple notation is the same as list notation
        buf2 = bytearray(size)
        encode_dict({"f": value}, {"f": (mask, pos)}, buf2)
        check(buf2 == want, "encode_dict tuple")
        # decode from a noisy buffer
        noise = bytearray(RNG.getrandbits(8) for _ in range(size))
        out = {"stale": 1}
        decode_bits(noise, {"f": [mask, pos]}, out)
        ref = (ref_ba_to_int(noise[pos : pos + nbytes]) >> shift) & ((1 << width) - 1)
        check(out == {"stale": 1, "f": ref}, "decode_bits", hex(mask), pos, out)
        # encode over existing content merges with exclusive or, as before
        before = bytearray(noise)
        encode_dict({"f": value}, {"f": [mask, pos]}, noise)
        merged = bytearray(before)
        for i, b in enumerate(ref_int_to_ba(value << shift, nbytes)):
            merged[pos + i] ^= b
        check(noise == merged, "encode_dict merge")

    # several fields sharing bytes
    layout = {
        "a": [0xE0, 1],
        "b": [0x10, 1],
        "c": [0x0F, 1],
        "d": [0xFFFFFF, 2],
        "e": [0x3FFF, 5],
        "f": [0xC0, 5],
        "g": [0xFFFFFFFFFFFFFFFF, 7],
        "h": [0x7FFE, 15],
    }
    widths = {"a": 3, "b": 1, "c": 4, "d": 24, "e": 14, "f": 2, "g": 64, "h": 14}
    for _ in range(300):
        values = {k: RNG.getrandbits(w) for k, w in widths.items()}
        keys = list(values)
        RNG.shuffle(keys)
        buf = bytearray(18)
        encode_dict({k: values[k] for k in keys}, layout, buf)
        out = {}
        decode_bits(buf, layout, out)
        check(out == values and list(out) == list(layout), "shared bytes", values, out)
        total = 0
        for k, (mask, pos) in layout.items():
            nbytes, shift = ref_mask_geometry(mask)
            total |= (values[k] << shift) << (8 * (18 - pos - nbytes))
        check(ref_ba_to_int(buf) == total, "shared bytes layout")

    # blob notations
    for kind, unit in (("b", 1), ("w", 2), ("dw", 4)):
        for _ in range(60):
            count = RNG.randint(1, 5)
            pos = RNG.randint(0, 9)
            size = pos + count * unit + RNG.randint(0, 4)
            blob = bytearray(RNG.getrandbits(8) for _ in range(count * unit))
            buf = bytearray(size)
            encode_dict({"x": blob}, {"x": (kind, pos, count)}, buf)
            want = bytearray(size)
            want[pos : pos + count * unit] = blob
            check(buf == want, "blob encode", kind)
            out = {}
            decode_bits(buf, {"x": (kind, pos, count), "y": [0xFF, 0]}, out)
            check(out == {"x": blob, "y": buf[0]}, "blob decode", kind)
    # key order of the result follows the layout
    out = {}
    decode_bits(bytearray(range(16)), {"z": [0xFF, 3], "a": [0xFFFF, 1], "m": ("b", 2, 2)}, out)
    check(list(out.items()) == [("z", 3), ("a", 0x0102), ("m", bytearray(b"\x02\x03"))], out)


def main():
    check_opcode_tables()
    check_converter()
    calls = check_commands()
    check_misc_commands()
    print("PASS (%d commands sent, %d checks)" % (calls, CHECKS))


if __name__ == "__main__":
    main()
