#!/usr/bin/env python
# coding: utf-8
"""
Demo / check for property C07:

  On every transport, executing a command returns normally only if the target
  reported GOOD; a CHECK CONDITION surfaces as a CheckCondition error reporting
  the sense key, ASC and ASCQ the target sent (or, only when the caller asked for
  raw sense, the unmodified sense bytes attached to the command), and each other
  status raises the error named after it.  A failed command is never
  indistinguishable from a successful one, and the facade passes the error on to
  its caller without decoding the untouched buffer as if it were device data.

Everything is driven through the public API (SCSIDevice, ISCSIDevice, SCSI and the
command classes).  The external bindings `sgio` and `iscsi` are replaced by small
scripted fakes installed into sys.modules before the library is imported.

Run:  cd /tmp/seed/C07v && PYTHONPATH=/tmp/seed/C07v /venv/bin/python SEED/demo.py
"""

import itertools
import sys
import types

# --------------------------------------------------------------------------
# fake bindings
# --------------------------------------------------------------------------

SCRIPT = {
    "sgio": None,  # None -> GOOD, else an exception instance to raise
    "sgio_fill": None,  # bytes copied into datain on GOOD (and on failure when told so)
    "iscsi_status": 0,
    "iscsi_sense": "absent",  # "absent" -> task has no raw_sense attribute
    "iscsi_fill": None,
    "fill_on_failure": False,
}
LOG = {"sgio_calls": [], "iscsi_tasks": [], "iscsi_commands": [], "ctx": []}


def _fill(buf, data):
    if data is None:
        return
    n = min(len(buf), len(data))
    buf[:n] = data[:n]


fake_sgio = types.ModuleType("sgio")


class _SgioCheckConditionError(Exception):
    def __init__(self, sense):
        Exception.__init__(self, "check condition")
        self.sense = sense


class _SgioUnspecifiedError(Exception):
    pass


class _SgioTransportError(Exception):
    pass


def _sgio_execute(fobj, cdb, dataout, datain, *more):
    LOG["sgio_calls"].append((fobj, bytes(cdb), dataout, datain))
    err = SCRIPT["sgio"]
    if err is not None:
        if SCRIPT["fill_on_failure"]:
            _fill(datain, SCRIPT["sgio_fill"])
        raise err
    _fill(datain, SCRIPT["sgio_fill"])
    return 0


fake_sgio.CheckConditionError = _SgioCheckConditionError
fake_sgio.UnspecifiedError = _SgioUnspecifiedError
fake_sgio.TransportError = _SgioTransportError
fake_sgio.execute = _sgio_execute

fake_iscsi = types.ModuleType("iscsi")
fake_iscsi.SCSI_XFER_NONE = 0
fake_iscsi.SCSI_XFER_READ = 1
fake_iscsi.SCSI_XFER_WRITE = 2
fake_iscsi.ISCSI_SESSION_NORMAL = 2
fake_iscsi.ISCSI_HEADER_DIGEST_NONE_CRC32C = 1


class _IscsiContext(object):
    def __init__(self, name):
        self.name = name
        self.connected = False
        self.calls = []
        LOG["ctx"].append(self)

    def set_targetname(self, t):
        self.calls.append(("target", t))

    def set_session_type(self, t):
        self.calls.append(("session", t))

    def set_header_digest(self, t):
        self.calls.append(("digest", t))

    def connect(self, portal, lun):
        self.connected = True
        self.calls.append(("connect", portal, lun))

    def disconnect(self):
        self.connected = False

    def command(self, lun, task, dataout, datain):
        LOG["iscsi_commands"].append((lun, task, dataout, datain))
        task.status = SCRIPT["iscsi_status"]
        if SCRIPT["iscsi_sense"] != "absent":
            task.raw_sense = SCRIPT["iscsi_sense"]
        good = False
        try:
            good = task.status == 0
        except Exception:
            pass
        if good or SCRIPT["fill_on_failure"]:
            _fill(datain, SCRIPT["iscsi_fill"])


class _IscsiURL(object):
    def __init__(self, ctx, url):
        self.url = url
        self.target = "iqn.fake:target"
        self.portal = "127.0.0.1:3260"
        self.lun = 7


class _IscsiTask(object):
    def __init__(self, cdb, direction, xferlen):
        self.cdb = bytes(cdb)
        self.direction = direction
        self.xferlen = xferlen
        self.status = None
        LOG["iscsi_tasks"].append(self)


fake_iscsi.Context = _IscsiContext
fake_iscsi.URL = _IscsiURL
fake_iscsi.Task = _IscsiTask

sys.modules["sgio"] = fake_sgio
sys.modules["iscsi"] = fake_iscsi

# --------------------------------------------------------------------------
# library imports (after the fakes are in place)
# --------------------------------------------------------------------------

import pyscsi.pyscsi.scsi_enum_command as scsi_enum_command  # noqa: E402
from pyscsi.pyiscsi.iscsi_device import ISCSIDevice  # noqa: E402
from pyscsi.pyscsi import scsi_exception  # noqa: E402
from pyscsi.pyscsi.scsi import SCSI  # noqa: E402
from pyscsi.pyscsi.scsi_cdb_inquiry import Inquiry  # noqa: E402
from pyscsi.pyscsi.scsi_cdb_read10 import Read10  # noqa: E402
from pyscsi.pyscsi.scsi_cdb_testunitready import TestUnitReady  # noqa: E402
from pyscsi.pyscsi.scsi_cdb_write10 import Write10  # noqa: E402
from pyscsi.pyscsi.scsi_device import SCSIDevice  # noqa: E402
from pyscsi.pyscsi.scsi_enum_command import SCSI_STATUS, mmc, sbc, smc, spc, ssc  # noqa: E402
from pyscsi.pyscsi.scsi_sense import (  # noqa: E402
    SCSICheckCondition,
    sense_ascq_dict,
    sense_key_dict,
)

CHECKS = [0]
FAILURES = []


def check(cond, msg):
    CHECKS[0] += 1
    if not cond:
        FAILURES.append(msg)
        if len(FAILURES) > 40:
            finish()


def finish():
    if FAILURES:
        for f in FAILURES:
            print("FAIL: %s" % f)
        print("FAILED (%d of %d checks)" % (len(FAILURES), CHECKS[0]))
        sys.exit(1)
    print("PASS (%d checks)" % CHECKS[0])
    sys.exit(0)


def reset():
    SCRIPT.update(
        sgio=None,
        sgio_fill=None,
        iscsi_status=0,
        iscsi_sense="absent",
        iscsi_fill=None,
        fill_on_failure=False,
    )


# --------------------------------------------------------------------------
# sense buffers
# --------------------------------------------------------------------------


def fixed_sense(key, asc, ascq, rc=0x70, length=18, valid=False):
    b = bytearray(length)
    b[0] = rc | (0x80 if valid else 0)
    b[2] = key & 0x0F
    b[7] = length - 8
    b[12] = asc
    b[13] = ascq
    return b


def desc_sense(key, asc, ascq, rc=0x72, extra=b""):
    b = bytearray(8) + bytearray(extra)
    b[0] = rc
    b[1] = key & 0x0F
    b[2] = asc
    b[3] = ascq
    b[7] = len(extra)
    return b


def expected_str(key, asc, ascq):
    if 0x80 <= asc <= 0xFF:
        desc = "Vendor specific ASC"
    elif 0x80 <= ascq <= 0xFF:
        desc = "Vendor specific ASCQ"
    else:
        desc = sense_ascq_dict.get((asc << 8) + ascq, "Unknown ASC/ASCQ")
    return "Check Condition: %s(0x%02X) ASC+Q:%s(0x%04X)" % (
        sense_key_dict.get(key, "Reserved"),
        key,
        desc,
        (asc << 8) + ascq,
    )


TRIPLES = [
    (0x0, 0x00, 0x00),
    (0x1, 0x17, 0x01),
    (0x2, 0x04, 0x01),
    (0x2, 0x3A, 0x00),
    (0x3, 0x11, 0x00),
    (0x4, 0x44, 0x00),
    (0x5, 0x20, 0x00),
    (0x5, 0x24, 0x00),
    (0x5, 0x25, 0x00),
    (0x6, 0x29, 0x00),
    (0x6, 0x28, 0x00),
    (0x7, 0x27, 0x00),
    (0x8, 0x00, 0x05),
    (0x9, 0x80, 0x01),
    (0xA, 0x0D, 0x02),
    (0xB, 0x47, 0x03),
    (0xC, 0x00, 0x00),
    (0xD, 0x00, 0x02),
    (0xE, 0x1D, 0x00),
    (0xF, 0xFF, 0xFF),
    (0x5, 0x21, 0x80),
    (0x3, 0x7F, 0x7F),
    (0x0, 0x00, 0x1D),
]


def sense_cases():
    """yield (sense buffer, expected (key, asc, ascq) or None when undecodable)"""
    for key, asc, ascq in TRIPLES:
        yield fixed_sense(key, asc, ascq), (key, asc, ascq)
        yield fixed_sense(key, asc, ascq, rc=0x71, valid=True), (key, asc, ascq)
        yield fixed_sense(key, asc, ascq, length=32), (key, asc, ascq)
        yield bytes(fixed_sense(key, asc, ascq)), (key, asc, ascq)
        yield desc_sense(key, asc, ascq), (key, asc, ascq)
        yield desc_sense(key, asc, ascq, rc=0x73), (key, asc, ascq)
        yield desc_sense(
            key, asc, ascq, extra=b"\x00\x0a\x80\x00" + b"\x00" * 8
        ), (key, asc, ascq)
    # undecodable: unknown response codes, all zero buffers, nothing at all
    yield bytearray(18), None
    yield bytearray(b"\x7f" + b"\xff" * 17), None
    yield bytearray(b"\x00\x05\x24\x00\x00\x00\x00\x00"), None
    yield bytearray(b"\x74\x05\x24\x00\x00\x00\x00\x00"), None
    yield bytearray(1), None
    yield bytearray(), None
    yield b"", None
    yield None, None


def check_cc(exc, expect, where):
    check(isinstance(exc, SCSICheckCondition), "%s: not a SCSICheckCondition" % where)
    check(isinstance(exc, Exception), "%s: not an Exception" % where)
    if expect is None:
        check(exc.data == {}, "%s: data should be empty, got %r" % (where, exc.data))
        check(exc.asc == 0 and exc.ascq == 0, "%s: asc/ascq for empty" % where)
        check(str(exc) == expected_str(0, 0, 0), "%s: str %r" % (where, str(exc)))
        return
    key, asc, ascq = expect
    check(exc.data.get("sense_key") == key, "%s: sense key %r" % (where, exc.data))
    check(
        exc.data.get("additional_sense_code") == asc,
        "%s: asc in data %r" % (where, exc.data),
    )
    check(
        exc.data.get("additional_sense_code_qualifier") == ascq,
        "%s: ascq in data %r" % (where, exc.data),
    )
    check(exc.asc == asc, "%s: asc attr %r" % (where, exc.asc))
    check(exc.ascq == ascq, "%s: ascq attr %r" % (where, exc.ascq))
    check(str(exc) == expected_str(key, asc, ascq), "%s: str %r" % (where, str(exc)))


# --------------------------------------------------------------------------
# devices
# --------------------------------------------------------------------------

DEVICE_ERRORS = [
    "CheckCondition",
    "ConditionsMet",
    "BusyStatus",
    "ReservationConflict",
    "TaskSetFull",
    "ACAActive",
    "TaskAborted",
]
COMMAND_ERRORS = ["CommandNotImplemented", "MissingBlocksizeException", "OpcodeException"]


def make_sg(**kw):
    return SCSIDevice("/dev/null", **kw)


def make_iscsi(**kw):
    return ISCSIDevice("iscsi://127.0.0.1/iqn.fake:target/7", **kw)


def new_cmds():
    """fresh commands: no data, data-in, data-out"""
    return [
        ("tur", TestUnitReady(sbc.TEST_UNIT_READY)),
        ("inq", Inquiry(spc.INQUIRY, alloclen=96)),
        ("rd10", Read10(sbc.READ_10, 512, 0, 1)),
        ("wr10", Write10(sbc.WRITE_10, 512, 0, 1, bytearray(b"\xa5" * 512))),
    ]


def run(dev, cmd, **kw):
    """returns (returned_normally, exception)"""
    try:
        r = dev.execute(cmd, **kw)
    except BaseException as e:  # noqa
        return False, e
    check(r is None, "execute returned %r instead of None" % (r,))
    return True, None


def test_error_classes():
    for cls in (SCSIDevice, ISCSIDevice):
        for name in DEVICE_ERRORS + COMMAND_ERRORS:
            e = getattr(cls, name, None)
            check(isinstance(e, type), "%s.%s missing" % (cls.__name__, name))
            if not isinstance(e, type):
                continue
            check(issubclass(e, Exception), "%s.%s not Exception" % (cls.__name__, name))
            check(e.__name__ == name, "%s.%s __name__ %r" % (cls.__name__, name, e.__name__))
        check(
            issubclass(cls.CheckCondition, SCSICheckCondition),
            "%s.CheckCondition base" % cls.__name__,
        )
        for a, b in itertools.permutations(DEVICE_ERRORS, 2):
            check(
                not issubclass(getattr(cls, a), getattr(cls, b)),
                "%s: %s is a subclass of %s" % (cls.__name__, a, b),
            )
        for name in DEVICE_ERRORS[1:]:
            check(
                not issubclass(getattr(cls, name), SCSICheckCondition),
                "%s.%s derives from SCSICheckCondition" % (cls.__name__, name),
            )
    # per-class exception types, as produced by the metaclass
    for name in DEVICE_ERRORS:
        check(
            getattr(SCSIDevice, name) is not getattr(ISCSIDevice, name),
            "SCSIDevice.%s is ISCSIDevice.%s" % (name, name),
        )
    # instances see the same classes as their type
    reset()
    for dev in (make_sg(), make_iscsi()):
        for name in DEVICE_ERRORS + COMMAND_ERRORS:
            check(
                getattr(dev, name) is getattr(type(dev), name),
                "%r.%s differs between instance and class" % (dev, name),
            )
        dev.close()
    check(
        isinstance(SCSIDevice, scsi_exception.SCSIDeviceCommandExceptionMeta),
        "SCSIDevice metaclass",
    )
    check(
        isinstance(ISCSIDevice, scsi_exception.SCSIDeviceCommandExceptionMeta),
        "ISCSIDevice metaclass",
    )
    # status codes are what SAM says they are
    for name, val in (
        ("GOOD", 0x00),
        ("CHECK_CONDITION", 0x02),
        ("CONDITIONS_MET", 0x04),
        ("BUSY", 0x08),
        ("RESERVATION_CONFLICT", 0x18),
        ("TASK_SET_FULL", 0x28),
        ("ACA_ACTIVE", 0x30),
        ("TASK_ABORTED", 0x40),
        ("SGIO_ERROR", 0xFF),
    ):
        check(getattr(SCSI_STATUS, name) == val, "SCSI_STATUS.%s" % name)
        check(SCSI_STATUS[val] == name, "SCSI_STATUS[%#x]" % val)
        check(
            getattr(scsi_enum_command.SCSI_STATUS, name) == val,
            "scsi_enum_command.SCSI_STATUS.%s" % name,
        )
    check(scsi_enum_command.SCSI_STATUS is SCSI_STATUS, "SCSI_STATUS identity")
    check(scsi_enum_command.spc is spc, "spc identity")
    check(scsi_enum_command.sbc is sbc, "sbc identity")


def test_sg_good():
    reset()
    dev = make_sg()
    check(dev.opcodes is spc, "SCSIDevice default opcodes")
    for name, cmd in new_cmds():
        reset()
        pattern = bytes(bytearray((i * 7 + 3) & 0xFF for i in range(600)))
        SCRIPT["sgio_fill"] = pattern
        before = len(LOG["sgio_calls"])
        ok, exc = run(dev, cmd)
        check(ok, "sg good %s raised %r" % (name, exc))
        check(len(LOG["sgio_calls"]) == before + 1, "sg good %s: one sgio call" % name)
        call = LOG["sgio_calls"][-1]
        check(call[1] == bytes(cmd.cdb), "sg good %s: cdb passed" % name)
        check(call[2] is cmd.dataout, "sg good %s: dataout passed" % name)
        check(call[3] is cmd.datain, "sg good %s: datain passed" % name)
        check(
            bytes(cmd.datain) == pattern[: len(cmd.datain)],
            "sg good %s: datain content" % name,
        )
        check(cmd.raw_sense_data is None, "sg good %s: raw sense set" % name)
        check(cmd.sense is None, "sg good %s: sense set" % name)
        # and with raw sense requested a GOOD command still just returns
        ok, exc = run(dev, cmd, en_raw_sense=True)
        check(ok, "sg good raw %s raised %r" % (name, exc))
        check(cmd.raw_sense_data is None, "sg good raw %s: raw sense set" % name)
    # positional en_raw_sense
    reset()
    cmd = new_cmds()[0][1]
    try:
        dev.execute(cmd, True)
        dev.execute(cmd, False)
        ok = True
    except Exception:
        ok = False
    check(ok, "sg positional en_raw_sense")
    dev.close()


def test_sg_check_condition():
    reset()
    dev = make_sg()
    n = 0
    for sense, expect in sense_cases():
        for name, cmd in new_cmds():
            n += 1
            where = "sg cc #%d %s" % (n, name)
            reset()
            err = fake_sgio.CheckConditionError(sense)
            SCRIPT["sgio"] = err
            SCRIPT["sgio_fill"] = b"\xee" * 600
            SCRIPT["fill_on_failure"] = bool(n % 2)
            for kw in ({}, {"en_raw_sense": False}):
                ok, exc = run(dev, cmd, **kw)
                check(not ok, "%s: returned normally on CHECK CONDITION" % where)
                check(
                    type(exc) is dev.CheckCondition,
                    "%s: raised %r" % (where, type(exc)),
                )
                check(type(exc) is SCSIDevice.CheckCondition, "%s: class attr" % where)
                check(
                    not isinstance(exc, ISCSIDevice.CheckCondition),
                    "%s: wrong transport's class" % where,
                )
                if isinstance(exc, SCSICheckCondition):
                    check_cc(exc, expect, where)
                check(
                    cmd.raw_sense_data is None,
                    "%s: raw sense attached without being asked" % where,
                )
            # raw sense requested: returns, the very same sense object is attached
            ok, exc = run(dev, cmd, en_raw_sense=True)
            check(ok, "%s raw: raised %r" % (where, exc))
            check(cmd.raw_sense_data is sense, "%s raw: sense not attached as is" % where)
            if sense is not None:
                check(
                    bytes(cmd.raw_sense_data) == bytes(sense),
                    "%s raw: sense bytes modified" % where,
                )
    dev.close()


def test_sg_other_errors():
    reset()
    dev = make_sg()
    errors = [
        fake_sgio.UnspecifiedError("status 0x08"),
        fake_sgio.TransportError("host 0x07"),
        OSError(5, "Input/output error"),
        ValueError("bad buffer"),
        RuntimeError("boom"),
        KeyboardInterrupt(),
    ]
    for err in errors:
        for raw in (False, True):
            for name, cmd in new_cmds():
                reset()
                SCRIPT["sgio"] = err
                ok, exc = run(dev, cmd, en_raw_sense=raw)
                check(not ok, "sg other %r: returned normally" % err)
                check(exc is err, "sg other %r: got %r" % (err, exc))
                check(cmd.raw_sense_data is None, "sg other %r: raw sense" % err)
    # a subclass of the binding's CheckConditionError is still a check condition
    class Sub(fake_sgio.CheckConditionError):
        pass

    reset()
    SCRIPT["sgio"] = Sub(fixed_sense(5, 0x24, 0))
    cmd = new_cmds()[0][1]
    ok, exc = run(dev, cmd)
    check(type(exc) is dev.CheckCondition, "sg subclass cc: %r" % (exc,))
    if isinstance(exc, SCSICheckCondition):
        check_cc(exc, (5, 0x24, 0), "sg subclass cc")
    dev.close()


def test_sg_replug_and_modes():
    reset()
    for kw in (
        {},
        {"readwrite": True, "buffering": 0},
        {"detect_replugged": False},
        {"readwrite": False, "detect_replugged": True, "buffering": -1},
    ):
        dev = make_sg(**kw)
        cmd = new_cmds()[1][1]
        # pretend the node was replugged: the device reopens and still reports status
        old_file = dev._file
        dev._ino = -1
        reset()
        ok, exc = run(dev, cmd)
        check(ok, "sg replug %r good: %r" % (kw, exc))
        if kw.get("detect_replugged", True):
            check(dev._file is not old_file, "sg replug %r: not reopened" % kw)
            check(old_file.closed, "sg replug %r: old file open" % kw)
        else:
            check(dev._file is old_file, "sg replug %r: reopened" % kw)
        check(LOG["sgio_calls"][-1][0] is dev._file, "sg replug %r: file passed" % kw)
        dev._ino = -1
        SCRIPT["sgio"] = fake_sgio.CheckConditionError(fixed_sense(6, 0x29, 0))
        ok, exc = run(dev, cmd)
        check(type(exc) is dev.CheckCondition, "sg replug %r cc: %r" % (kw, exc))
        if isinstance(exc, SCSICheckCondition):
            check_cc(exc, (6, 0x29, 0), "sg replug cc")
        dev.close()
    # context manager protocol
    reset()
    with make_sg() as dev:
        ok, exc = run(dev, new_cmds()[0][1])
        check(ok, "sg with: %r" % (exc,))
        f = dev._file
    check(f.closed, "sg with: file left open")
    # unsupported names
    for bad in ("foo", "iscsi://x/y/1", "/tmp/zz", ""):
        try:
            SCSIDevice(bad)
            check(False, "SCSIDevice(%r) accepted" % bad)
        except NotImplementedError:
            check(True, "")
    for bad in ("foo", "/dev/null", ""):
        try:
            ISCSIDevice(bad)
            check(False, "ISCSIDevice(%r) accepted" % bad)
        except NotImplementedError:
            check(True, "")


STATUS_ERRORS = [
    (0x04, "ConditionsMet"),
    (0x08, "BusyStatus"),
    (0x18, "ReservationConflict"),
    (0x28, "TaskSetFull"),
    (0x30, "ACAActive"),
    (0x40, "TaskAborted"),
]


class IntLike(int):
    pass


def test_iscsi_good():
    reset()
    dev = make_iscsi()
    check(dev.opcodes is spc, "ISCSIDevice default opcodes")
    ctx = LOG["ctx"][-1]
    check(ctx.connected, "iscsi connect")
    check(ctx.name == "iscsi://127.0.0.1/iqn.fake:target/7", "iscsi context name")
    for status in (0, 0x00, False, 0.0, IntLike(0)):
        for name, cmd in new_cmds():
            reset()
            pattern = bytes(bytearray((i * 5 + 1) & 0xFF for i in range(600)))
            SCRIPT["iscsi_fill"] = pattern
            SCRIPT["iscsi_status"] = status
            for kw in ({}, {"en_raw_sense": True}, {"en_raw_sense": False}):
                before = len(LOG["iscsi_commands"])
                ok, exc = run(dev, cmd, **kw)
                check(ok, "iscsi good %s raised %r" % (name, exc))
                check(
                    len(LOG["iscsi_commands"]) == before + 1,
                    "iscsi good %s: one command" % name,
                )
                lun, task, dout, din = LOG["iscsi_commands"][-1]
                check(lun == 7, "iscsi good: lun")
                check(task.cdb == bytes(cmd.cdb), "iscsi good %s: cdb" % name)
                check(dout is cmd.dataout and din is cmd.datain, "iscsi good: buffers")
                if len(cmd.dataout):
                    check(
                        (task.direction, task.xferlen)
                        == (fake_iscsi.SCSI_XFER_WRITE, len(cmd.dataout)),
                        "iscsi %s: write direction" % name,
                    )
                elif len(cmd.datain):
                    check(
                        (task.direction, task.xferlen)
                        == (fake_iscsi.SCSI_XFER_READ, len(cmd.datain)),
                        "iscsi %s: read direction" % name,
                    )
                else:
                    check(
                        (task.direction, task.xferlen) == (fake_iscsi.SCSI_XFER_NONE, 0),
                        "iscsi %s: no direction" % name,
                    )
                check(
                    bytes(cmd.datain) == pattern[: len(cmd.datain)],
                    "iscsi good %s: datain" % name,
                )
                check(cmd.raw_sense_data is None, "iscsi good %s: raw sense" % name)
                check(cmd.sense is None, "iscsi good %s: sense" % name)
    # stale sense on a GOOD task is not an error
    reset()
    SCRIPT["iscsi_sense"] = fixed_sense(5, 0x24, 0)
    cmd = new_cmds()[0][1]
    ok, exc = run(dev, cmd)
    check(ok, "iscsi good with stale sense: %r" % (exc,))
    check(cmd.sense is None and cmd.raw_sense_data is None, "iscsi good stale sense kept")
    dev.close()
    check(not ctx.connected, "iscsi disconnect")
    # initiator name is used for the context when given
    dev = make_iscsi(initiator_name="iqn.fake:initiator")
    check(LOG["ctx"][-1].name == "iqn.fake:initiator", "iscsi initiator name")
    with dev as d:
        check(d is dev, "iscsi with")
        ok, exc = run(d, new_cmds()[0][1])
        check(ok, "iscsi with good: %r" % (exc,))
    check(not LOG["ctx"][-1].connected, "iscsi with: disconnect")


def test_iscsi_check_condition():
    reset()
    dev = make_iscsi()
    n = 0
    cases = list(sense_cases()) + [("absent", None)]
    for sense, expect in cases:
        for name, cmd in new_cmds():
            n += 1
            where = "iscsi cc #%d %s" % (n, name)
            for status in (0x02, 2.0, IntLike(2)):
                for raw in (False, True):
                    cmd = dict(new_cmds())[name]
                    reset()
                    SCRIPT["iscsi_status"] = status
                    SCRIPT["iscsi_sense"] = sense
                    SCRIPT["iscsi_fill"] = b"\xee" * 600
                    SCRIPT["fill_on_failure"] = bool(n % 2)
                    kw = {"en_raw_sense": True} if raw else {}
                    ok, exc = run(dev, cmd, **kw)
                    check(not ok, "%s: returned normally on CHECK CONDITION" % where)
                    check(
                        type(exc) is dev.CheckCondition,
                        "%s: raised %r" % (where, type(exc)),
                    )
                    check(
                        type(exc) is ISCSIDevice.CheckCondition,
                        "%s: class attr" % where,
                    )
                    check(
                        not isinstance(exc, SCSIDevice.CheckCondition),
                        "%s: wrong transport's class" % where,
                    )
                    if isinstance(exc, SCSICheckCondition):
                        check_cc(exc, expect, where)
                    want = None if isinstance(sense, str) else sense
                    check(cmd.sense is want, "%s: cmd.sense %r" % (where, cmd.sense))
                    if raw:
                        check(
                            cmd.raw_sense_data is want,
                            "%s: raw sense not attached as is" % where,
                        )
                        if want is not None:
                            check(
                                bytes(cmd.raw_sense_data) == bytes(want),
                                "%s: raw bytes modified" % where,
                            )
                    else:
                        check(
                            cmd.raw_sense_data is None,
                            "%s: raw sense attached without being asked" % where,
                        )
    dev.close()


def test_iscsi_other_statuses():
    reset()
    dev = make_iscsi()
    for value, errname in STATUS_ERRORS:
        for status in (value, float(value), IntLike(value)):
            for raw in (False, True):
                for name, cmd in new_cmds():
                    where = "iscsi status %r %s raw=%r" % (status, name, raw)
                    reset()
                    SCRIPT["iscsi_status"] = status
                    SCRIPT["iscsi_sense"] = fixed_sense(5, 0x24, 0) if raw else "absent"
                    ok, exc = run(dev, cmd, en_raw_sense=raw)
                    check(not ok, "%s: returned normally" % where)
                    check(
                        type(exc) is getattr(dev, errname),
                        "%s: raised %r, wanted %s" % (where, exc, errname),
                    )
                    check(
                        type(exc) is getattr(ISCSIDevice, errname),
                        "%s: not the class attribute" % where,
                    )
                    check(type(exc).__name__ == errname, "%s: name" % where)
                    check(exc.args == (), "%s: args %r" % (where, exc.args))
                    for other in DEVICE_ERRORS:
                        if other != errname:
                            check(
                                not isinstance(exc, getattr(dev, other)),
                                "%s: also a %s" % (where, other),
                            )
                    check(cmd.sense is None, "%s: sense touched" % where)
                    check(cmd.raw_sense_data is None, "%s: raw sense touched" % where)
    # anything else is a failure too
    weird = [
        0x01,
        0x03,
        0x06,
        0x10,
        0x14,
        0x22,
        0x29,
        0x31,
        0x41,
        0x80,
        0xFF,
        0x100,
        0x102,
        0x200,
        -1,
        -2,
        1 << 40,
        None,
        True,
        2.5,
        "",
        "GOOD",
        "0",
        "CHECK_CONDITION",
        b"\x00",
        (0,),
        [],
        float("nan"),
    ]
    for status in weird:
        for raw in (False, True):
            for name, cmd in new_cmds():
                where = "iscsi weird status %r %s" % (status, name)
                reset()
                SCRIPT["iscsi_status"] = status
                ok, exc = run(dev, cmd, en_raw_sense=raw)
                check(not ok, "%s: returned normally" % where)
                check(type(exc) is RuntimeError, "%s: raised %r" % (where, exc))
                check(cmd.sense is None, "%s: sense touched" % where)
                check(cmd.raw_sense_data is None, "%s: raw sense touched" % where)
    # every byte value: only 0x00 returns
    cmd = new_cmds()[0][1]
    named = dict(STATUS_ERRORS)
    for status in range(256):
        reset()
        SCRIPT["iscsi_status"] = status
        ok, exc = run(dev, cmd)
        if status == 0:
            check(ok, "iscsi byte 0: %r" % (exc,))
        elif status == 2:
            check(type(exc) is dev.CheckCondition, "iscsi byte 2: %r" % (exc,))
        elif status in named:
            check(
                type(exc) is getattr(dev, named[status]),
                "iscsi byte %#x: %r" % (status, exc),
            )
        else:
            check(type(exc) is RuntimeError, "iscsi byte %#x: %r" % (status, exc))
        check(ok == (status == 0), "iscsi byte %#x: normal return" % status)
    dev.close()


def test_subclasses():
    """a derived transport reports through its own error classes"""

    class MySG(SCSIDevice):
        pass

    class MyISCSI(ISCSIDevice):
        pass

    for name in DEVICE_ERRORS:
        check(getattr(MySG, name) is not getattr(SCSIDevice, name), "MySG.%s shared" % name)
        check(
            getattr(MyISCSI, name) is not getattr(ISCSIDevice, name),
            "MyISCSI.%s shared" % name,
        )
        check(getattr(MySG, name).__name__ == name, "MySG.%s name" % name)
    reset()
    dev = MySG("/dev/zero")
    SCRIPT["sgio"] = fake_sgio.CheckConditionError(desc_sense(3, 0x11, 0x04))
    ok, exc = run(dev, new_cmds()[1][1])
    check(type(exc) is MySG.CheckCondition, "MySG cc: %r" % (exc,))
    check(not isinstance(exc, SCSIDevice.CheckCondition), "MySG cc is base cc")
    if isinstance(exc, SCSICheckCondition):
        check_cc(exc, (3, 0x11, 0x04), "MySG cc")
    dev.close()
    reset()
    dev = MyISCSI("iscsi://h/t/0")
    for value, errname in STATUS_ERRORS:
        SCRIPT["iscsi_status"] = value
        ok, exc = run(dev, new_cmds()[0][1])
        check(type(exc) is getattr(MyISCSI, errname), "MyISCSI %s: %r" % (errname, exc))
        check(
            not isinstance(exc, getattr(ISCSIDevice, errname)),
            "MyISCSI %s is base class error" % errname,
        )
    SCRIPT["iscsi_status"] = 2
    SCRIPT["iscsi_sense"] = fixed_sense(2, 0x04, 0x01)
    ok, exc = run(dev, new_cmds()[0][1])
    check(type(exc) is MyISCSI.CheckCondition, "MyISCSI cc: %r" % (exc,))
    if isinstance(exc, SCSICheckCondition):
        check_cc(exc, (2, 0x04, 0x01), "MyISCSI cc")
    SCRIPT["iscsi_status"] = 0x99
    ok, exc = run(dev, new_cmds()[0][1])
    check(type(exc) is RuntimeError, "MyISCSI unknown: %r" % (exc,))
    dev.close()


# --------------------------------------------------------------------------
# facade
# --------------------------------------------------------------------------


def inquiry_data(pdt):
    d = bytearray(96)
    d[0] = pdt
    d[2] = 6
    d[3] = 2
    d[4] = 91
    d[8:16] = b"FAKE    "
    d[16:32] = b"DEMO DEVICE     "
    d[32:36] = b"0001"
    return d


# (method name, args, kwargs, opcode set, decodes data-in)
def facade_calls():
    return [
        ("inquiry", (), {}, sbc, True),
        ("inquiry", (1, 0x80), {}, sbc, True),
        ("inquiry", (), {"evpd": 1, "page_code": 0x83, "alloclen": 200}, sbc, True),
        ("testunitready", (), {}, sbc, False),
        ("readcapacity10", (), {}, sbc, True),
        ("readcapacity16", (), {}, sbc, True),
        ("getlbastatus", (0,), {}, sbc, True),
        ("modesense6", (0x1C,), {}, sbc, True),
        ("modesense10", (0x1C,), {}, sbc, True),
        ("read10", (0, 1), {}, sbc, False),
        ("read12", (0, 1), {}, sbc, False),
        ("read16", (0, 1), {}, sbc, False),
        ("write10", (0, 1, bytearray(512)), {}, sbc, False),
        ("write12", (0, 1, bytearray(512)), {}, sbc, False),
        ("write16", (0, 1, bytearray(512)), {}, sbc, False),
        ("writesame10", (0, 1, bytearray(512)), {}, sbc, False),
        ("writesame16", (0, 1, bytearray(512)), {}, sbc, False),
        ("synchronizecache10", (0, 1), {}, sbc, False),
        ("synchronizecache16", (0, 1), {}, sbc, False),
        ("reportluns", (), {}, sbc, True),
        ("reportpriority", (), {}, sbc, True),
        ("reporttargetportgroups", (), {}, sbc, True),
        ("persistentreservein", (0,), {}, sbc, True),
        ("persistentreservein", (1,), {}, sbc, True),
        ("persistentreservein", (2,), {}, sbc, False),
        ("persistentreservein", (3,), {}, sbc, True),
        ("persistentreserveout", (0,), {}, sbc, False),
        ("readelementstatus", (0, 1), {}, smc, True),
        ("movemedium", (0, 1, 2), {}, smc, False),
        ("exchangemedium", (0, 1, 2, 3), {}, smc, False),
        ("positiontoelement", (0, 1), {}, smc, False),
        ("initializeelementstatus", (), {}, smc, False),
        ("initializeelementstatuswithrange", (0, 1), {}, smc, False),
        ("opencloseimportexportelement", (0, 1), {}, smc, False),
        ("preventallowmediumremoval", (), {}, smc, False),
        ("readcd", (0, 1), {"est": 1, "mcsb": 0x10}, mmc, True),
        ("readdiscinformation", (0,), {}, mmc, True),
    ]


ATA_ARGS = (4, 2, 1, 1, 0, 0, 0, 1, 0, 0xEC)


class Recorder(object):
    """wraps a device so that the demo sees the command objects the facade builds"""

    def __init__(self, dev):
        self.dev = dev
        self.cmds = []
        self.raised = []

    def __getattr__(self, name):
        return getattr(self.dev, name)

    @property
    def opcodes(self):
        return self.dev.opcodes

    @opcodes.setter
    def opcodes(self, v):
        self.dev.opcodes = v

    @property
    def devicetype(self):
        return self.dev.devicetype

    @devicetype.setter
    def devicetype(self, v):
        self.dev.devicetype = v

    def execute(self, cmd, en_raw_sense=False):
        self.cmds.append((cmd, en_raw_sense))
        try:
            return self.dev.execute(cmd, en_raw_sense=en_raw_sense)
        except BaseException as e:
            self.raised.append(e)
            raise


def set_failure(transport, kind):
    """program the fake binding; returns a predicate checking the raised error"""
    sense = fixed_sense(5, 0x24, 0x00)
    if transport == "sg":
        if kind == "cc":
            SCRIPT["sgio"] = fake_sgio.CheckConditionError(sense)
            return lambda dev, e: type(e) is dev.CheckCondition and e.asc == 0x24
        SCRIPT["sgio"] = fake_sgio.UnspecifiedError(kind)
        return lambda dev, e: e is SCRIPT["sgio"]
    if kind == "cc":
        SCRIPT["iscsi_status"] = 2
        SCRIPT["iscsi_sense"] = sense
        return lambda dev, e: type(e) is dev.CheckCondition and e.asc == 0x24
    if kind == "unknown":
        SCRIPT["iscsi_status"] = 0x55
        return lambda dev, e: type(e) is RuntimeError
    value = dict((n, v) for v, n in STATUS_ERRORS)[kind]
    SCRIPT["iscsi_status"] = value
    return lambda dev, e: type(e) is getattr(dev, kind)


def test_facade():
    for transport, factory in (("sg", make_sg), ("iscsi", make_iscsi)):
        fill_key = "sgio_fill" if transport == "sg" else "iscsi_fill"
        kinds = ["cc", "other"] if transport == "sg" else ["cc", "unknown"] + [
            n for _, n in STATUS_ERRORS
        ]
        # device type detection on construction; a failing INQUIRY fails the constructor
        for pdt, want in (
            (0x00, sbc),
            (0x04, sbc),
            (0x07, sbc),
            (0x01, ssc),
            (0x02, ssc),
            (0x09, ssc),
            (0x03, spc),
            (0x08, smc),
            (0x05, mmc),
            (0x0D, spc),
        ):
            reset()
            SCRIPT[fill_key] = inquiry_data(pdt)
            dev = factory()
            s = SCSI(dev)
            check(dev.devicetype == pdt, "%s facade: devicetype %r" % (transport, pdt))
            check(dev.opcodes is want, "%s facade: opcodes for pdt %#x" % (transport, pdt))
            check(s.device is dev, "%s facade: device" % transport)
            dev.close()
        for kind in kinds:
            reset()
            dev = factory()
            rec = Recorder(dev)
            pred = set_failure(transport, kind)
            SCRIPT[fill_key] = inquiry_data(0x05)
            SCRIPT["fill_on_failure"] = True
            try:
                SCSI(rec)
                check(False, "%s facade ctor %s: constructed" % (transport, kind))
            except BaseException as e:  # noqa
                check(pred(dev, e), "%s facade ctor %s: raised %r" % (transport, kind, e))
                check(
                    rec.raised and e is rec.raised[-1],
                    "%s facade ctor %s: not the device's error object" % (transport, kind),
                )
            check(dev.opcodes is spc, "%s facade ctor %s: opcodes switched" % (transport, kind))
            check(
                not hasattr(dev, "_devicetype"),
                "%s facade ctor %s: device type taken from a failed INQUIRY"
                % (transport, kind),
            )
            check(
                len(rec.cmds) == 1 and rec.cmds[0][0].result == {},
                "%s facade ctor %s: inquiry decoded" % (transport, kind),
            )
            dev.close()

        for meth, args, kwargs, opcodes, decodes in facade_calls():
            # GOOD: the command comes back, decoded when it carries data-in
            reset()
            dev = factory()
            SCRIPT[fill_key] = inquiry_data(0x00)
            s = SCSI(dev, 512)
            check(s.blocksize == 512, "facade blocksize")
            rec = Recorder(dev)
            s.device = rec
            dev.opcodes = opcodes
            where = "%s facade %s%r" % (transport, meth, args)
            reset()
            SCRIPT[fill_key] = bytes(bytearray(4096))
            try:
                cmd = getattr(s, meth)(*args, **kwargs)
            except BaseException as e:  # noqa
                check(False, "%s good: raised %r" % (where, e))
                cmd = None
            if cmd is not None:
                check(len(rec.cmds) == 1, "%s good: executes once" % where)
                check(cmd is rec.cmds[0][0], "%s good: returns the executed command" % where)
                check(rec.cmds[0][1] is False, "%s good: raw sense not requested" % where)
                if decodes:
                    check(
                        isinstance(cmd.result, dict) and cmd.result != {},
                        "%s good: not decoded" % where,
                    )
            for kind in kinds:
                reset()
                rec.cmds[:] = []
                rec.raised[:] = []
                pred = set_failure(transport, kind)
                # the buffer is left as allocated, or holds garbage: either way
                # it must not be decoded
                SCRIPT[fill_key] = b"\xff" * 4096
                SCRIPT["fill_on_failure"] = kind != "cc"
                try:
                    getattr(s, meth)(*args, **kwargs)
                    check(False, "%s %s: returned normally" % (where, kind))
                except BaseException as e:  # noqa
                    check(pred(dev, e), "%s %s: raised %r" % (where, kind, e))
                    check(
                        rec.raised and e is rec.raised[-1],
                        "%s %s: not the device's error object" % (where, kind),
                    )
                check(len(rec.cmds) == 1, "%s %s: executed %d times" % (where, kind, len(rec.cmds)))
                if rec.cmds:
                    fcmd = rec.cmds[0][0]
                    check(fcmd.result == {}, "%s %s: buffer was decoded" % (where, kind))
                    if transport == "sg" or kind != "cc":
                        check(
                            fcmd.raw_sense_data is None,
                            "%s %s: raw sense attached" % (where, kind),
                        )
            dev.close()

        # ATA pass-through asks for raw sense
        for meth in ("atapassthrough12", "atapassthrough16"):
            reset()
            dev = factory()
            SCRIPT[fill_key] = inquiry_data(0x00)
            s = SCSI(dev, 512)
            rec = Recorder(dev)
            s.device = rec
            where = "%s facade %s" % (transport, meth)
            reset()
            cmd = getattr(s, meth)(*ATA_ARGS)
            check(cmd is rec.cmds[0][0], "%s good: command returned" % where)
            check(rec.cmds[0][1] is True, "%s: raw sense requested" % where)
            check(cmd.raw_sense_data is None, "%s good: raw sense" % where)
            sense = desc_sense(
                1,
                0x00,
                0x1D,
                extra=b"\x09\x0c\x00\x00\x00\x01\x00\x00\x00\x00\x00\x00\x00\x50",
            )
            reset()
            rec.cmds[:] = []
            if transport == "sg":
                SCRIPT["sgio"] = fake_sgio.CheckConditionError(sense)
                cmd = getattr(s, meth)(*ATA_ARGS)
                check(cmd is rec.cmds[0][0], "%s cc: command returned" % where)
                check(cmd.raw_sense_data is sense, "%s cc: raw sense attached" % where)
                check(bytes(cmd.raw_sense_data) == bytes(sense), "%s cc: raw sense bytes" % where)
                reset()
                rec.cmds[:] = []
                SCRIPT["sgio"] = fake_sgio.TransportError("x")
                try:
                    getattr(s, meth)(*ATA_ARGS)
                    check(False, "%s transport error: returned" % where)
                except fake_sgio.TransportError as e:
                    check(e is SCRIPT["sgio"], "%s transport error object" % where)
            else:
                SCRIPT["iscsi_status"] = 2
                SCRIPT["iscsi_sense"] = sense
                try:
                    getattr(s, meth)(*ATA_ARGS)
                    check(False, "%s cc: returned" % where)
                except dev.CheckCondition as e:
                    check_cc(e, (1, 0x00, 0x1D), where)
                check(
                    rec.cmds[0][0].raw_sense_data is sense,
                    "%s cc: raw sense attached" % where,
                )
                for value, errname in STATUS_ERRORS:
                    reset()
                    rec.cmds[:] = []
                    SCRIPT["iscsi_status"] = value
                    try:
                        getattr(s, meth)(*ATA_ARGS)
                        check(False, "%s %s: returned" % (where, errname))
                    except Exception as e:
                        check(
                            type(e) is getattr(dev, errname),
                            "%s %s: raised %r" % (where, errname, e),
                        )
            dev.close()

        # SCSI.execute itself, re-targeting with __call__, context manager
        reset()
        SCRIPT[fill_key] = inquiry_data(0x00)
        dev = factory()
        with SCSI(dev) as s:
            for name, cmd in new_cmds():
                reset()
                check(s.execute(cmd) is None, "%s facade execute good" % transport)
                check(s.execute(cmd, en_raw_sense=True) is None, "facade execute good raw")
                check(s.execute(cmd, True) is None, "facade execute positional raw")
                for kind in kinds:
                    reset()
                    pred = set_failure(transport, kind)
                    try:
                        s.execute(cmd)
                        check(False, "%s facade execute %s: returned" % (transport, kind))
                    except BaseException as e:  # noqa
                        check(
                            pred(dev, e),
                            "%s facade execute %s: raised %r" % (transport, kind, e),
                        )
                    cmd.raw_sense_data = None
                    cmd.sense = None
            reset()
            SCRIPT[fill_key] = inquiry_data(0x08)
            dev2 = factory()
            s(dev2)
            check(s.device is dev2 and dev2.opcodes is smc, "facade __call__ retarget")
            reset()
            pred = set_failure(transport, "cc")
            dev3 = factory()
            try:
                s(dev3)
                check(False, "facade __call__ with failing device returned")
            except BaseException as e:  # noqa
                check(pred(dev3, e), "facade __call__ failing: %r" % (e,))
            dev.close()
            dev3.close()
            reset()
        # the failed re-targeting left the facade pointing at dev3, which __exit__ closed
        check(s.device is dev3, "facade __call__ keeps the new device")
        dev2.close()


def main():
    test_error_classes()
    test_sg_good()
    test_sg_check_condition()
    test_sg_other_errors()
    test_sg_replug_and_modes()
    test_iscsi_good()
    test_iscsi_check_condition()
    test_iscsi_other_statuses()
    test_subclasses()
    test_facade()
    finish()


if __name__ == "__main__":
    main()
