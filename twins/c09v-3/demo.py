# coding: utf-8
"""
Demo for property C09 (python-scsi):

  What a command object encodes or decodes depends only on that command's
  class and its own arguments: creating, using or discarding any other command,
  before, after or concurrently in another thread, never changes a command's
  CDB, its buffers, or the result of decoding or encoding a CDB with its class.
  Repeating a marshalling call with equal inputs yields equal bytes.

Run as
    cd /tmp/seed/C09v && PYTHONPATH=/tmp/seed/C09v /venv/bin/python SEED/demo.py

The script only uses the public API of the library (the SCSI facade, the command
classes, their marshalling class/static methods and the opcode tables).

It has two layers:

 * "property" checks: assertions of the property itself (CDBs and buffers of a
   command are a function of class + arguments whatever else was created, used
   or discarded around it, also from other threads; repeated marshalling gives
   equal bytes; arguments given to one command do not leak into the next one).

 * "pinned" checks: a trace of everything observable through the marshalling
   API (bytes, decoded dictionaries, exception types) for many usual and
   unusual inputs and interleavings is reduced to one digest per section and
   compared with the digest recorded from the unmodified library.  Any
   behaviour-preserving refactoring has to reproduce these digests exactly.
   (`demo.py --record` prints the digests instead of comparing them.)

Exit status 0 and "PASS" when everything holds.
"""

import copy
import hashlib
import itertools
import json
import random
import sys
import threading
import types

# --------------------------------------------------------------------------
# the external bindings are not needed to build commands; fake them if absent
# --------------------------------------------------------------------------
for _name in ("sgio", "iscsi"):
    try:
        __import__(_name)
    except Exception:
        sys.modules[_name] = types.ModuleType(_name)

from pyscsi.pyscsi import scsi as scsi_module
from pyscsi.pyscsi.scsi import SCSI
from pyscsi.pyscsi.scsi_command import SCSICommand
from pyscsi.pyscsi.scsi_enum_command import mmc, sbc, smc, spc, ssc
from pyscsi.pyscsi.scsi_opcode import OpCode
from pyscsi.pyscsi.scsi_cdb_extended_copy_spc4 import ExtendedCopy as XCopy4
from pyscsi.pyscsi.scsi_cdb_extended_copy_spc5 import ExtendedCopy as XCopy5
from pyscsi.pyscsi.scsi_cdb_inquiry import Inquiry
from pyscsi.pyscsi.scsi_cdb_read10 import Read10
from pyscsi.pyscsi.scsi_cdb_read16 import Read16
from pyscsi.pyscsi.scsi_cdb_write10 import Write10
from pyscsi.pyscsi.scsi_cdb_write16 import Write16
from pyscsi.pyscsi.scsi_cdb_testunitready import TestUnitReady
from pyscsi.pyscsi.scsi_cdb_modesense6 import ModeSense6
from pyscsi.pyscsi.scsi_cdb_readcapacity16 import ReadCapacity16
from pyscsi.pyscsi.scsi_cdb_movemedium import MoveMedium
from pyscsi.pyscsi.scsi_cdb_persistentreservein import PersistentReserveInReadKeys

RECORD = "--record" in sys.argv[1:]
FAILURES = []
CHECKS = [0]


def check(cond, what):
    CHECKS[0] += 1
    if not cond:
        FAILURES.append(what)
        if len(FAILURES) <= 25:
            print("FAIL: %s" % (what,))


# --------------------------------------------------------------------------
# a device that executes nothing (like tests/mock_device.py)
# --------------------------------------------------------------------------
class NullDevice(object):
    def __init__(self, opcodes):
        self.opcodes = opcodes
        self.devicetype = None
        self.executed = 0

    def execute(self, cmd, en_raw_sense=False):
        self.executed += 1

    def open(self):
        pass

    def close(self):
        pass


class Facade(SCSI):
    """SCSI facade on a NullDevice, skipping the inquiry done by SCSI.__init__"""

    def __init__(self, opcodes, blocksize=512):
        self.device = NullDevice(opcodes)
        self._blocksize = blocksize


F = {
    "sbc": Facade(sbc),
    "spc": Facade(spc),
    "smc": Facade(smc),
    "mmc": Facade(mmc),
    "ssc": Facade(ssc),
    "sbc4k": Facade(sbc, 4096),
}


# --------------------------------------------------------------------------
# descriptors for EXTENDED COPY; always handed out as fresh deep copies
# --------------------------------------------------------------------------
def targets4():
    return [
        {
            "descriptor_type_code": "Identification descriptor target descriptor",
            "peripheral_device_type": 0x00,
            "relative_initiator_port_identifier": 42,
            "target_descriptor_parameters": {
                "designator_type": 0,
                "designator": {"vendor_specific": bytearray.fromhex("deadbeef")},
            },
            "device_type_specific_parameters": {"pad": 1},
        },
        {
            "descriptor_type_code": 0xE4,
            "peripheral_device_type": "Sequential access device (e.g., magnetic tape)",
            "target_descriptor_parameters": {
                "association": 0,
                "code_set": 1,
                "designator_type": 3,
                "designator": {
                    "naa": 6,
                    "ieee_company_id": 0x589CFC,
                    "vendor_specific_identifier": 0x00000C44,
                    "vendor_specific_identifier_extension": 0xC482CC288FBC0D75,
                },
            },
            "device_type_specific_parameters": {
                "fixed": 1,
                "pad": 1,
                "stream_block_length": 0x010203,
            },
        },
        {
            "descriptor_type_code": 0xE4,
            "peripheral_device_type": 0x03,
            "target_descriptor_parameters": {
                "association": 2,
                "code_set": 2,
                "designator_type": 1,
                "designator": {
                    "t10_vendor_id": bytearray(b"ABCDEFGH"),
                    "vendor_specific_id": bytearray(b"xyz"),
                },
            },
        },
    ]


def targets5():
    out = []
    for t in targets4():
        t = dict(t)
        t["cscd_descriptor_parameters"] = t.pop("target_descriptor_parameters")
        if t["descriptor_type_code"] != 0xE4:
            t["descriptor_type_code"] = "Identification Descriptor CSCD descriptor"
        out.append(t)
    return out


def segments4():
    return [
        {
            "descriptor_type_code": "Copy from block device to block device",
            "dc": 1,
            "cat": 1,
            "source_target_descriptor_id": 0,
            "destination_target_descriptor_id": 1,
            "block_device_number_of_blocks": 4,
            "source_block_device_logical_block_address": 1,
            "destination_block_device_logical_block_address": 0x0102030405060708,
        },
        {
            "descriptor_type_code": "block -> stream",
            "source_target_descriptor_id": 2,
            "destination_target_descriptor_id": 1,
            "stream_device_transfer_length": 0x112233,
            "block_device_number_of_blocks": 9,
            "block_device_logical_block_address": 77,
        },
        {
            "descriptor_type_code": 0x0C,
            "cat": 1,
            "source_target_descriptor_id": 1,
            "destination_target_descriptor_id": 0,
            "stream_device_transfer_length": 5,
            "block_device_number_of_blocks": 6,
            "block_device_logical_block_address": 7,
        },
    ]


def segments5():
    out = []
    for s in segments4():
        n = {}
        for k, v in s.items():
            n[k.replace("_target_descriptor_id", "_cscd_descriptor_id")] = v
        out.append(n)
    out[0]["fco"] = 1
    return out


# --------------------------------------------------------------------------
# the commands under test: name -> function building the command
# --------------------------------------------------------------------------
def ata_args():
    return dict(
        protocal=4,
        t_length=2,
        byte_block=1,
        t_dir=1,
        t_type=0,
        off_line=0,
        fetures=0xD0,
        count=1,
        lba=0xC24F00,
        command=0xB0,
    )


SPECS = [
    ("tur", lambda: F["sbc"].testunitready()),
    ("inquiry", lambda: F["spc"].inquiry()),
    ("inquiry-vpd", lambda: F["spc"].inquiry(evpd=1, page_code=0x83, alloclen=300)),
    ("read10", lambda: F["sbc"].read10(1024, 27)),
    (
        "read10-opts",
        lambda: F["sbc"].read10(0xFFFFFFFF, 3, rdprotect=2, dpo=1, fua=1, rarc=1, group=19),
    ),
    ("read10-4k", lambda: F["sbc4k"].read10(7, 2)),
    ("read12", lambda: F["sbc"].read12(1024, 27, rdprotect=1, group=3)),
    ("read16", lambda: F["sbc"].read16(0x0102030405060708, 5, fua=1)),
    ("write10", lambda: F["sbc"].write10(65536, 2, bytearray(range(256)) * 4, wrprotect=2, dpo=1)),
    ("write12", lambda: F["sbc"].write12(1024, 1, bytearray(b"\xa5" * 512), fua=1, group=19)),
    ("write16", lambda: F["sbc"].write16(2 ** 40, 1, bytearray(b"\x5a" * 512), wrprotect=7)),
    ("writesame10", lambda: F["sbc"].writesame10(100, 8, bytearray(b"\x11" * 512), unmap=1)),
    ("writesame16", lambda: F["sbc"].writesame16(100, 8, bytearray(b"\x22" * 512), anchor=1, group=4)),
    ("writesame16-ndob", lambda: F["sbc"].writesame16(5, 6, None, ndob=1, unmap=1)),
    ("readcapacity10", lambda: F["sbc"].readcapacity10()),
    ("readcapacity16", lambda: F["sbc"].readcapacity16(alloclen=37)),
    ("getlbastatus", lambda: F["sbc"].getlbastatus(19938722, alloclen=1112527)),
    ("synccache10", lambda: F["sbc"].synchronizecache10(65536, 27, immed=1, group=19)),
    ("synccache16", lambda: F["sbc"].synchronizecache16(2 ** 33, 27, immed=1)),
    ("modesense6", lambda: F["spc"].modesense6(page_code=0x1D)),
    ("modesense6-opts", lambda: F["spc"].modesense6(0, sub_page_code=3, dbd=1, pc=2, alloclen=90)),
    ("modesense10", lambda: F["spc"].modesense10(page_code=0x1D, llbaa=1, alloclen=200)),
    ("reportluns", lambda: F["spc"].reportluns(report=2, alloclen=200)),
    ("reportpriority", lambda: F["spc"].reportpriority(priority=1, alloclen=1112527)),
    ("reporttpg", lambda: F["spc"].reporttargetportgroups(data_format=1, alloclen=0x400)),
    ("prin-keys", lambda: F["spc"].persistentreservein(0, alloclen=256)),
    ("prin-resv", lambda: F["spc"].persistentreservein(1, alloclen=255)),
    ("prin-caps", lambda: F["spc"].persistentreservein(2, alloclen=2048)),
    ("prin-full", lambda: F["spc"].persistentreservein(3, alloclen=512)),
    ("prout", lambda: F["spc"].persistentreserveout(0, scope=1, pr_type=4)),
    (
        "prout-key",
        lambda: F["spc"].persistentreserveout(
            0, service_action_reservation_key=0xABCDEFAABBCCDDEE, aptpl=1
        ),
    ),
    ("preventallow", lambda: F["spc"].preventallowmediumremoval(prevent=3)),
    ("exchangemedium", lambda: F["smc"].exchangemedium(15, 32, 64, 32, inv1=1)),
    ("movemedium", lambda: F["smc"].movemedium(15, 32, 64, invert=1)),
    ("positiontoelement", lambda: F["smc"].positiontoelement(15, 32, invert=1)),
    ("initelementstatus", lambda: F["smc"].initializeelementstatus()),
    ("initelementstatusrange", lambda: F["smc"].initializeelementstatuswithrange(15, 3, rng=1, fast=1)),
    ("openclose", lambda: F["smc"].opencloseimportexportelement(32, 1)),
    ("readelementstatus", lambda: F["smc"].readelementstatus(300, 700, element_type=2, voltag=1, dvcid=1)),
    ("readcd", lambda: F["mmc"].readcd(lba=640, tl=2, est=1, dap=1, mcsb=0x10, c2ei=2, scsb=5)),
    ("readdiscinfo", lambda: F["mmc"].readdiscinformation(1, alloc_len=128)),
    ("ata12", lambda: F["sbc"].atapassthrough12(**ata_args())),
    ("ata16", lambda: F["sbc"].atapassthrough16(**ata_args())),
    ("xcopy4-default", lambda: F["spc"].extendedcopy4()),
    (
        "xcopy4-header",
        lambda: F["spc"].extendedcopy4(
            list_identifier=9, sequential_striped=1, nrcr=1, priority=5,
            inline_data=bytearray.fromhex("deadbeef"),
        ),
    ),
    (
        "xcopy4-full",
        lambda: F["spc"].extendedcopy4(
            list_identifier=0x34, priority=1, target_descriptor_list=targets4(),
            segment_descriptor_list=segments4(), inline_data=b"inline",
        ),
    ),
    ("xcopy5-default", lambda: F["spc"].extendedcopy5()),
    (
        "xcopy5-header",
        lambda: F["spc"].extendedcopy5(
            sequential_striped=1, list_id_usage=2, priority=5, g_sense=1, immed=1,
            list_identifier=0x01020304, inline_data=bytearray.fromhex("0badf00d"),
        ),
    ),
    (
        "xcopy5-full",
        lambda: F["spc"].extendedcopy5(
            list_identifier=257, cscd_descriptor_list=targets5(),
            segment_descriptor_list=segments5(), inline_data=memoryview(b"0123456789"),
        ),
    ),
    # direct construction, unusual but legal arguments
    ("direct-read10", lambda: Read10(sbc.READ_10, 512, 0, 0)),
    ("direct-read10-kw", lambda: Read10(opcode=sbc.READ_10, blocksize=1, lba=1, tl=1, group=31)),
    ("direct-tur-ssc", lambda: TestUnitReady(ssc.TEST_UNIT_READY)),
    ("direct-inquiry0", lambda: Inquiry(spc.INQUIRY, alloclen=0)),
    ("direct-custom-opcode", lambda: TestUnitReady(OpCode("MY_TUR", 0x00, {}))),
    ("direct-movemedium", lambda: MoveMedium(smc.MOVE_MEDIUM, 0xFFFF, 0, 0xABCD)),
]
SPEC = dict(SPECS)
NAMES = [n for n, _ in SPECS]


def H(b):
    """hex of a buffer, or a marker for None"""
    if b is None:
        return None
    return bytes(b).hex()


def canon(x):
    """a JSON-able, order-stable form of decoded data"""
    if isinstance(x, dict):
        return {str(k): canon(v) for k, v in sorted(x.items(), key=lambda kv: str(kv[0]))}
    if isinstance(x, (list, tuple)):
        return [canon(v) for v in x]
    if isinstance(x, (bytes, bytearray, memoryview)):
        return "hex:" + bytes(x).hex()
    if isinstance(x, bool) or x is None or isinstance(x, (int, str)):
        return x
    if isinstance(x, float):
        return repr(x)
    return "%s:%s" % (type(x).__name__, x)


def snapshot(cmd):
    """everything a transport would send for the command"""
    return (type(cmd).__name__, type(cmd).__module__, H(cmd.cdb), H(cmd.dataout), H(cmd.datain))


def outcome(fn, *a, **kw):
    """result of a call in canonical form, or the name of the exception type"""
    try:
        return canon(fn(*a, **kw))
    except Exception as e:  # noqa
        return "!" + type(e).__name__


# ==========================================================================
# Layer 1: the property
# ==========================================================================
REFERENCE = {}


def property_reference():
    """a command built on its own, twice: equal inputs give equal bytes"""
    for name in NAMES:
        a = SPEC[name]()
        b = SPEC[name]()
        check(a is not b, "%s: two commands are two objects" % name)
        check(snapshot(a) == snapshot(b), "%s: equal arguments, different bytes" % name)
        check(a.cdb is not b.cdb, "%s: two commands share one cdb buffer" % name)
        if len(a.dataout) and len(b.dataout):
            check(a.dataout is not b.dataout, "%s: shared dataout buffer" % name)
        if len(a.datain):
            check(a.datain is not b.datain, "%s: shared datain buffer" % name)
        check(isinstance(a.cdb, bytearray) and len(a.cdb) in (6, 10, 12, 16), "%s: cdb size" % name)
        check(a.cdb[0] == a.opcode.value, "%s: opcode byte" % name)
        # decoding what was just encoded, with the class and with the object
        d1 = a.unmarshall_cdb(a.cdb)
        d2 = type(a).unmarshall_cdb(bytes(a.cdb))
        check(canon(d1) == canon(d2), "%s: decode via object and via class differ" % name)
        check(d1["opcode"] == a.opcode.value, "%s: decoded opcode" % name)
        again = type(a).marshall_cdb(d1)
        check(H(again) == H(a.cdb), "%s: marshall(unmarshall(cdb)) != cdb" % name)
        check(H(type(a).marshall_cdb(dict(d1))) == H(again), "%s: repeated marshall_cdb differs" % name)
        check(H(a.build_cdb(**d1)) == H(a.cdb), "%s: build_cdb(**decoded) != cdb" % name)
        REFERENCE[name] = snapshot(a)
    check(len(set(REFERENCE.values())) >= len(NAMES) - 2, "specs are (nearly) all distinct")


def property_pairs():
    """X is not changed by creating, using and discarding Y (every ordered pair)"""
    for x, y in itertools.product(NAMES, NAMES):
        cx = SPEC[x]()
        before = snapshot(cx)
        held = (cx.cdb, cx.dataout, cx.datain)
        cy = SPEC[y]()
        check(snapshot(cy) == REFERENCE[y], "%s built after %s differs from %s built alone" % (y, x, y))
        # use Y: marshalling calls and result decoding
        cy.build_cdb(opcode=cy.opcode.value)
        cy.unmarshall_cdb(cy.cdb)
        try:
            cy.unmarshall()
        except NotImplementedError:
            pass
        except Exception:
            pass
        check(snapshot(cx) == before, "%s changed when %s was created and used" % (x, y))
        check(
            cx.cdb is held[0] and cx.dataout is held[1] and cx.datain is held[2],
            "%s: buffers were replaced when %s was created" % (x, y),
        )
        del cy
        check(snapshot(cx) == before == REFERENCE[x], "%s changed when %s was discarded" % (x, y))
        check(snapshot(SPEC[x]()) == REFERENCE[x], "%s rebuilt after %s differs" % (x, y))


def property_random_walk(seed, steps):
    """long random histories: every live command keeps its bytes"""
    rnd = random.Random(seed)
    live = []
    for step in range(steps):
        r = rnd.random()
        if r < 0.55 or not live:
            name = rnd.choice(NAMES)
            cmd = SPEC[name]()
            check(snapshot(cmd) == REFERENCE[name], "walk %d step %d: %s differs" % (seed, step, name))
            live.append((name, cmd, snapshot(cmd)))
        elif r < 0.80:
            live.pop(rnd.randrange(len(live)))
        else:
            name, cmd, snap = rnd.choice(live)
            # use the most recently created command a bit
            last = live[-1][1]
            last.unmarshall_cdb(last.cdb)
            last.build_cdb(opcode=last.opcode.value)
        if step % 7 == 0:
            for name, cmd, snap in live:
                check(snapshot(cmd) == snap == REFERENCE[name], "walk %d step %d: live %s changed" % (seed, step, name))
        if len(live) > 40:
            del live[:20]
    for name, cmd, snap in live:
        check(snapshot(cmd) == snap, "walk %d end: live %s changed" % (seed, name))


def property_repeat_marshalling():
    """class level marshalling of EXTENDED COPY: equal inputs, equal bytes"""
    for cls, tg, sg, tname in ((XCopy4, targets4, segments4, "marshall_target"), (XCopy5, targets5, segments5, "marshall_cscd")):
        mt = getattr(cls, tname)
        for i in range(len(tg())):
            a = mt(tg()[i])
            b = mt(tg()[i])
            check(H(a) == H(b) and a is not b, "%s.%s #%d repeat" % (cls.__module__, tname, i))
            check(len(a) == 32, "%s #%d size" % (tname, i))
            # the input is not changed
            t = tg()[i]
            mt(t)
            check(canon(t) == canon(tg()[i]), "%s #%d changed its argument" % (tname, i))
        for i in range(len(sg())):
            a = cls.marshall_segment(sg()[i])
            b = cls.marshall_segment(sg()[i])
            check(H(a) == H(b), "%s.marshall_segment #%d repeat" % (cls.__module__, i))
            # the very same dictionary a second time
            s = sg()[i]
            c1 = cls.marshall_segment(s)
            c2 = cls.marshall_segment(s)
            check(H(c1) == H(c2) == H(a), "%s.marshall_segment #%d same dict twice" % (cls.__module__, i))
    p4 = lambda: XCopy4.marshall_parameter_list(1, 1, 0, 3, targets4(), segments4(), b"abc")
    p5 = lambda: XCopy5.marshall_parameter_list(1, 2, 3, 1, 0, 77, targets5(), segments5(), b"abc")
    check(H(p4()) == H(p4()), "spc4 parameter list repeat")
    check(H(p5()) == H(p5()), "spc5 parameter list repeat")
    check(len(p4()) == 16 + 3 * 32 + 28 + 24 + 24 + 3, "spc4 parameter list size")
    check(len(p5()) == 48 + 3 * 32 + 28 + 24 + 24 + 3, "spc5 parameter list size")
    # interleaved with other commands being created
    ref4, ref5 = H(p4()), H(p5())
    for name in NAMES:
        SPEC[name]()
        check(H(p4()) == ref4 and H(p5()) == ref5, "parameter list differs after %s" % name)


def property_no_argument_leak():
    """lists and buffers given to one EXTENDED COPY do not show up in the next"""
    d4, d5 = REFERENCE["xcopy4-default"], REFERENCE["xcopy5-default"]
    for _ in range(3):
        SPEC["xcopy4-full"]()
        SPEC["xcopy5-full"]()
        check(snapshot(F["spc"].extendedcopy4()) == d4, "extendedcopy4() defaults polluted")
        check(snapshot(F["spc"].extendedcopy5()) == d5, "extendedcopy5() defaults polluted")
        check(snapshot(XCopy4(spc.EXTENDED_COPY)) == d4, "ExtendedCopy4 defaults polluted")
        check(snapshot(XCopy5(spc.EXTENDED_COPY)) == d5, "ExtendedCopy5 defaults polluted")
    # the same argument objects used for two commands
    t, s, i = targets4(), segments4(), bytearray(b"xyz")
    a = F["spc"].extendedcopy4(1, 0, 0, 0, t, s, i)
    b = F["spc"].extendedcopy4(1, 0, 0, 0, t, s, i)
    check(snapshot(a) == snapshot(b), "same argument objects, different xcopy4")
    check(a.dataout is not b.dataout and a.dataout is not i, "xcopy4 dataout aliases")
    i[:] = b"XYZ"
    t.clear()
    check(H(a.dataout) == H(b.dataout) and H(a.dataout).endswith("78797a"), "xcopy4 dataout follows caller's buffer")
    t, s, i = targets5(), segments5(), bytearray(b"xyz")
    a = F["spc"].extendedcopy5(0, 0, 0, 0, 0, 5, t, s, i)
    b = F["spc"].extendedcopy5(0, 0, 0, 0, 0, 5, t, s, i)
    check(snapshot(a) == snapshot(b), "same argument objects, different xcopy5")
    i[:] = b"XYZ"
    check(H(a.dataout).endswith("78797a"), "xcopy5 dataout follows caller's buffer")
    # data given to WRITE commands
    data = bytearray(b"\x01" * 512)
    w = F["sbc"].write10(1, 1, data)
    snap = snapshot(w)
    F["sbc"].write10(2, 1, bytearray(b"\x02" * 512))
    check(snapshot(w) == snap, "write10 changed by another write10")


def property_attributes():
    """the per-command attributes are per command"""
    a = SPEC["read10"]()
    b = SPEC["inquiry"]()
    for attr, va, vb in (
        ("result", {"a": 1}, {"b": 2}),
        ("sense", bytearray(b"\x70"), bytearray(b"\x72")),
        ("raw_sense_data", b"\x01", b"\x02"),
        ("pagecode", 0x83, 0x80),
        ("datain", bytearray(b"in-a"), bytearray(b"in-b")),
        ("dataout", bytearray(b"out-a"), bytearray(b"out-b")),
        ("cdb", bytearray(b"cdb-a"), bytearray(b"cdb-b")),
    ):
        setattr(a, attr, va)
        setattr(b, attr, vb)
        check(getattr(a, attr) is va and getattr(b, attr) is vb, "attribute %s is shared" % attr)
        c = SPEC["read10"]()
        check(getattr(c, attr) is not va and getattr(c, attr) is not vb, "attribute %s leaks into a new command" % attr)
    check(a.opcode is sbc.READ_10 and b.opcode is spc.INQUIRY, "opcode attribute")
    t = SPEC["tur"]()
    check(t.sense is None and t.raw_sense_data is None and t.pagecode is None, "defaults of a new command")
    check(t.result == {} and t.result is not SPEC["tur"]().result, "result dictionaries are per command")
    check(repr(t) == "TestUnitReady" and "%s" % SPEC["xcopy4-default"]() == "ExtendedCopy", "repr")


def property_threads():
    """
    commands created concurrently: per class (all threads the same CDB layout)
    and class level marshalling of both EXTENDED COPY flavours side by side
    """
    old = sys.getswitchinterval()
    sys.setswitchinterval(1e-5)
    errors = []
    barrier = threading.Barrier(6)

    def worker(kind, n):
        try:
            barrier.wait()
            rnd = random.Random(n)
            for i in range(250):
                if kind == "read10":
                    lba, tl, grp = rnd.randrange(2 ** 32), rnd.randrange(1, 4), rnd.randrange(32)
                    c = F["sbc"].read10(lba, tl, group=grp, fua=i & 1)
                    exp = bytes([0x28, (i & 1) << 3]) + lba.to_bytes(4, "big") + bytes([grp]) + tl.to_bytes(2, "big") + b"\0"
                    if bytes(c.cdb) != exp or len(c.datain) != 512 * tl or len(c.dataout) != 0:
                        errors.append(("read10", lba, tl, grp, H(c.cdb)))
                    if c.unmarshall_cdb(c.cdb)["lba"] != lba:
                        errors.append(("read10-decode", lba))
                elif kind == "xcopy":
                    which = rnd.choice(("xcopy4-full", "xcopy5-full", "xcopy4-header", "xcopy5-header", "xcopy4-default", "xcopy5-default"))
                    c = SPEC[which]()
                    if snapshot(c) != REFERENCE[which]:
                        errors.append((which, H(c.cdb)))
                else:
                    a = XCopy4.marshall_parameter_list(n, 1, 0, 3, targets4(), segments4(), b"abc")
                    b = XCopy5.marshall_parameter_list(1, 2, 3, 1, 0, n, targets5(), segments5(), b"abc")
                    if a[0] != n or b[23] != n or len(a) != 191 or len(b) != 223:
                        errors.append(("plist", n))
                    if H(a[16:]) != plist_tail[0] or H(b[48:]) != plist_tail[1]:
                        errors.append(("plist-tail", n))
        except Exception as e:  # noqa
            errors.append((kind, repr(e)))

    plist_tail = (
        H(XCopy4.marshall_parameter_list(0, 1, 0, 3, targets4(), segments4(), b"abc")[16:]),
        H(XCopy5.marshall_parameter_list(1, 2, 3, 1, 0, 0, targets5(), segments5(), b"abc")[48:]),
    )
    try:
        # phase 1: six threads, one CDB layout (READ(10))
        ts = [threading.Thread(target=worker, args=("read10", n)) for n in range(6)]
        [t.start() for t in ts]
        [t.join() for t in ts]
        # phase 2: EXTENDED COPY (SPC-4 and SPC-5 share the CDB layout) and the
        # class level marshalling of descriptors
        barrier.reset()
        ts = [threading.Thread(target=worker, args=(k, n)) for n, k in enumerate(("xcopy", "xcopy", "xcopy", "plist", "plist", "plist"))]
        [t.start() for t in ts]
        [t.join() for t in ts]
    finally:
        sys.setswitchinterval(old)
    check(not errors, "threads: %r" % (errors[:3],))


# ==========================================================================
# Layer 2: pinned behaviour (digests recorded from the unmodified library)
# ==========================================================================
def pin_decode_after_other():
    """
    what the class level decode/encode gives for X's CDB once Y exists, for all
    ordered pairs of a sample of commands
    """
    sample = ["tur", "inquiry-vpd", "read10-opts", "read16", "write10", "write16", "modesense6-opts",
              "readcapacity16", "prin-keys", "prout", "movemedium", "readcd", "ata16", "xcopy4-full", "xcopy5-header"]
    trace = []
    for x, y in itertools.product(sample, sample):
        cx = SPEC[x]()
        own = cx.unmarshall_cdb(cx.cdb)
        cy = SPEC[y]()
        trace.append((x, y,
                      outcome(cx.unmarshall_cdb, cx.cdb),
                      outcome(type(cx).unmarshall_cdb, cx.cdb),
                      outcome(type(cx).marshall_cdb, own),
                      outcome(cx.build_cdb, **own),
                      outcome(SCSICommand.unmarshall_cdb, cy.cdb)))
        del cy
        trace.append(outcome(cx.unmarshall_cdb, cx.cdb))
    return trace


def pin_init_cdb():
    trace = []
    for v in list(range(-3, 260)) + [0x1FF, 1 << 40, True, False]:
        r = outcome(SCSICommand.init_cdb, OpCode("X", v, {}))
        trace.append((repr(v), r))
    for cls in (Read10, TestUnitReady, XCopy4):
        for v in (0x00, 0x1F, 0x20, 0x5F, 0x60, 0x7F, 0x80, 0x9F, 0xA0, 0xBF, 0xC0, 0xFF):
            trace.append((cls.__name__, v, outcome(cls.init_cdb, OpCode("X", v, {}))))
    return trace


def pin_wrong_opcodes():
    """commands built with opcodes of another group, failing constructions and what follows them"""
    trace = []

    def state():
        probe = bytes(range(1, 17))
        return outcome(SCSICommand.unmarshall_cdb, probe), outcome(TestUnitReady.marshall_cdb, {"opcode": 0x12, "lba": 3, "tl": 1})

    attempts = [
        ("read10/0x08", lambda: Read10(OpCode("R6", 0x08, {}), 512, 1, 1)),
        ("read10/0x88", lambda: Read10(OpCode("R16", 0x88, {}), 512, 1, 1)),
        ("read16/0x28", lambda: Read16(sbc.READ_10, 512, 1, 1)),
        ("read16/0xa8", lambda: Read16(sbc.READ_12, 512, 1, 1)),
        ("write16/0x2a", lambda: Write16(sbc.WRITE_10, 512, 1, 1, bytearray(512))),
        ("read10/0x7f", lambda: Read10(OpCode("V", 0x7F, {}), 512, 1, 1)),
        ("read10/0xc0", lambda: Read10(OpCode("V", 0xC0, {}), 512, 1, 1)),
        ("tur/0xff", lambda: TestUnitReady(OpCode("V", 0xFF, {}))),
        ("read10/bs0", lambda: Read10(sbc.READ_10, 0, 1, 1)),
        ("write10/bs0", lambda: Write10(sbc.WRITE_10, 0, 1, 1, bytearray(0))),
        ("read10/badarg", lambda: Read10(sbc.READ_10, 512, "x", 1)),
        ("read10/none", lambda: Read10(None, 512, 1, 1)),
        ("inquiry/0xa0", lambda: Inquiry(OpCode("I", 0xA0, {}), alloclen=5)),
        ("rc16/0x9e", lambda: ReadCapacity16(sbc.SERVICE_ACTION_IN if hasattr(sbc, "SERVICE_ACTION_IN") else next(iter([getattr(sbc, k) for k in sbc.keys if k.endswith("9E")])))),
        ("xcopy4/0x03", lambda: XCopy4(OpCode("X", 0x03, {}))),
        ("xcopy5/0x23", lambda: XCopy5(OpCode("X", 0x23, {}))),
    ]
    for base in ("tur", "read16", "xcopy5-default"):
        for label, build in attempts:
            keep = SPEC[base]()
            snap = snapshot(keep)
            try:
                c = build()
                r = snapshot(c)
            except Exception as e:  # noqa
                r = "!" + type(e).__name__
                # exception classes are attributes of the command classes
                r += ":" + ",".join(sorted(n for n in ("OpcodeException", "MissingBlocksizeException", "CommandNotImplemented")
                                          if isinstance(e, getattr(SCSICommand, n))))
            trace.append((base, label, r, state(), snapshot(keep) == snap))
            check(snapshot(keep) == snap, "%s changed by attempt %s" % (base, label))
    return trace


def pin_xcopy_inputs():
    """usual and unusual inputs of the EXTENDED COPY marshalling functions"""
    trace = []
    for cls, mt, tg, sg, pkey in ((XCopy4, "marshall_target", targets4, segments4, "target_descriptor_parameters"),
                                  (XCopy5, "marshall_cscd", targets5, segments5, "cscd_descriptor_parameters")):
        tag = cls.__module__[-4:]
        m_t = getattr(cls, mt)
        m_p = getattr(cls, mt + "_descriptor_parameters")
        # --- targets
        for i, t in enumerate(tg()):
            trace.append((tag, "t", i, outcome(m_t, t)))
        base = tg()[0]
        variants = []
        for code in list(range(0xDE, 0x100)) + [0, -1, 224.0, 228.0, 228.5, "nope", None, "IPv6 %s descriptor" % ("target" if cls is XCopy4 else "CSCD"),
                                                 "Alias %s descriptor" % ("target" if cls is XCopy4 else "CSCD")]:
            v = copy.deepcopy(base)
            v["descriptor_type_code"] = code
            variants.append(("code", repr(code), v))
        for pdt in list(range(0, 0x20)) + ["Block", "Stream", "Stream or Tape", "Processor device", "CD/DVD device", "nope", None, 1.0]:
            v = copy.deepcopy(base)
            v["peripheral_device_type"] = pdt
            v["device_type_specific_parameters"] = {"pad": 1, "fixed": 1, "disk_block_length": 0x0A0B0C, "stream_block_length": 0x0D0E0F}
            variants.append(("pdt", repr(pdt), v))
        for lu in (0, 1, 3, None, False):
            v = copy.deepcopy(base)
            v["lu_id_type"] = lu
            variants.append(("lu", repr(lu), v))
        for rel in (0, 1, 0xFFFF, 0x10000, 0x12345, -1):
            v = copy.deepcopy(base)
            v["relative_initiator_port_identifier"] = rel
            variants.append(("rel", repr(rel), v))
        for extra in ("bogus", "pad", 7):
            v = copy.deepcopy(base)
            v[extra] = 1
            variants.append(("extra", repr(extra), v))
        for drop in list(base):
            v = copy.deepcopy(base)
            del v[drop]
            variants.append(("drop", drop, v))
        for dsp in ({}, {"pad": 0}, {"pad": 3}, {"disk_block_length": 1 << 24}, {"disk_block_length": -1}, {"unknown": 5}, None, []):
            v = copy.deepcopy(base)
            v["device_type_specific_parameters"] = dsp
            variants.append(("dsp", repr(dsp), v))
        designators = [
            {"designator_type": 0, "designator": {"vendor_specific": bytearray(24)}},
            {"designator_type": 0, "designator": {"vendor_specific": bytearray(30)}},
            {"designator_type": 0, "designator": {"vendor_specific": bytearray(300)}},
            {"designator_type": 8, "designator": {"scsi_name_string": b"iqn.2003-01.org.example:target"}},
            {"designator_type": 2, "designator": {"ieee_company_id": 0x123456, "vendor_specific_extension_id": bytearray(b"\1\2\3\4\5")}, "code_set": 1},
            {"designator_type": 3, "designator": {"naa": 5, "ieee_company_id": 0x123456, "vendor_specific_identifier": bytearray(b"\1\2\3\4\5")}},
            {"designator_type": 4, "designator": {"relative_port": 3}},
            {"designator_type": 5, "designator": {"target_portal_group": 9}, "association": 1},
            {"designator_type": 99, "designator": {}},
            {"designator": {}},
            {},
            {"designator_type": 0, "designator": {"vendor_specific": b"ab"}, "code_set": 0x1F, "association": 7, "designator_length": 200},
        ]
        for k, d in enumerate(designators):
            v = copy.deepcopy(base)
            v[pkey] = d
            variants.append(("designator", k, v))
        for kind, label, v in variants:
            before = canon(v)
            r = outcome(m_t, v)
            trace.append((tag, kind, label, r, canon(v) == before))
        # --- descriptor parameters called on their own
        for code in list(range(0xDC, 0x100)) + [0, 1, -1, 228.0, 224.0, 224.5, "x", None, True, (0xE4,)]:
            buf = bytearray(32)
            r = outcome(m_p, code, buf, {"designator_type": 0, "designator": {"vendor_specific": b"\xaa\xbb"}})
            trace.append((tag, "params", repr(code), r, H(buf)))
        buf = bytearray(8)
        trace.append((tag, "params-grow", outcome(m_p, 0xE4, buf, {"designator_type": 0, "designator": {"vendor_specific": bytes(20)}}), H(buf)))
        # --- segments
        for i, s in enumerate(sg()):
            trace.append((tag, "s", i, outcome(cls.marshall_segment, s), canon(s)))
        sbase = sg()[0]
        svars = []
        table = cls._segment_descriptor_type_codes
        for code in list(range(-1, 0x1C)) + [0xBE, 0xBF, 0xFF, "nope", None, 2.0, 2.5, True]:
            v = copy.deepcopy(sbase)
            v["descriptor_type_code"] = code
            svars.append(("code", repr(code), v))
        for code in sorted(table):
            for field in ("name", "description"):
                v = {"descriptor_type_code": table[code][field]}
                svars.append((field, code, v))
        for extra in ("bogus", "descriptor_length", "fco", "dc", 5):
            for code in (0, 1, 2, 0x0B, 0x0D):
                v = {"descriptor_type_code": code, extra: 1}
                svars.append(("extra", "%r/%d" % (extra, code), v))
        for val in (0, 1, 0xFFFF, 0x10000, -1, 1 << 64, (1 << 64) + 5):
            v = copy.deepcopy(sbase)
            v["block_device_number_of_blocks"] = val
            v["source_block_device_logical_block_address"] = val
            svars.append(("val", repr(val), v))
        for bad in ("x", None, 1.5, b"\1"):
            v = copy.deepcopy(sbase)
            v["cat"] = bad
            svars.append(("badval", repr(bad), v))
        for kind, label, v in svars:
            r = outcome(cls.marshall_segment, v)
            trace.append((tag, "seg-" + kind, label, r, canon(v)))
            # and once more with the dictionary as it is now
            trace.append((tag, "seg-again", label, outcome(cls.marshall_segment, v), canon(v)))
        for cd, nb in ((cls._segment_descriptor_bits_block_to_block, 28), (cls._segment_descriptor_bits_block_to_stream, 24),
                       (cls._segment_descriptor_bits_block_to_block, 8), ({}, 4), ({"a": [0xFF, 0]}, 5)):
            for dd in ({}, {"cat": 1}, {"a": 7}, {"descriptor_type_code": 2, "dc": 1}, {"zzz": 1}):
                dd = dict(dd)
                trace.append((tag, "esd", nb, outcome(cls.encode_segment_dict, dd, cd, nb), canon(dd)))
        # --- get_code_int
        for tbl_name in ("_segment_descriptor_type_codes", "_device_type_codes", "_%s_descriptor_type_codes" % ("target" if cls is XCopy4 else "cscd")):
            tbl = getattr(cls, tbl_name)
            vals = list(range(-1, 0x20)) + [0xE0, 0xE3, 0xE4, 0xEA, 0xEB, 0xFE, None, "Block", "Stream", "Verify", "Verify CSCD", "nope", 0.0, 1.0, True, False, (1,)]
            vals += [e["name"] for e in tbl.values()] + [e.get("description") for e in tbl.values()]
            for v in vals:
                trace.append((tag, "gci", tbl_name, repr(v), outcome(cls.get_code_int, "k", {"k": v}, tbl), outcome(cls.get_code_int, "k", {"other": v}, tbl)))
            trace.append((tag, "gci-empty", outcome(cls.get_code_int, "k", {"k": 1}, {}), outcome(cls.get_code_int, "k", {"k": "n"}, {5: {"name": "n"}, 6: {"description": "n"}}),
                          outcome(cls.get_code_int, "k", {"k": "d"}, {5: {"name": "n"}, 6: {"description": "d"}}), outcome(cls.get_code_int, "k", {"k": "n"}, {5: {}, 6: {"name": "n"}})))
            trace.append((tag, "gci-unhashable", outcome(cls.get_code_int, "k", {"k": [1]}, tbl)))
        # --- designator descriptor
        for k, d in enumerate(designators):
            d = copy.deepcopy(d)
            trace.append((tag, "mdd", k, outcome(cls.marshall_designator_descriptor, d), canon(d)))
    return trace


def pin_xcopy_commands():
    """whole EXTENDED COPY commands for a grid of header values and odd buffers"""
    trace = []
    vals = (0, 1, 2, 3, 7, 8, 9, 0x10, 0xFF, 0x100, 0x1FF, -1, 1 << 32, (1 << 32) + 3)
    for v in vals:
        for pos in range(4):
            a = [0, 0, 0, 0]
            a[pos] = v
            trace.append(("x4", pos, v, outcome(lambda: snapshot(F["spc"].extendedcopy4(*a)))))
            trace.append(("x4p", pos, v, outcome(XCopy4.marshall_parameter_list, a[0], a[1], a[2], a[3], [], [], b"")))
        for pos in range(6):
            a = [0, 0, 0, 0, 0, 0]
            a[pos] = v
            trace.append(("x5", pos, v, outcome(lambda: snapshot(F["spc"].extendedcopy5(*a)))))
            trace.append(("x5p", pos, v, outcome(XCopy5.marshall_parameter_list, a[0], a[1], a[2], a[3], a[4], a[5], [], [], b"")))
    for bad in ("1", None, 1.0, 1.5, [1], b"\1"):
        for pos in range(4):
            a = [0, 0, 0, 0]
            a[pos] = bad
            trace.append(("x4bad", pos, repr(bad), outcome(lambda: snapshot(XCopy4(spc.EXTENDED_COPY, *a)))))
        for pos in range(6):
            a = [0, 0, 0, 0, 0, 0]
            a[pos] = bad
            trace.append(("x5bad", pos, repr(bad), outcome(lambda: snapshot(XCopy5(spc.EXTENDED_COPY, *a)))))
    import array
    inlines = [b"", b"abc", bytearray(b"abc"), memoryview(b"abcd"), memoryview(bytearray(b"abcde"))[1:4], array.array("B", [1, 2, 3]),
               array.array("H", [1, 2, 3]), "text", [1, 2, 3], (1, 2), None, 5, bytearray(70000), range(3)]
    for k, inl in enumerate(inlines):
        trace.append(("inline4", k, outcome(lambda: snapshot(F["spc"].extendedcopy4(inline_data=inl)))))
        trace.append(("inline5", k, outcome(lambda: snapshot(F["spc"].extendedcopy5(inline_data=inl)))))
        trace.append(("inline4t", k, outcome(lambda: snapshot(XCopy4(spc.EXTENDED_COPY, 0, 0, 0, 0, targets4(), segments4(), inl)))))
        trace.append(("inline5t", k, outcome(lambda: snapshot(XCopy5(spc.EXTENDED_COPY, 0, 0, 0, 0, 0, 0, targets5(), segments5(), inl)))))
    # lists of descriptors: empty, tuples, generators, many, broken entries, order of failures
    bad_t4 = dict(targets4()[0], bogus=1)
    bad_t5 = dict(targets5()[0], bogus=1)
    bad_s = {"descriptor_type_code": 0x10}
    inv_s = {"descriptor_type_code": "nope"}
    combos = [
        ("tuple", lambda t, s: (tuple(t), tuple(s), b"")),
        ("gen", lambda t, s: ((x for x in t), (x for x in s), b"")),
        ("many", lambda t, s: (t * 40, s * 40, b"z")),
        ("huge", lambda t, s: (t[:1] * 2050, s[:1] * 3, b"")),
        ("only-t", lambda t, s: (t, [], b"")),
        ("only-s", lambda t, s: ([], s, b"")),
        ("rev", lambda t, s: (t[::-1], s[::-1], b"")),
        ("bad-s", lambda t, s: (t, s + [dict(bad_s)], b"")),
        ("inv-s", lambda t, s: (t, [dict(inv_s)] + s, b"")),
        ("none-s", lambda t, s: (t, [None], b"")),
        ("str-t", lambda t, s: ("ab", s, b"")),
        ("none-t", lambda t, s: (None, s, b"")),
        ("int-s", lambda t, s: (t, 5, b"")),
    ]
    for label, mk in combos:
        t, s, i = mk(targets4(), segments4())
        trace.append(("c4", label, outcome(lambda: snapshot(XCopy4(spc.EXTENDED_COPY, 1, 0, 0, 0, t, s, i)))))
        t, s, i = mk(targets5(), segments5())
        trace.append(("c5", label, outcome(lambda: snapshot(XCopy5(spc.EXTENDED_COPY, 0, 0, 0, 0, 0, 1, t, s, i)))))
    trace.append(("c4", "bad-t+bad-s", outcome(lambda: snapshot(XCopy4(spc.EXTENDED_COPY, 1, 0, 0, 0, [bad_t4], [dict(bad_s)], None)))))
    trace.append(("c5", "bad-t+bad-s", outcome(lambda: snapshot(XCopy5(spc.EXTENDED_COPY, 0, 0, 0, 0, 0, 1, [bad_t5], [dict(bad_s)], None)))))
    trace.append(("c4", "ok-t+bad-s+bad-inline", outcome(lambda: snapshot(XCopy4(spc.EXTENDED_COPY, 1, 0, 0, 0, targets4(), [dict(bad_s)], None)))))
    trace.append(("c5", "ok-t+inv-s+bad-inline", outcome(lambda: snapshot(XCopy5(spc.EXTENDED_COPY, 0, 0, 0, 0, 0, 1, targets5(), [dict(inv_s)], None)))))
    # keyword forms of the facade and of the classes
    trace.append(("kw4", outcome(lambda: snapshot(F["spc"].extendedcopy4(priority=2, nrcr=1, segment_descriptor_list=segments4(), target_descriptor_list=targets4()[1:])))))
    trace.append(("kw5", outcome(lambda: snapshot(F["spc"].extendedcopy5(immed=1, g_sense=1, segment_descriptor_list=segments5()[1:], cscd_descriptor_list=targets5()[:1])))))
    trace.append(("kw4c", outcome(lambda: snapshot(XCopy4(opcode=spc.EXTENDED_COPY, inline_data=b"q", list_identifier=3)))))
    trace.append(("kw5c", outcome(lambda: snapshot(XCopy5(opcode=sbc.EXTENDED_COPY if hasattr(sbc, "EXTENDED_COPY") else spc.EXTENDED_COPY, inline_data=b"q", list_identifier=3)))))
    trace.append(("badkw4", outcome(lambda: F["spc"].extendedcopy4(cscd_descriptor_list=[]))))
    trace.append(("badkw5", outcome(lambda: F["spc"].extendedcopy5(nrcr=1))))
    # state after failures
    for _ in range(2):
        trace.append(("after", snapshot(F["spc"].extendedcopy4()), snapshot(F["spc"].extendedcopy5())))
    return trace


def pin_all_commands():
    """every command of the list: bytes, decoded CDB, and the decoded result"""
    trace = []
    for name in NAMES:
        c = SPEC[name]()
        d = c.unmarshall_cdb(c.cdb)
        trace.append((name, snapshot(c), canon(d), canon(c.result), outcome(c.unmarshall), canon(c.result), canon(c.pagecode),
                      canon(getattr(c, "page_code", "missing"))))
        # the marshalling functions with fewer, more and unknown fields
        trace.append((name, outcome(c.build_cdb), outcome(c.build_cdb, opcode=1), outcome(c.build_cdb, bogus=1, opcode=0xFF),
                      outcome(type(c).marshall_cdb, {}), outcome(type(c).marshall_cdb, {"opcode": 0x1FF}), outcome(type(c).marshall_cdb, {"opcode": -1}),
                      outcome(type(c).marshall_cdb, {"opcode": "x"}), outcome(type(c).unmarshall_cdb, b""), outcome(type(c).unmarshall_cdb, bytes(range(32))),
                      outcome(type(c).unmarshall_cdb, bytearray(b"\xff" * 16)), outcome(type(c).unmarshall_cdb, None)))
    return trace


def pin_facade_names():
    """the command classes are reachable under the same names and paths"""
    trace = []
    names = ["ATAPassThrough12", "ATAPassThrough16", "ExchangeMedium", "ExtendedCopy4", "ExtendedCopy5", "GetLBAStatus", "InitializeElementStatus",
             "InitializeElementStatusWithRange", "Inquiry", "ModeSelect6", "ModeSense6", "ModeSelect10", "ModeSense10", "MoveMedium",
             "OpenCloseImportExportElement", "PersistentReserveIn", "PersistentReserveInReadKeys", "PersistentReserveInReadReservation",
             "PersistentReserveInReportCapabilities", "PersistentReserveInReadFullStatus", "PersistentReserveOut", "PositionToElement",
             "PreventAllowMediumRemoval", "Read10", "Read12", "Read16", "ReadCapacity10", "ReadCapacity16", "ReadCd", "ReadDiscInformation",
             "ReadElementStatus", "ReportLuns", "ReportPriority", "ReportTargetPortGroups", "SynchronizeCache10", "SynchronizeCache16",
             "TestUnitReady", "Write10", "Write12", "Write16", "WriteSame10", "WriteSame16", "SCSI", "get_opcode", "sbc", "spc", "smc", "ssc", "mmc"]
    for n in names:
        obj = getattr(scsi_module, n, None)
        check(obj is not None, "pyscsi.pyscsi.scsi.%s missing" % n)
        trace.append((n, getattr(obj, "__module__", None), getattr(obj, "__name__", None), isinstance(obj, type) and issubclass(obj, SCSICommand)))
    ns = {}
    exec("from pyscsi.pyscsi.scsi import Read10 as A, ExtendedCopy4 as B, ExtendedCopy5 as C, PersistentReserveInReadKeys as D", ns)
    check(ns["A"] is Read10 and ns["B"] is XCopy4 and ns["C"] is XCopy5 and ns["D"] is PersistentReserveInReadKeys, "from-import of command classes")
    check(type(F["sbc"].read10(1, 1)) is Read10, "facade builds the Read10 of scsi_cdb_read10")
    check(type(F["spc"].extendedcopy4()) is XCopy4 and type(F["spc"].extendedcopy5()) is XCopy5, "facade builds the right EXTENDED COPY classes")
    check(type(F["spc"].persistentreservein(0)) is PersistentReserveInReadKeys, "facade builds PersistentReserveInReadKeys")
    trace.append(outcome(lambda: F["spc"].persistentreservein(9)))
    import inspect
    for meth in ("extendedcopy4", "extendedcopy5", "read10", "inquiry", "persistentreserveout", "atapassthrough16", "execute"):
        trace.append((meth, str(inspect.signature(getattr(SCSI, meth)))))
    for cls in (SCSICommand, XCopy4, XCopy5):
        for meth in ("__init__", "init_cdb", "marshall_cdb", "unmarshall_cdb", "build_cdb", "unmarshall", "marshall_parameter_list",
                     "marshall_target", "marshall_cscd", "marshall_segment", "encode_segment_dict", "get_code_int", "marshall_designator_descriptor",
                     "marshall_target_descriptor_parameters", "marshall_cscd_descriptor_parameters"):
            f = getattr(cls, meth, None)
            trace.append((cls.__name__, meth, str(inspect.signature(f)) if f is not None else None))
    # execution goes through the device exactly once per facade call
    dev = F["sbc"].device
    n0 = dev.executed
    F["sbc"].read10(1, 1)
    F["sbc"].testunitready()
    trace.append(dev.executed - n0)
    return trace


def pin_new_object_defaults():
    """attributes of a command object before/without SCSICommand.__init__"""
    trace = []
    for last in ("read16", "tur", "xcopy5-full"):
        SPEC[last]()
        raw = Read10.__new__(Read10)
        trace.append((last, H(raw.cdb), canon(raw.dataout), canon(raw.datain), canon(raw.result), canon(raw.sense), canon(raw.opcode),
                      canon(raw.pagecode), outcome(raw.unmarshall_cdb, bytes(range(16))), outcome(raw.build_cdb, opcode=3, lba=4)))
    class NoDecoder(SCSICommand):
        _cdb_bits = {"opcode": [0xFF, 0], "x": [0x0F, 1]}

        def __init__(self, opcode):
            SCSICommand.__init__(self, opcode, 3, 4)
            self.cdb = self.build_cdb(opcode=self.opcode.value, x=9)

    class BrokenDecoder(NoDecoder):
        def unmarshall_datain(self, data):
            return self.no_such_attribute

    class FalseDecoder(NoDecoder):
        unmarshall_datain = None

    for cls in (NoDecoder, BrokenDecoder, FalseDecoder):
        c = cls(OpCode("N", 0x01, {}))
        keep = c.result
        trace.append((cls.__name__, snapshot(c), outcome(c.unmarshall), c.result is keep, outcome(c.unmarshall, evpd=1),
                      outcome(cls.unmarshall_cdb, c.cdb), type(c).OpcodeException is SCSICommand.OpcodeException,
                      outcome(cls, OpCode("N", 0x60, {}))))
    return trace


PINNED = [
    ("decode-after-other", pin_decode_after_other),
    ("init-cdb", pin_init_cdb),
    ("wrong-opcodes", pin_wrong_opcodes),
    ("xcopy-inputs", pin_xcopy_inputs),
    ("xcopy-commands", pin_xcopy_commands),
    ("all-commands", pin_all_commands),
    ("facade-names", pin_facade_names),
    ("new-object-defaults", pin_new_object_defaults),
]

EXPECTED = {
    "decode-after-other": "cc415b6a2e6132ed222d0deef4c85b2f0d1e64722e656b522c4c65727bf5b32d",
    "init-cdb": "6b54ce1cb473017ecc886ad89043531b4ca060ec666c478b8cac045492c199fe",
    "wrong-opcodes": "55b39aa4de86e9000efc05bd172641af43bbae6c716ab5ec1dbaac9abb91d3f2",
    "xcopy-inputs": "ae394125a98b1b7459afc4358ad4c91d8bca48e174b830782bcec210b3ce0ba9",
    "xcopy-commands": "b0cf7eeda6026f90359e01cf6efc85750a2cb199e0edf888d48dd41a3a9396d3",
    "all-commands": "b965993aab92381f81d3843ae8327ce7c15d4064c397ab9fd3c6d4d2f5145c3e",
    "facade-names": "34bd10e0227ba7329e6b76dd86efa9cd81e3cdd789ede797734e93443140159f",
    "new-object-defaults": "94135f3d90700084b4a3453eee60976fb5b4be3c3363ad1f73465f869f8dff4a",
}


def digest(trace):
    text = json.dumps(canon(trace), sort_keys=True, separators=(",", ":"))
    return hashlib.sha256(text.encode("utf-8")).hexdigest(), len(trace)


def main():
    property_reference()
    property_pairs()
    for seed in range(6):
        property_random_walk(seed, 400)
    property_repeat_marshalling()
    property_no_argument_leak()
    property_attributes()
    property_threads()
    recorded = {}
    for label, fn in PINNED:
        d, n = digest(fn())
        recorded[label] = d
        if not RECORD:
            check(EXPECTED.get(label) == d, "pinned behaviour '%s' differs from the unmodified library (%d trace entries, digest %s)" % (label, n, d))
    # after all of the above the property checks still hold
    property_reference()
    property_random_walk(99, 200)
    if RECORD:
        print("EXPECTED = {")
        for label, _ in PINNED:
            print('    "%s": "%s",' % (label, recorded[label]))
        print("}")
    if FAILURES:
        print("FAIL (%d of %d checks failed)" % (len(FAILURES), CHECKS[0]))
        return 1
    print("PASS (%d checks)" % CHECKS[0])
    return 0


if __name__ == "__main__":
    sys.exit(main())
