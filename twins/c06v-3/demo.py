#!/usr/bin/env python
"""
Demo / check for property C06:

  For every parameter-data structure the library can both build and parse,
  parsing what it built returns the original values.  Conversely, rebuilding
  what it parsed from a canonical device response reproduces that response
  byte for byte, so reading a mode page, changing one field and writing it
  back changes only that field's bits.

Run as:  cd /tmp/seed/C06v && PYTHONPATH=/tmp/seed/C06v /venv/bin/python SEED/demo.py

Everything is checked through the public API of the library (the command
classes, the SCSI facade driven by a fake device, tools/swp.py); the expected
bytes are built by this script on its own, with its own copy of the layouts.
"""
import contextlib
import importlib.util
import io
import os
import random
import struct
import sys
import types

# --------------------------------------------------------------------------
# the optional external bindings are not installed: provide small fakes
# --------------------------------------------------------------------------
for _name in ("sgio", "iscsi"):
    try:
        __import__(_name)
    except ImportError:
        _mod = types.ModuleType(_name)
        _mod.__dict__.update(
            execute=lambda *a, **k: 0,
            Task=type("Task", (), {}),
            Context=type("Context", (), {}),
            URL=type("URL", (), {}),
        )
        sys.modules[_name] = _mod

from pyscsi.pyscsi import scsi_enum_inquiry as INQ_ENUM
from pyscsi.pyscsi import scsi_enum_modesense as MS_ENUM
from pyscsi.pyscsi.scsi import SCSI
from pyscsi.pyscsi.scsi_cdb_getlbastatus import GetLBAStatus
from pyscsi.pyscsi.scsi_cdb_inquiry import Inquiry
from pyscsi.pyscsi.scsi_cdb_modesense6 import ModeSelect6, ModeSense6
from pyscsi.pyscsi.scsi_cdb_modesense10 import ModeSelect10, ModeSense10
from pyscsi.pyscsi.scsi_cdb_persistentreservein import (
    PersistentReserveInReadFullStatus,
    PersistentReserveInReadKeys,
    PersistentReserveInReadReservation,
    PersistentReserveInReportCapabilities,
)
from pyscsi.pyscsi.scsi_cdb_readcapacity10 import ReadCapacity10
from pyscsi.pyscsi.scsi_cdb_readcapacity16 import ReadCapacity16
from pyscsi.pyscsi.scsi_cdb_readcd import ReadCd
from pyscsi.pyscsi.scsi_cdb_readdiscinformation import ReadDiscInformation
from pyscsi.pyscsi.scsi_cdb_readelementstatus import ReadElementStatus
from pyscsi.pyscsi.scsi_cdb_report_luns import ReportLuns
from pyscsi.pyscsi.scsi_cdb_report_target_port_groups import ReportTargetPortGroups
from pyscsi.pyscsi.scsi_enum_command import mmc, sbc, smc, spc

HERE = os.path.dirname(os.path.abspath(__file__))
ROOT = os.path.dirname(HERE)

rng = random.Random(0xC06)
CHECKS = 0
FAILURES = []


def check(cond, what):
    global CHECKS
    CHECKS += 1
    if not cond:
        FAILURES.append(what)
        if len(FAILURES) <= 25:
            print("FAIL:", what)


def eq(a, b, what):
    check(a == b, "%s: %r != %r" % (what, a, b))


def rbytes(n):
    return bytearray(rng.getrandbits(8) for _ in range(n))


# --------------------------------------------------------------------------
# an independent packer: layouts are name -> (first byte, number of bytes, mask)
# where the mask is relative to the big endian integer made of those bytes
# --------------------------------------------------------------------------
def shift_of(mask):
    n = 0
    while not (mask >> n) & 1:
        n += 1
    return n


def pack(layout, values, size):
    buf = bytearray(size)
    for name, (pos, nbytes, mask) in layout.items():
        if name not in values:
            continue
        word = int.from_bytes(buf[pos : pos + nbytes], "big")
        word |= (values[name] << shift_of(mask)) & mask
        buf[pos : pos + nbytes] = word.to_bytes(nbytes, "big")
    return buf


def random_values(layout, extreme=None):
    out = {}
    for name, (pos, nbytes, mask) in layout.items():
        top = mask >> shift_of(mask)
        if extreme == "max":
            out[name] = top
        elif extreme == "zero":
            out[name] = 0
        else:
            out[name] = rng.choice([0, top, rng.randint(0, top), rng.randint(0, top)])
    return out


def field_bits(layout, name, size):
    """the set of (byte, bit) positions a field occupies"""
    pos, nbytes, mask = layout[name]
    bits = set()
    for bit in range(nbytes * 8):
        if (mask >> bit) & 1:
            byte = pos + nbytes - 1 - bit // 8
            bits.add((byte, bit % 8))
    return bits


def differing_bits(a, b):
    assert len(a) == len(b)
    out = set()
    for i, (x, y) in enumerate(zip(a, b)):
        d = x ^ y
        for bit in range(8):
            if (d >> bit) & 1:
                out.add((i, bit))
    return out


# --------------------------------------------------------------------------
# a fake device for the SCSI facade
# --------------------------------------------------------------------------
class FakeDevice:
    """answers INQUIRY with a device type, everything else through respond()"""

    def __init__(self, devtype, respond):
        self.opcodes = spc
        self.devicetype = None
        self._devtype = devtype
        self._respond = respond
        self.commands = []
        self.closed = 0

    def execute(self, cmd, en_raw_sense=False):
        self.commands.append(cmd)
        if cmd.cdb[0] == 0x12 and not cmd.cdb[1] & 1 and self._devtype is not None:
            data = bytearray(36)
            data[0] = self._devtype
        else:
            data = self._respond(cmd)
        if data is not None:
            n = min(len(data), len(cmd.datain))
            cmd.datain[:n] = data[:n]

    def open(self):
        pass

    def close(self):
        self.closed += 1


# ==========================================================================
# READ CAPACITY (10) / (16)
# ==========================================================================
RC10 = {"returned_lba": (0, 4, 0xFFFFFFFF), "block_length": (4, 4, 0xFFFFFFFF)}
RC16 = {
    "returned_lba": (0, 8, 0xFFFFFFFFFFFFFFFF),
    "block_length": (8, 4, 0xFFFFFFFF),
    "p_type": (12, 1, 0x0E),
    "prot_en": (12, 1, 0x01),
    "p_i_exponent": (13, 1, 0xF0),
    "lbppbe": (13, 1, 0x0F),
    "lbpme": (14, 1, 0x80),
    "lbprz": (14, 1, 0x40),
    "lowest_aligned_lba": (14, 2, 0x3FFF),
}


def check_readcapacity():
    for cls, layout, size, method in (
        (ReadCapacity10, RC10, 8, "readcapacity10"),
        (ReadCapacity16, RC16, 32, "readcapacity16"),
    ):
        for i in range(120):
            values = random_values(layout, extreme={0: "max", 1: "zero"}.get(i))
            canonical = pack(layout, values, size)
            built = cls.marshall_datain(values)
            eq(bytes(built), bytes(canonical), "%s build" % cls.__name__)
            check(isinstance(built, bytearray), "%s builds a bytearray" % cls.__name__)
            eq(cls.unmarshall_datain(canonical), values, "%s parse" % cls.__name__)
            eq(cls.unmarshall_datain(bytes(canonical)), values, "%s parse bytes" % cls.__name__)
            eq(cls.unmarshall_datain(cls.marshall_datain(values)), values, "%s roundtrip" % cls.__name__)
            eq(bytes(cls.marshall_datain(cls.unmarshall_datain(canonical))), bytes(canonical), "%s rebuild" % cls.__name__)
            # change one field: only its bits change
            name = rng.choice(sorted(layout))
            parsed = cls.unmarshall_datain(canonical)
            top = layout[name][2] >> shift_of(layout[name][2])
            parsed[name] = parsed[name] ^ rng.randint(1, top)
            rebuilt = cls.marshall_datain(parsed)
            diff = differing_bits(rebuilt, canonical)
            check(diff and diff <= field_bits(layout, name, size), "%s one field %s" % (cls.__name__, name))
            eq(cls.unmarshall_datain(rebuilt), parsed, "%s changed roundtrip" % cls.__name__)
        # partial dicts leave the other bytes zero
        eq(bytes(cls.marshall_datain({})), bytes(size), "%s empty" % cls.__name__)
        eq(bytes(cls.marshall_datain({"block_length": 512, "ignored": 7})), bytes(pack(layout, {"block_length": 512}, size)), "%s partial" % cls.__name__)
        # through the facade
        values = random_values(layout)
        canonical = pack(layout, values, size)
        with SCSI(FakeDevice(0, lambda cmd: canonical)) as s:
            cmd = getattr(s, method)()
            eq(cmd.result, values, "%s via SCSI" % cls.__name__)
            eq(bytes(cls.marshall_datain(cmd.result)), bytes(cmd.datain), "%s via SCSI rebuild" % cls.__name__)
        # a response that was cut short still parses (fields that are there)
        short = cls.unmarshall_datain(canonical[: size // 2])
        eq(short["returned_lba"], int.from_bytes(canonical[: size // 2][: layout["returned_lba"][1]], "big"), "%s short" % cls.__name__)


# ==========================================================================
# GET LBA STATUS / REPORT LUNS
# ==========================================================================
def check_getlbastatus():
    for i in range(150):
        n = rng.choice([0, 1, 1, 2, 3, 7, 20])
        lbas = [
            {
                "lba": rng.choice([0, (1 << 64) - 1, rng.getrandbits(64)]),
                "num_blocks": rng.choice([0, (1 << 32) - 1, rng.getrandbits(32)]),
                "p_status": rng.randint(0, 15),
            }
            for _ in range(n)
        ]
        canonical = bytearray(struct.pack(">I4x", 4 + 16 * n))
        for l in lbas:
            canonical += struct.pack(">QIB3x", l["lba"], l["num_blocks"], l["p_status"])
        values = {"lbas": lbas}
        eq(bytes(GetLBAStatus.marshall_datain(values)), bytes(canonical), "GetLBAStatus build")
        eq(GetLBAStatus.unmarshall_datain(canonical), values, "GetLBAStatus parse")
        eq(GetLBAStatus.unmarshall_datain(bytes(canonical)), values, "GetLBAStatus parse bytes")
        eq(GetLBAStatus.unmarshall_datain(canonical + bytearray(rng.randint(0, 40))), values, "GetLBAStatus parse padded")
        eq(GetLBAStatus.unmarshall_datain(GetLBAStatus.marshall_datain(values)), values, "GetLBAStatus roundtrip")
        eq(bytes(GetLBAStatus.marshall_datain(GetLBAStatus.unmarshall_datain(canonical))), bytes(canonical), "GetLBAStatus rebuild")
        if n:
            parsed = GetLBAStatus.unmarshall_datain(canonical)
            k = rng.randrange(n)
            parsed["lbas"][k]["p_status"] ^= 0x5
            rebuilt = GetLBAStatus.marshall_datain(parsed)
            eq(differing_bits(rebuilt, canonical), {(8 + 16 * k + 12, 0), (8 + 16 * k + 12, 2)}, "GetLBAStatus one field")
    eq(bytes(GetLBAStatus.marshall_datain({})), bytes(struct.pack(">I4x", 4)), "GetLBAStatus empty")
    eq(GetLBAStatus.unmarshall_datain(GetLBAStatus.marshall_datain({})), {"lbas": []}, "GetLBAStatus empty parse")
    canonical = bytearray(struct.pack(">I4x", 20)) + struct.pack(">QIB3x", 77, 88, 3)
    with SCSI(FakeDevice(0, lambda cmd: canonical)) as s:
        cmd = s.getlbastatus(77, alloclen=200)
        eq(cmd.result, {"lbas": [{"lba": 77, "num_blocks": 88, "p_status": 3}]}, "GetLBAStatus via SCSI")
        eq(bytes(GetLBAStatus.marshall_datain(cmd.result)), bytes(canonical), "GetLBAStatus via SCSI rebuild")


def check_reportluns():
    for i in range(150):
        n = rng.choice([0, 1, 1, 2, 3, 11, 30])
        luns = [rng.choice([0, (1 << 64) - 1, rng.getrandbits(64), rng.getrandbits(14) << 48]) for _ in range(n)]
        canonical = bytearray(struct.pack(">I4x", 8 * n))
        for l in luns:
            canonical += struct.pack(">Q", l)
        values = {"luns": [{"lun%d" % k: l} for k, l in enumerate(luns)]}
        eq(bytes(ReportLuns.marshall_datain(values)), bytes(canonical), "ReportLuns build")
        eq(ReportLuns.unmarshall_datain(canonical), values, "ReportLuns parse")
        eq(ReportLuns.unmarshall_datain(bytes(canonical)), values, "ReportLuns parse bytes")
        eq(ReportLuns.unmarshall_datain(canonical + bytearray(rng.randint(0, 40))), values, "ReportLuns parse padded")
        eq(ReportLuns.unmarshall_datain(ReportLuns.marshall_datain(values)), values, "ReportLuns roundtrip")
        eq(bytes(ReportLuns.marshall_datain(ReportLuns.unmarshall_datain(canonical))), bytes(canonical), "ReportLuns rebuild")
        if n:
            parsed = ReportLuns.unmarshall_datain(canonical)
            k = rng.randrange(n)
            parsed["luns"][k]["lun%d" % k] ^= 1 << 8
            eq(differing_bits(ReportLuns.marshall_datain(parsed), canonical), {(8 + 8 * k + 6, 0)}, "ReportLuns one field")
    eq(bytes(ReportLuns.marshall_datain({})), bytes(8), "ReportLuns empty")
    eq(ReportLuns.unmarshall_datain(bytes(8)), {"luns": []}, "ReportLuns empty parse")
    canonical = bytearray(struct.pack(">I4x", 16)) + struct.pack(">QQ", 0, 1 << 48)
    with SCSI(FakeDevice(0, lambda cmd: canonical)) as s:
        cmd = s.reportluns()
        eq(cmd.result, {"luns": [{"lun0": 0}, {"lun1": 1 << 48}]}, "ReportLuns via SCSI")
        eq(bytes(ReportLuns.marshall_datain(cmd.result)), bytes(canonical), "ReportLuns via SCSI rebuild")


# ==========================================================================
# REPORT TARGET PORT GROUPS
# ==========================================================================
TPGD = {
    "asymmetric_access_state": (0, 1, 0x0F),
    "pref": (0, 1, 0x80),
    "ao_sup": (1, 1, 0x01),
    "an_sup": (1, 1, 0x02),
    "s_sup": (1, 1, 0x04),
    "u_sup": (1, 1, 0x08),
    "o_sup": (1, 1, 0x40),
    "t_sup": (1, 1, 0x80),
    "target_port_group": (2, 2, 0xFFFF),
    "status_code": (5, 1, 0xFF),
    "vendor": (6, 1, 0xFF),
    "target_port_count": (7, 1, 0xFF),
}


def check_tpg():
    T = ReportTargetPortGroups
    for i in range(200):
        extended = i % 2
        values = {"format_type": extended}
        body = bytearray()
        if extended:
            values["implicit_transition_time"] = rng.getrandbits(8)
            body += bytes([0x10, values["implicit_transition_time"], 0, 0])
        groups = []
        for _ in range(rng.choice([0, 1, 1, 2, 5]) if (extended or i % 4) else rng.choice([1, 2])):
            g = random_values(TPGD)
            ports = [rng.getrandbits(16) for _ in range(rng.choice([0, 1, 2, 6]))]
            g["target_port_count"] = len(ports)
            body += pack(TPGD, g, 8)
            for p in ports:
                body += struct.pack(">2xH", p)
            g["target_ports"] = [{"relative_target_port_id": p} for p in ports]
            groups.append(g)
        values["target_port_group_descriptors"] = groups
        canonical = bytearray(struct.pack(">I", len(body))) + body
        eq(bytes(T.marshall_datain(values)), bytes(canonical), "TPG build")
        eq(T.unmarshall_datain(canonical), values, "TPG parse")
        eq(T.unmarshall_datain(bytes(canonical)), values, "TPG parse bytes")
        eq(T.unmarshall_datain(canonical + bytearray(rng.randint(0, 30))), values, "TPG parse padded")
        eq(T.unmarshall_datain(T.marshall_datain(values)), values, "TPG roundtrip")
        eq(bytes(T.marshall_datain(T.unmarshall_datain(canonical))), bytes(canonical), "TPG rebuild")
        if groups:
            parsed = T.unmarshall_datain(canonical)
            parsed["target_port_group_descriptors"][0]["pref"] ^= 1
            off = 4 + (4 if extended else 0)
            eq(differing_bits(T.marshall_datain(parsed), canonical), {(off, 7)}, "TPG one field")
    eq(T.unmarshall_datain(bytes(4)), {"format_type": 0, "target_port_group_descriptors": []}, "TPG empty")
    eq(bytes(T.marshall_datain({"target_port_group_descriptors": []})), bytes(4), "TPG empty build")
    g = random_values(TPGD)
    g["target_port_count"] = 1
    canonical = bytearray(struct.pack(">I", 12)) + pack(TPGD, g, 8) + struct.pack(">2xH", 0x1234)
    with SCSI(FakeDevice(0, lambda cmd: canonical)) as s:
        cmd = s.reporttargetportgroups(alloclen=64)
        g["target_ports"] = [{"relative_target_port_id": 0x1234}]
        eq(cmd.result, {"format_type": 0, "target_port_group_descriptors": [g]}, "TPG via SCSI")
        eq(bytes(T.marshall_datain(cmd.result)), bytes(canonical), "TPG via SCSI rebuild")


# ==========================================================================
# READ ELEMENT STATUS
# ==========================================================================
RES_HDR = {"first_element_address": (0, 2, 0xFFFF), "num_elements": (2, 2, 0xFFFF)}
RES_PAGE = {"element_type": (0, 1, 0x0F), "pvoltag": (1, 1, 0x80), "avoltag": (1, 1, 0x40)}
RES_DESC = {
    "element_address": (0, 2, 0xFFFF),
    "except": (2, 1, 0x04),
    "full": (2, 1, 0x01),
    "additional_sense_code": (4, 1, 0xFF),
    "additional_sense_code_qualifier": (5, 1, 0xFF),
    "svalid": (9, 1, 0x80),
    "invert": (9, 1, 0x40),
    "ed": (9, 1, 0x08),
    "medium_type": (9, 1, 0x07),
    "source_storage_element_address": (10, 2, 0xFFFF),
}
RES_TYPE = {
    1: {},
    2: {"access": (2, 1, 0x08)},
    3: {
        "oir": (2, 1, 0x80),
        "cmc": (2, 1, 0x40),
        "inenab": (2, 1, 0x20),
        "exenab": (2, 1, 0x10),
        "access": (2, 1, 0x08),
        "impexp": (2, 1, 0x02),
    },
    4: {"access": (2, 1, 0x08)},
}


def check_readelementstatus():
    R = ReadElementStatus
    last = None
    for i in range(200):
        values = random_values(RES_HDR)
        body = bytearray()
        pages = []
        for _ in range(rng.choice([0, 1, 1, 2, 4])):
            et = rng.randint(1, 4)
            page = {"element_type": et, "pvoltag": rng.randint(0, 1), "avoltag": rng.randint(0, 1)}
            layout = dict(RES_DESC)
            layout.update(RES_TYPE[et])
            edl = 16 + 36 * page["pvoltag"] + 36 * page["avoltag"]
            descs = bytearray()
            eds = []
            for _ in range(rng.choice([0, 1, 2, 5])):
                ed = random_values(layout)
                raw = pack(layout, ed, 12)
                if page["pvoltag"]:
                    ed["primary_volume_tag"] = rbytes(36)
                    raw += ed["primary_volume_tag"]
                if page["avoltag"]:
                    ed["alternate_volume_tag"] = rbytes(36)
                    raw += ed["alternate_volume_tag"]
                raw += bytes(4)
                assert len(raw) == edl
                descs += raw
                eds.append(ed)
            if not eds:
                # without descriptors the parser has no use for the page flags,
                # but they are still reported
                pass
            page["element_descriptors"] = eds
            hdr = pack(RES_PAGE, page, 8)
            hdr[2:4] = edl.to_bytes(2, "big")
            hdr[5:8] = len(descs).to_bytes(3, "big")
            body += hdr + descs
            pages.append(page)
        values["element_status_pages"] = pages
        canonical = pack(RES_HDR, values, 8)
        canonical[5:8] = len(body).to_bytes(3, "big")
        canonical += body
        eq(bytes(R.marshall_datain(values)), bytes(canonical), "ReadElementStatus build")
        eq(R.unmarshall_datain(canonical), values, "ReadElementStatus parse")
        eq(R.unmarshall_datain(bytes(canonical)), values, "ReadElementStatus parse bytes")
        eq(R.unmarshall_datain(canonical + bytearray(rng.randint(0, 30))), values, "ReadElementStatus parse padded")
        eq(R.unmarshall_datain(R.marshall_datain(values)), values, "ReadElementStatus roundtrip")
        eq(bytes(R.marshall_datain(R.unmarshall_datain(canonical))), bytes(canonical), "ReadElementStatus rebuild")
        if pages and pages[0]["element_descriptors"]:
            parsed = R.unmarshall_datain(canonical)
            parsed["element_status_pages"][0]["element_descriptors"][0]["full"] ^= 1
            eq(differing_bits(R.marshall_datain(parsed), canonical), {(8 + 8 + 2, 0)}, "ReadElementStatus one field")
            last = (values, canonical)
    eq(R.unmarshall_datain(bytes(8)), {"first_element_address": 0, "num_elements": 0, "element_status_pages": []}, "ReadElementStatus empty")
    # volume tags that are not given are built as zeroes
    built = R.marshall_datain(
        {"element_status_pages": [{"element_type": 2, "pvoltag": 1, "avoltag": 0, "element_descriptors": [{"element_address": 5}]}]}
    )
    eq(R.unmarshall_datain(built)["element_status_pages"][0]["element_descriptors"][0]["primary_volume_tag"], bytearray(36), "ReadElementStatus default tag")
    # a descriptor length of zero with descriptors present is refused
    bad = bytearray(8 + 8 + 16)
    bad[5:8] = (24).to_bytes(3, "big")
    bad[8] = 2
    bad[13:16] = (16).to_bytes(3, "big")
    try:
        R.unmarshall_datain(bad)
        check(False, "ReadElementStatus zero descriptor length accepted")
    except ValueError:
        check(True, "")
    values, canonical = last
    with SCSI(FakeDevice(8, lambda cmd: canonical)) as s:
        cmd = s.readelementstatus(0, 10)
        eq(cmd.result, values, "ReadElementStatus via SCSI")
        eq(bytes(R.marshall_datain(cmd.result)), bytes(canonical), "ReadElementStatus via SCSI rebuild")


# ==========================================================================
# MODE SENSE / MODE SELECT (6) and (10)
# ==========================================================================
MS_HDR6 = {"medium_type": (1, 1, 0xFF), "device_specific_parameter": (2, 1, 0xFF)}
MS_HDR10 = {"medium_type": (2, 1, 0xFF), "device_specific_parameter": (3, 1, 0xFF), "longlba": (4, 1, 0x01)}
MS_PAGE0 = {"ps": (0, 1, 0x80), "spf": (0, 1, 0x40), "page_code": (0, 1, 0x3F)}
MS_SUBPAGE = dict(MS_PAGE0, sub_page_code=(1, 1, 0xFF))
MS_CONTROL = {
    "tst": (0, 1, 0xE0),
    "tmf_only": (0, 1, 0x10),
    "dpicz": (0, 1, 0x08),
    "d_sense": (0, 1, 0x04),
    "gltsd": (0, 1, 0x02),
    "rlec": (0, 1, 0x01),
    "queue_algorithm_modifier": (1, 1, 0xF0),
    "nuar": (1, 1, 0x08),
    "qerr": (1, 1, 0x06),
    "vs": (2, 1, 0x80),
    "rac": (2, 1, 0x40),
    "ua_intlck_ctrl": (2, 1, 0x30),
    "swp": (2, 1, 0x08),
    "ato": (3, 1, 0x80),
    "tas": (3, 1, 0x40),
    "atmpe": (3, 1, 0x20),
    "rwwp": (3, 1, 0x10),
    "autoload_mode": (3, 1, 0x07),
    "busy_timeout_period": (6, 2, 0xFFFF),
    "extended_self_test_completion_time": (8, 2, 0xFFFF),
}
MS_CONTROL_EXT = {
    "tcmos": (0, 1, 0x04),
    "scsip": (0, 1, 0x02),
    "ialuae": (0, 1, 0x01),
    "initial_command_priority": (1, 1, 0x0F),
    "maximum_sense_data_length": (2, 1, 0xFF),
}
MS_DISCONNECT = {
    "buffer_full_ratio": (0, 1, 0xFF),
    "buffer_empty_ratio": (1, 1, 0xFF),
    "bus_inactivity_limit": (2, 2, 0xFFFF),
    "disconnect_time_limit": (4, 2, 0xFFFF),
    "connect_time_limit": (6, 2, 0xFFFF),
    "maximum_burst_size": (8, 2, 0xFFFF),
    "emdp": (10, 1, 0x80),
    "fair_arbitration": (10, 1, 0x70),
    "dimm": (10, 1, 0x08),
    "dtdc": (10, 1, 0x07),
    "first_burst_size": (12, 2, 0xFFFF),
}
MS_ELEMENT = {
    "first_medium_transport_element_address": (0, 2, 0xFFFF),
    "num_medium_transport_elements": (2, 2, 0xFFFF),
    "first_storage_element_address": (4, 2, 0xFFFF),
    "num_storage_elements": (6, 2, 0xFFFF),
    "first_import_element_address": (8, 2, 0xFFFF),
    "num_import_elements": (10, 2, 0xFFFF),
    "first_data_transfer_element_address": (12, 2, 0xFFFF),
    "num_data_transfer_elements": (14, 2, 0xFFFF),
}
# page code, sub page code, layout, page length
MS_PAGES = [
    (0x0A, None, MS_CONTROL, 10),
    (0x0A, 1, MS_CONTROL_EXT, 28),
    (0x02, None, MS_DISCONNECT, 14),
    (0x1D, None, MS_ELEMENT, 18),
]


def mode_page(extreme=None, which=None):
    """random values of one mode page, its canonical bytes, the layout and the offset of the page data"""
    page_code, sub, layout, length = which or rng.choice(MS_PAGES)
    values = {"ps": rng.randint(0, 1), "spf": 0 if sub is None else 1, "page_code": page_code}
    if sub is None:
        hdr = pack(MS_PAGE0, values, 2)
        hdr[1] = length
    else:
        values["sub_page_code"] = sub
        hdr = pack(MS_SUBPAGE, values, 4)
        hdr[2:4] = length.to_bytes(2, "big")
    fields = random_values(layout, extreme)
    values.update(fields)
    return values, hdr + pack(layout, fields, length), layout, len(hdr)


def mode_parameter_list(ten, extreme=None, which=None):
    hdr_layout, hdr_size = (MS_HDR10, 8) if ten else (MS_HDR6, 4)
    values = random_values(hdr_layout, extreme)
    page_values, page_bytes, layout, data_off = mode_page(extreme, which)
    values["mode_pages"] = [page_values]
    canonical = pack(hdr_layout, values, hdr_size) + page_bytes
    if ten:
        canonical[0:2] = (len(canonical) - 2).to_bytes(2, "big")
    else:
        canonical[0] = len(canonical) - 1
    return values, canonical, layout, hdr_size + data_off


def check_modesense():
    for ten, sense, select, hdr_layout in ((0, ModeSense6, ModeSelect6, MS_HDR6), (1, ModeSense10, ModeSelect10, MS_HDR10)):
        name = sense.__name__
        for i in range(400):
            which = MS_PAGES[i % 4] if i < 16 else None
            extreme = {0: "max", 1: "max", 2: "max", 3: "max", 4: "zero", 5: "zero", 6: "zero", 7: "zero"}.get(i)
            values, canonical, layout, off = mode_parameter_list(ten, extreme, which)
            eq(bytes(sense.marshall_datain(values)), bytes(canonical), name + " build")
            eq(sense.unmarshall_datain(canonical), values, name + " parse")
            eq(sense.unmarshall_datain(bytes(canonical)), values, name + " parse bytes")
            eq(sense.unmarshall_datain(canonical + bytearray(96 - len(canonical))), values, name + " parse padded")
            eq(sense.unmarshall_datain(sense.marshall_datain(values)), values, name + " roundtrip")
            eq(bytes(sense.marshall_datain(sense.unmarshall_datain(canonical))), bytes(canonical), name + " rebuild")
            eq(bytes(select.marshall_dataout(values)), bytes(canonical), name + " select dataout")
            # read, change one field, write back: only the bits of the field change
            parsed = sense.unmarshall_datain(canonical)
            field = rng.choice(sorted(layout))
            top = layout[field][2] >> shift_of(layout[field][2])
            parsed["mode_pages"][0][field] ^= rng.randint(1, top)
            rebuilt = sense.marshall_datain(parsed)
            allowed = {(off + byte, bit) for byte, bit in field_bits(layout, field, 0)}
            diff = differing_bits(rebuilt, canonical)
            check(diff and diff <= allowed, "%s one field %s: %r" % (name, field, sorted(diff)))
            eq(sense.unmarshall_datain(rebuilt), parsed, name + " changed roundtrip")
            # a header field
            parsed = sense.unmarshall_datain(canonical)
            parsed["medium_type"] ^= 0x81
            hpos = hdr_layout["medium_type"][0]
            eq(differing_bits(sense.marshall_datain(parsed), canonical), {(hpos, 0), (hpos, 7)}, name + " header field")
        # header only: no mode pages
        hdr_only = bytearray(8 if ten else 4)
        hdr_only[0:2] = (6).to_bytes(2, "big") if ten else bytes([3, 0x11])
        hdr_only[2 if ten else 1] = 0x11
        parsed = sense.unmarshall_datain(hdr_only)
        eq(parsed["mode_pages"], [], name + " header only")
        eq(parsed["medium_type"], 0x11, name + " header only medium type")
        eq(bytes(sense.marshall_datain(parsed)), bytes(hdr_only), name + " header only rebuild")
        # block descriptors are skipped when parsing
        values, canonical, layout, off = mode_parameter_list(ten)
        hs = 8 if ten else 4
        with_bd = canonical[:hs] + rbytes(8) + canonical[hs:]
        if ten:
            with_bd[6:8] = (8).to_bytes(2, "big")
        else:
            with_bd[3] = 8
        eq(sense.unmarshall_datain(with_bd), values, name + " block descriptor skipped")

    # through the facade: sense, change swp, select
    for ten in (0, 1):
        sense, select = (ModeSense10, ModeSelect10) if ten else (ModeSense6, ModeSelect6)
        for i in range(40):
            values, canonical, layout, off = mode_parameter_list(ten, which=MS_PAGES[0])
            dev = FakeDevice(0, lambda cmd: canonical if cmd.cdb[0] in (0x1A, 0x5A) else None)
            with SCSI(dev) as s:
                cmd = (s.modesense10 if ten else s.modesense6)(page_code=MS_ENUM.PAGE_CODE.CONTROL)
                result = cmd.result
                eq(result, values, "mode sense via SCSI")
                eq(cmd.cdb[2] & 0x3F, 0x0A, "mode sense cdb page code")
                out = (s.modeselect10 if ten else s.modeselect6)(result)
                eq(bytes(out.dataout), bytes(canonical), "mode select unchanged dataout")
                plen = int.from_bytes(out.cdb[7:9], "big") if ten else out.cdb[4]
                eq(plen, len(canonical), "mode select parameter list length")
                eq(out.cdb[1] & 0x11, 0x10, "mode select pf/sp")
                old = result["mode_pages"][0]["swp"]
                result["mode_pages"][0]["swp"] = 1 - old
                out = (s.modeselect10 if ten else s.modeselect6)(result, sp=1)
                eq(differing_bits(out.dataout, canonical), {(off + 2, 3)}, "mode select swp only")
                eq(out.cdb[1] & 0x11, 0x11, "mode select pf/sp 2")
                eq(out.result, None, "mode select has no result")
            eq(dev.closed, 1, "device closed")


# ==========================================================================
# tools/swp.py
# ==========================================================================
def load_swp():
    spec = importlib.util.spec_from_file_location("swp_tool", os.path.join(ROOT, "tools", "swp.py"))
    mod = importlib.util.module_from_spec(spec)
    spec.loader.exec_module(mod)
    return mod


def check_swp_tool():
    swp = load_swp()
    for i in range(60):
        values, canonical, layout, off = mode_parameter_list(0, which=MS_PAGES[0])
        state = {"page": bytearray(canonical), "selects": []}

        def respond(cmd):
            if cmd.cdb[0] == 0x1A:
                return state["page"]
            if cmd.cdb[0] == 0x15:
                state["selects"].append(bytes(cmd.dataout))
                state["page"] = bytearray(cmd.dataout)
            return None

        devices = []

        def fake_init_device(dev, *a, **k):
            devices.append(dev)
            return FakeDevice(0, respond)

        swp.init_device = fake_init_device
        was = values["mode_pages"][0]["swp"]
        scenarios = [
            (["swp.py", "/dev/sg9"], "SWP is %s\n" % ("ON" if was else "OFF"), None, ["swp.py", "/dev/sg9"]),
            (["swp.py", "--on", "/dev/sg9"], "Set SWP ON\n", 1, ["swp.py", "/dev/sg9"]),
            (["swp.py", "/dev/sg9", "--off"], "Set SWP OFF\n", 0, ["swp.py", "/dev/sg9"]),
            (["swp.py", "--off", "--on", "/dev/sg9", "--on"], "Set SWP ON\n", 1, ["swp.py", "/dev/sg9"]),
            (["swp.py", "--on", "--help", "--off", "/dev/sg9"], "Usage: swp.py [--help] [--on|--off] <device>\n", "none", ["swp.py", "--help", "--off", "/dev/sg9"]),
            (["swp.py", "--on"], "Usage: swp.py [--help] [--on|--off] <device>\n", "none", ["swp.py"]),
            (["swp.py"], "Usage: swp.py [--help] [--on|--off] <device>\n", "none", ["swp.py"]),
        ]
        argv, expected_out, new, argv_after = scenarios[i % len(scenarios)]
        saved = sys.argv
        sys.argv = list(argv)
        out = io.StringIO()
        try:
            with contextlib.redirect_stdout(out):
                ret = swp.main()
            after = list(sys.argv)
        finally:
            sys.argv = saved
        eq(ret, None, "swp main return")
        eq(out.getvalue(), expected_out, "swp output %r" % (argv,))
        eq(after, argv_after, "swp argv %r" % (argv,))
        if new == "none":
            eq(devices, [], "swp no device %r" % (argv,))
            eq(state["selects"], [], "swp no select")
        elif new is None:
            eq(state["selects"], [], "swp show only")
            eq(devices, ["/dev/sg9"], "swp device")
        else:
            eq(len(state["selects"]), 1, "swp one select")
            expected = bytearray(canonical)
            expected[off + 2] = (expected[off + 2] & ~0x08) | (new << 3)
            eq(state["selects"][0], bytes(expected), "swp writes back only the SWP bit")
            # and it reads back
            sys.argv = ["swp.py", "/dev/sg9"]
            out = io.StringIO()
            try:
                with contextlib.redirect_stdout(out):
                    swp.main()
            finally:
                sys.argv = saved
            eq(out.getvalue(), "SWP is %s\n" % ("ON" if new else "OFF"), "swp read back")


# ==========================================================================
# INQUIRY
# ==========================================================================
INQ_HEAD = {"peripheral_qualifier": (0, 1, 0xE0), "peripheral_device_type": (0, 1, 0x1F)}
INQ_STD = {
    "rmb": (1, 1, 0x80),
    "version": (2, 1, 0xFF),
    "normaca": (3, 1, 0x20),
    "hisup": (3, 1, 0x10),
    "response_data_format": (3, 1, 0x0F),
    "additional_length": (4, 1, 0xFF),
    "sccs": (5, 1, 0x80),
    "acc": (5, 1, 0x40),
    "tpgs": (5, 1, 0x30),
    "3pc": (5, 1, 0x08),
    "protect": (5, 1, 0x01),
    "encserv": (6, 1, 0x40),
    "vs": (6, 1, 0x20),
    "multip": (6, 1, 0x10),
    "addr16": (6, 1, 0x01),
    "wbus16": (7, 1, 0x20),
    "sync": (7, 1, 0x10),
    "cmdque": (7, 1, 0x02),
    "vs2": (7, 1, 0x01),
    "clocking": (56, 1, 0x0C),
    "qas": (56, 1, 0x02),
    "ius": (56, 1, 0x01),
}
INQ_STD_BLOBS = {
    "t10_vendor_identification": (8, 8),
    "product_identification": (16, 16),
    "product_revision_level": (32, 4),
}
INQ_LBP = {
    "threshold_exponent": (4, 1, 0xFF),
    "lbpu": (5, 1, 0x80),
    "lpbws": (5, 1, 0x40),
    "lbpws10": (5, 1, 0x20),
    "lbprz": (5, 1, 0x04),
    "anc_sup": (5, 1, 0x02),
    "dp": (5, 1, 0x01),
    "provisioning_type": (6, 1, 0x07),
}
INQ_REFERRALS = {
    "user_data_segment_size": (8, 4, 0xFFFFFFFF),
    "user_data_segment_multiplier": (12, 4, 0xFFFFFFFF),
}
INQ_EXTENDED = {
    "activate_microcode": (4, 1, 0xC0),
    "spt": (4, 1, 0x38),
    "grd_chk": (4, 1, 0x04),
    "app_chk": (4, 1, 0x02),
    "ref_chk": (4, 1, 0x01),
    "uask_sup": (5, 1, 0x20),
    "group_sup": (5, 1, 0x10),
    "prior_sup": (5, 1, 0x08),
    "headsup": (5, 1, 0x04),
    "ordsup": (5, 1, 0x02),
    "simpsup": (5, 1, 0x01),
    "wu_sup": (6, 1, 0x08),
    "crd_sup": (6, 1, 0x04),
    "nv_sup": (6, 1, 0x02),
    "v_sup": (6, 1, 0x01),
    "p_i_i_sup": (7, 1, 0x10),
    "luiclr": (7, 1, 0x01),
    "r_sup": (8, 1, 0x10),
    "cbcs": (8, 1, 0x01),
    "multi_it_nexus_microcode_download": (9, 1, 0x0F),
    "extended_self_test_completion_minutes": (10, 2, 0xFFFF),
    "poa_sup": (12, 1, 0x80),
    "hra_sup": (12, 1, 0x40),
    "vsa_sup": (12, 1, 0x20),
    "maximum_supported_sense_data_length": (13, 1, 0xFF),
}
INQ_BLOCK_LIMITS = {
    "wsnz": (4, 1, 0x01),
    "ugavalid": (32, 1, 0x80),
    "max_caw_len": (5, 1, 0xFF),
    "opt_xfer_len_gran": (6, 2, 0xFFFF),
    "max_xfer_len": (8, 4, 0xFFFFFFFF),
    "opt_xfer_len": (12, 4, 0xFFFFFFFF),
    "max_pfetch_len": (16, 4, 0xFFFFFFFF),
    "max_unmap_lba_count": (20, 4, 0xFFFFFFFF),
    "max_unmap_bd_count": (24, 4, 0xFFFFFFFF),
    "opt_unmap_gran": (28, 4, 0xFFFFFFFF),
    "unmap_gran_alignment": (32, 4, 0x7FFFFFFF),
    "max_ws_len": (36, 8, 0xFFFFFFFFFFFFFFFF),
}
INQ_BDC = {
    "medium_rotation_rate": (4, 2, 0xFFFF),
    "product_type": (6, 1, 0xFF),
    "wabereq": (7, 1, 0xC0),
    "wacereq": (7, 1, 0x30),
    "nominal_form_factor": (7, 1, 0x0F),
    "fuab": (8, 1, 0x02),
    "vbuls": (8, 1, 0x01),
}
DESIGNATOR_HDR = {
    "protocol_identifier": (0, 1, 0xF0),
    "code_set": (0, 1, 0x0F),
    "piv": (1, 1, 0x80),
    "association": (1, 1, 0x30),
    "designator_type": (1, 1, 0x0F),
    "designator_length": (3, 1, 0xFF),
}


def random_designator():
    """designator type, its values and its bytes, built independently"""
    t = rng.randint(0, 9)
    if t == 0:
        raw = rbytes(rng.randint(0, 30))
        return t, {"vendor_specific": raw}, raw
    if t == 1:
        vid, rest = rbytes(8), rbytes(rng.randint(0, 20))
        return t, {"t10_vendor_id": vid, "vendor_specific_id": rest}, vid + rest
    if t == 2:
        company, ext = rng.getrandbits(24), rbytes(5)
        k = rng.randint(0, 2)
        if k == 0:
            return t, {"ieee_company_id": company, "vendor_specific_extension_id": ext}, company.to_bytes(3, "big") + ext
        if k == 1:
            did = rbytes(4)
            return (
                t,
                {"ieee_company_id": company, "vendor_specific_extension_id": ext, "directory_id": did},
                company.to_bytes(3, "big") + ext + did,
            )
        ide = rbytes(8)
        return (
            t,
            {"identifier_extension": ide, "ieee_company_id": company, "vendor_specific_extension_id": ext},
            ide + company.to_bytes(3, "big") + ext,
        )
    if t == 3:
        naa = rng.choice([2, 3, 5, 6])
        if naa == 2:
            a, c, b = rng.getrandbits(12), rng.getrandbits(24), rng.getrandbits(24)
            word = (naa << 60) | (a << 48) | (c << 24) | b
            return t, {"naa": naa, "vendor_specific_identifier_a": a, "ieee_company_id": c, "vendor_specific_identifier_b": b}, word.to_bytes(8, "big")
        if naa == 3:
            v = rng.getrandbits(60)
            return t, {"naa": naa, "locally_administered_value": v}, ((naa << 60) | v).to_bytes(8, "big")
        c, v = rng.getrandbits(24), rng.getrandbits(36)
        word = (naa << 60) | (c << 36) | v
        if naa == 5:
            return t, {"naa": naa, "ieee_company_id": c, "vendor_specific_identifier": v}, word.to_bytes(8, "big")
        e = rng.getrandbits(64)
        return (
            t,
            {"naa": naa, "ieee_company_id": c, "vendor_specific_identifier": v, "vendor_specific_identifier_extension": e},
            word.to_bytes(8, "big") + e.to_bytes(8, "big"),
        )
    if t in (4, 5, 6):
        key = {4: "relative_port", 5: "target_portal_group", 6: "logical_unit_group"}[t]
        v = rng.getrandbits(16)
        return t, {key: v}, struct.pack(">2xH", v)
    if t == 7:
        raw = rbytes(16)
        return t, {"md5_logical_identifier": raw}, raw
    if t == 8:
        raw = bytearray(b"iqn.1999-01.org.example:" + bytes(rng.choice(b"abcdefgh0123") for _ in range(rng.randint(0, 12))))
        return t, {"scsi_name_string": raw}, raw
    v = rng.getrandbits(16)
    return t, {"pci_express_routing_id": v}, struct.pack(">H6x", v)


def vpd_header(head, page_code, body):
    page = pack(INQ_HEAD, head, 4)
    page[1] = page_code
    page[2:4] = len(body).to_bytes(2, "big")
    return page + body


def check_inquiry():
    I = Inquiry
    # ---- standard inquiry data
    layout = dict(INQ_HEAD)
    layout.update(INQ_STD)
    for i in range(150):
        values = random_values(layout, extreme={0: "max", 1: "zero"}.get(i))
        canonical = pack(layout, values, 96)
        for name, (pos, n) in INQ_STD_BLOBS.items():
            values[name] = rbytes(n)
            canonical[pos : pos + n] = values[name]
        eq(bytes(I.marshall_datain(values)), bytes(canonical), "Inquiry standard build")
        eq(I.unmarshall_datain(canonical), values, "Inquiry standard parse")
        eq(I.unmarshall_datain(bytes(canonical), evpd=0), values, "Inquiry standard parse bytes")
        eq(I.unmarshall_datain(I.marshall_datain(values)), values, "Inquiry standard roundtrip")
        eq(bytes(I.marshall_datain(I.unmarshall_datain(canonical))), bytes(canonical), "Inquiry standard rebuild")
        field = rng.choice(sorted(layout))
        parsed = I.unmarshall_datain(canonical)
        top = layout[field][2] >> shift_of(layout[field][2])
        parsed[field] ^= rng.randint(1, top)
        diff = differing_bits(I.marshall_datain(parsed), canonical)
        check(diff and diff <= field_bits(layout, field, 96), "Inquiry standard one field %s" % field)
    with SCSI(FakeDevice(None, lambda cmd: canonical)) as s:
        eq(s.inquiry().result, values, "Inquiry standard via SCSI")

    # ---- bit table pages that can be built and parsed
    for page_code, table, size in ((0xB2, INQ_LBP, 8), (0xB3, INQ_REFERRALS, 16), (0x86, INQ_EXTENDED, 64)):
        layout = dict(INQ_HEAD)
        layout.update(table)
        for i in range(100):
            values = random_values(layout, extreme={0: "max", 1: "zero"}.get(i))
            canonical = pack(layout, values, size)
            canonical[1] = page_code
            canonical[2:4] = (size - 4).to_bytes(2, "big")
            values["page_code"] = page_code
            what = "Inquiry page %02x" % page_code
            eq(bytes(I.marshall_datain(values)), bytes(canonical), what + " build")
            eq(I.unmarshall_datain(canonical, evpd=1), values, what + " parse")
            eq(I.unmarshall_datain(bytes(canonical), evpd=1), values, what + " parse bytes")
            eq(I.unmarshall_datain(I.marshall_datain(values), evpd=1), values, what + " roundtrip")
            eq(bytes(I.marshall_datain(I.unmarshall_datain(canonical, evpd=1))), bytes(canonical), what + " rebuild")
            field = rng.choice(sorted(table))
            parsed = I.unmarshall_datain(canonical, evpd=1)
            top = layout[field][2] >> shift_of(layout[field][2])
            parsed[field] ^= rng.randint(1, top)
            diff = differing_bits(I.marshall_datain(parsed), canonical)
            check(diff and diff <= field_bits(layout, field, size), what + " one field %s" % field)
        with SCSI(FakeDevice(0, lambda cmd: canonical)) as s:
            cmd = s.inquiry(evpd=1, page_code=page_code)
            eq(cmd.result, values, what + " via SCSI")
            eq(bytes(I.marshall_datain(cmd.result)), bytes(canonical), what + " via SCSI rebuild")

    # ---- pages that can only be parsed
    for page_code, table, size in ((0xB0, INQ_BLOCK_LIMITS, 64), (0xB1, INQ_BDC, 64)):
        layout = dict(INQ_HEAD)
        layout.update(table)
        for i in range(60):
            values = random_values(layout)
            canonical = pack(layout, values, size)
            canonical[1] = page_code
            canonical[2:4] = (size - 4).to_bytes(2, "big")
            values["page_code"] = page_code
            eq(I.unmarshall_datain(canonical, evpd=1), values, "Inquiry page %02x parse" % page_code)
    for i in range(40):
        head = random_values(INQ_HEAD)
        pages = sorted(rng.sample(range(256), rng.randint(0, 20)))
        canonical = vpd_header(head, 0x00, bytes(pages))
        eq(I.unmarshall_datain(canonical + bytes(rng.randint(0, 9)), evpd=1), dict(head, page_code=0, vpd_pages=pages), "Inquiry supported pages")
    check(I.unmarshall_datain(vpd_header({}, 0x84, b"abcd"), evpd=1) is None, "Inquiry unknown page parses to None")

    # ---- unit serial number
    for i in range(60):
        head = random_values(INQ_HEAD)
        serial = rbytes(rng.choice([0, 1, 4, 8, 20, 60]))
        canonical = vpd_header(head, 0x80, serial)
        values = dict(head, page_code=0x80, unit_serial_number=serial)
        eq(bytes(I.marshall_datain(values)), bytes(canonical), "Inquiry serial build")
        eq(I.unmarshall_datain(canonical, evpd=1), values, "Inquiry serial parse")
        eq(I.unmarshall_datain(canonical + bytes(7), evpd=1), values, "Inquiry serial parse padded")
        eq(bytes(I.marshall_datain(I.unmarshall_datain(canonical, evpd=1))), bytes(canonical), "Inquiry serial rebuild")

    # ---- device identification
    seen = set()
    for i in range(400):
        head = random_values(INQ_HEAD)
        body = bytearray()
        descriptors = []
        for _ in range(rng.choice([0, 1, 1, 2, 3, 6])):
            t, dvalues, draw = random_designator()
            seen.add((t, len(draw)))
            dd = {
                "code_set": rng.randint(0, 15),
                "piv": rng.randint(0, 1),
                "association": rng.randint(0, 3),
                "designator_type": t,
                "designator_length": len(draw),
            }
            if dd["piv"] and dd["association"] in (1, 2):
                dd["protocol_identifier"] = rng.randint(0, 15)
            body += pack(DESIGNATOR_HDR, dd, 4) + draw
            dd["designator"] = dvalues
            descriptors.append(dd)
            # the helpers on their own
            eq(bytes(I.marshall_designator(t, dvalues)), bytes(draw), "designator %d build" % t)
            eq(I.unmarshall_designator(t, bytearray(draw)), dvalues, "designator %d parse" % t)
            eq(bytes(I.marshall_designation_descriptor(dd)), bytes(pack(DESIGNATOR_HDR, dd, 4) + draw), "designation descriptor build")
        canonical = vpd_header(head, 0x83, body)
        values = dict(head, page_code=0x83, designator_descriptors=descriptors)
        eq(bytes(I.marshall_datain(values)), bytes(canonical), "Inquiry device id build")
        eq(I.unmarshall_datain(canonical, evpd=1), values, "Inquiry device id parse")
        eq(I.unmarshall_datain(bytes(canonical), evpd=1), values, "Inquiry device id parse bytes")
        eq(I.unmarshall_datain(canonical + bytes(rng.randint(0, 11)), evpd=1), values, "Inquiry device id parse padded")
        eq(I.unmarshall_datain(I.marshall_datain(values), evpd=1), values, "Inquiry device id roundtrip")
        eq(bytes(I.marshall_datain(I.unmarshall_datain(canonical, evpd=1))), bytes(canonical), "Inquiry device id rebuild")
        if descriptors:
            parsed = I.unmarshall_datain(canonical, evpd=1)
            parsed["designator_descriptors"][0]["code_set"] ^= 0x9
            eq(differing_bits(I.marshall_datain(parsed), canonical), {(4, 0), (4, 3)}, "Inquiry device id one field")
    check(len({t for t, _ in seen}) == 10, "all designator types exercised")
    # the stale designator length given by the caller is replaced by the real one
    dd = {"code_set": 1, "piv": 0, "association": 0, "designator_type": 8, "designator_length": 200, "designator": {"scsi_name_string": bytearray(b"xyz")}}
    eq(bytes(I.marshall_designation_descriptor(dd)), b"\x01\x08\x00\x03xyz", "designator length recomputed")
    canonical = vpd_header({"peripheral_device_type": 5}, 0x83, bytes(pack(DESIGNATOR_HDR, dd, 4)[:3]) + b"\x03xyz")
    with SCSI(FakeDevice(0, lambda cmd: canonical)) as s:
        cmd = s.inquiry(evpd=1, page_code=0x83)
        eq(cmd.result["designator_descriptors"][0]["designator"], {"scsi_name_string": bytearray(b"xyz")}, "Inquiry device id via SCSI")
        eq(bytes(I.marshall_datain(cmd.result)), bytes(canonical), "Inquiry device id via SCSI rebuild")

    # ---- ATA information (parse only)
    page = bytearray(572)
    page[1] = 0x89
    page[2:4] = (568).to_bytes(2, "big")
    page[8:16] = b"VENDOR  "
    page[16:32] = b"PRODUCT 12345678"
    page[32:36] = b"REV1"
    sig = bytearray(20)
    sig[12], sig[4], sig[5], sig[6], sig[7] = 1, 2, 3, 4, 5
    page[36:56] = sig
    ident = rbytes(512)
    page[60:] = ident
    r = I.unmarshall_datain(page, evpd=1)
    eq(r["sat_vendor_identification"], bytearray(b"VENDOR  "), "ATA vendor")
    eq(r["sat_product_identification"], bytearray(b"PRODUCT 12345678"), "ATA product")
    eq(r["sat_product_rev_lvl"], bytearray(b"REV1"), "ATA rev")
    eq(r["signature"], {"sector_count": 1, "lba_low": 2, "lba_mid": 3, "lba_high": 4, "device": 5}, "ATA signature")
    eq(r["identify"]["serial_number"], ident[20:40], "ATA serial")
    eq(r["identify"]["firmware_rev"], ident[46:54], "ATA firmware")
    eq(r["identify"]["model_number"], ident[54:94], "ATA model")
    eq(r["identify"]["specific_config"], int.from_bytes(ident[4:8], "big"), "ATA specific config")
    eq(r["identify"]["general_config"], {"ata_device": ident[1] >> 7, "respose_incomplete": (ident[0] >> 2) & 1}, "ATA general config")


# ==========================================================================
# PERSISTENT RESERVE IN
# ==========================================================================
def check_persistentreservein():
    K = PersistentReserveInReadKeys
    for i in range(80):
        gen = rng.getrandbits(32)
        keys = [rng.choice([0, (1 << 64) - 1, rng.getrandbits(64)]) for _ in range(rng.choice([0, 1, 2, 9]))]
        data = bytearray(struct.pack(">II", gen, 8 * len(keys)))
        for k in keys:
            data += struct.pack(">Q", k)
        expected = {"pr_generation": gen, "reservation_keys": keys}
        eq(K.unmarshall_datain(data), expected, "PR read keys")
        eq(K.unmarshall_datain(bytes(data)), expected, "PR read keys bytes")
        eq(K.unmarshall_datain(data + rbytes(rng.randint(0, 20))), expected, "PR read keys padded")
    R = PersistentReserveInReadReservation
    for i in range(80):
        gen, key, scope, typ = rng.getrandbits(32), rng.getrandbits(64), rng.randint(0, 15), rng.randint(0, 15)
        data = bytearray(struct.pack(">IIQ4xxB2x", gen, 16, key, (scope << 4) | typ))
        eq(R.unmarshall_datain(data), {"pr_generation": gen, "reservation_key": key, "scope": scope, "type": typ}, "PR read reservation")
        eq(R.unmarshall_datain(struct.pack(">II", gen, 0)), {"pr_generation": gen}, "PR no reservation")
    try:
        R.unmarshall_datain(struct.pack(">II16x", 1, 8))
        check(False, "PR read reservation bad length accepted")
    except ValueError:
        check(True, "")
    C = PersistentReserveInReportCapabilities
    for i in range(80):
        b2, b3, m4, m5 = rng.getrandbits(8), rng.getrandbits(8), rng.getrandbits(8), rng.getrandbits(8)
        data = bytes([0, 8, b2, b3, m4, m5, 0, 0])
        expected = {
            "ptpl_c": b2 & 1,
            "atp_c": (b2 >> 2) & 1,
            "sip_c": (b2 >> 3) & 1,
            "crh": (b2 >> 4) & 1,
            "rlr_c": (b2 >> 7) & 1,
            "ptpl_a": b3 & 1,
            "allow_commands": (b3 >> 4) & 7,
            "tmv": (b3 >> 7) & 1,
            "pr_type_mask": {
                "wr_ex": (m4 >> 1) & 1,
                "ex_ac": (m4 >> 3) & 1,
                "wr_ex_ro": (m4 >> 5) & 1,
                "ex_ac_ro": (m4 >> 6) & 1,
                "wr_ex_ar": (m4 >> 7) & 1,
                "ex_ac_ar": m5 & 1,
            },
        }
        eq(C.unmarshall_datain(data), expected, "PR report capabilities")
    eq(C.unmarshall_datain(bytes(8)), {}, "PR report capabilities empty")

    F = PersistentReserveInReadFullStatus
    for i in range(200):
        k = i % 7
        if k == 0:
            name = rbytes(8)
            tid = {"tpid_format": 0, "protocol_id": 0x00, "n_port_name": name}
            raw = bytearray(24)
            raw[8:16] = name
        elif k == 1:
            name = rbytes(8)
            tid = {"tpid_format": 0, "protocol_id": 0x03, "eui64_name": name}
            raw = bytearray(24)
            raw[0] = 0x03
            raw[8:16] = name
        elif k == 2:
            name = rbytes(16)
            tid = {"tpid_format": 0, "protocol_id": 0x04, "initiator_port_identifier": name}
            raw = bytearray(24)
            raw[0] = 0x04
            raw[8:24] = name
        elif k == 3:
            name = rbytes(8)
            tid = {"tpid_format": 0, "protocol_id": 0x06, "sas_address": name}
            raw = bytearray(24)
            raw[0] = 0x06
            raw[4:12] = name
        elif k == 4:
            name = rbytes(8)
            tid = {"tpid_format": 0, "protocol_id": 0x0A, "routing_id": name}
            raw = bytearray(24)
            raw[0] = 0x0A
            raw[4:12] = name
        elif k == 5:
            iqn = "iqn.2003-01.org.example:" + "n" * rng.randint(0, 11)
            tid = {"tpid_format": 0, "protocol_id": 0x05, "iscsi_name": iqn}
            padded = iqn.encode() + b"\0"
            padded += b"\0" * (-len(padded) % 4)
            raw = bytearray([0x05, 0]) + len(padded).to_bytes(2, "big") + padded
        else:
            iqn = "iqn.2003-01.org.example:" + "m" * rng.randint(0, 11)
            isid = "%012x" % rng.getrandbits(48)
            tid = {"tpid_format": 1, "protocol_id": 0x05, "iscsi_name": iqn, "iscsi_initiator_session_id": isid}
            padded = (iqn + ",i,0x" + isid).encode() + b"\0"
            padded += b"\0" * (-len(padded) % 4)
            raw = bytearray([0x45, 0]) + len(padded).to_bytes(2, "big") + padded
        eq(bytes(F.marshall_transport_id(tid)), bytes(raw), "transport id build %d" % k)
        eq(F.unmarshall_transport_id(raw), tid, "transport id parse %d" % k)
        eq(F.unmarshall_transport_id(F.marshall_transport_id(tid)), tid, "transport id roundtrip %d" % k)
        eq(bytes(F.marshall_transport_id(F.unmarshall_transport_id(raw))), bytes(raw), "transport id rebuild %d" % k)
        # inside a full status descriptor
        gen, key = rng.getrandbits(32), rng.getrandbits(64)
        flags, st, rtpi = rng.getrandbits(2), rng.getrandbits(8), rng.getrandbits(16)
        desc = struct.pack(">Q4xBB4xHI", key, flags, st, rtpi, len(raw)) + bytes(raw)
        data = struct.pack(">II", gen, 2 * len(desc)) + desc + desc
        one = {
            "reservation_key": key,
            "r_holder": flags & 1,
            "all_tg_pt": flags >> 1,
            "scope": st >> 4,
            "type": st & 15,
            "relative_target_port_id": rtpi,
            "transport_id": tid,
        }
        eq(F.unmarshall_datain(data), {"pr_generation": gen, "full_status": [one, one]}, "PR full status %d" % k)
    eq(F.unmarshall_datain(struct.pack(">II", 9, 0)), {"pr_generation": 9, "full_status": []}, "PR full status empty")
    keys = bytearray(struct.pack(">IIQ", 3, 8, 0xABCDEF))
    with SCSI(FakeDevice(0, lambda cmd: keys)) as s:
        cmd = s.persistentreservein(sbc.PERSISTENT_RESERVE_IN.serviceaction.READ_KEYS)
        eq(cmd.result, {"pr_generation": 3, "reservation_keys": [0xABCDEF]}, "PR read keys via SCSI")


# ==========================================================================
# READ DISC INFORMATION and READ CD (parse only)
# ==========================================================================
def check_mmc():
    D = ReadDiscInformation
    for i in range(60):
        data = rbytes(34)
        data[0:2] = (32).to_bytes(2, "big")
        data[2] &= 0x1F
        r = D.unmarshall_datain(data)
        eq(r["disc_information_length"], 32, "disc info length")
        eq(r["erasable"], (data[2] >> 4) & 1, "disc info erasable")
        eq(r["state_of_last_session"], (data[2] >> 2) & 3, "disc info state")
        eq(r["disc_status"], data[2] & 3, "disc info status")
        eq(r["number_of_sessions"], data[9] * 256 + data[4], "disc info sessions")
        eq(r["first_track_number_in_last_session"], data[10] * 256 + data[5], "disc info first track")
        eq(r["last_track_number_in_last_session"], data[11] * 256 + data[6], "disc info last track")
        eq(r["disc_identification"], int.from_bytes(data[12:16], "big"), "disc info id")
        eq(r["last_session_lead_in_start_address"], data[16:20], "disc info lead in")
        eq(r["disc_bar_code"], data[24:32], "disc info bar code")
        eq(r["number_of_opc_tables"], data[33], "disc info opc")
        check("number_of_sessions_msb" not in r and "number_of_sessions_lsb" not in r, "disc info msb/lsb folded")
        data[2] = (1 << 5) | (data[2] & 0x1F)
        r = D.unmarshall_datain(data)
        eq(r["maximum_possible_number_of_the_tracks"], int.from_bytes(data[4:6], "big"), "track resources")
        eq(r["current_number_of_appendable_tracks"], int.from_bytes(data[10:12], "big"), "track resources 2")
        data[2] = (2 << 5) | (data[2] & 0x1F)
        r = D.unmarshall_datain(data)
        eq(r["remaining_pow_replacements"], int.from_bytes(data[4:8], "big"), "pow resources")
        eq(r["number_of_remaining_pow_updates"], int.from_bytes(data[12:16], "big"), "pow resources 2")
    with SCSI(FakeDevice(5, lambda cmd: data)) as s:
        eq(s.readdiscinformation(2, alloc_len=34).result["disc_information_data_type"], 2, "disc info via SCSI")

    # READ CD: mode 1 sector with everything, two sectors
    for i in range(20):
        sectors = []
        data = bytearray()
        for _ in range(2):
            sync, hdr, user, edc, pp, qp = rbytes(12), rbytes(4), rbytes(2048), rbytes(4), rbytes(172), rbytes(104)
            c2, sub = rbytes(294), rbytes(16)
            data += sync + hdr + user + edc + bytes(8) + pp + qp + c2 + sub
            sectors.append((sync, hdr, user, edc, pp, qp, c2, sub))
        lba = rng.randint(0, 5000)
        r = ReadCd.unmarshall_datain(data, lba=lba, tl=2, est=2, mcsb=0x1F, c2ei=1, scsb=2)
        eq(sorted(r), [lba, lba + 1], "read cd lbas")
        for k, (sync, hdr, user, edc, pp, qp, c2, sub) in enumerate(sectors):
            x = r[lba + k]
            eq(x["sync"], sync, "read cd sync")
            eq(x["sector-header"], {"minute": hdr[0], "second": hdr[1], "frame": hdr[2], "mode": hdr[3]}, "read cd header")
            eq(x["data"], user, "read cd data")
            eq(x["edc"], edc, "read cd edc")
            eq(x["p-parity"], pp, "read cd p")
            eq(x["q-parity"], qp, "read cd q")
            eq(x["c2ei-data"], c2, "read cd c2")
            eq(x["subchannel"]["data"], sub, "read cd subchannel data")
            eq(x["subchannel"]["adr"], sub[0] & 15, "read cd adr")
            eq(x["subchannel"]["crc"], int.from_bytes(sub[10:12], "big"), "read cd crc")
            eq(x["subchannel"]["p"], sub[15] >> 7, "read cd p bit")
        check("sector-subheader" not in r[lba], "read cd no subheader for mode 1")
        # mode 2 form 1 with sub headers, raw subchannel
        sh1, sh2, user, sub = rbytes(4), rbytes(4), rbytes(2048), rbytes(96)
        data = sh1 + sh2 + user + sub
        r = ReadCd.unmarshall_datain(data, lba=7, tl=1, est=4, mcsb=0x0A, scsb=4)
        eq(r[7]["sector-subheader"][0], {"file-number": sh1[0], "channel-number": sh1[1], "sub-mode": sh1[2], "data": sh1}, "read cd subheader 1")
        eq(r[7]["sector-subheader"][1]["data"], sh2, "read cd subheader 2")
        eq(r[7]["data"], user, "read cd form 1 data")
        eq(r[7]["subchannel"], {"data": sub}, "read cd raw subchannel")
    cdda = rbytes(2352)
    with SCSI(FakeDevice(5, lambda cmd: cdda)) as s:
        cmd = s.readcd(10, 1, est=1, mcsb=0x02)
        eq(cmd.result, {10: {"data": cdda}}, "read cd via SCSI")
    for bad in ({"est": 3, "mcsb": 0x03}, {"est": 2, "mcsb": 0x05}):
        try:
            ReadCd.unmarshall_datain(rbytes(3000), lba=0, tl=1, **bad)
            check(False, "read cd invalid combination accepted %r" % bad)
        except ValueError:
            check(True, "")


def main():
    check_readcapacity()
    check_getlbastatus()
    check_reportluns()
    check_tpg()
    check_readelementstatus()
    check_modesense()
    check_swp_tool()
    check_inquiry()
    check_persistentreservein()
    check_mmc()
    if FAILURES:
        print("FAIL: %d of %d checks failed" % (len(FAILURES), CHECKS))
        return 1
    print("PASS (%d checks)" % CHECKS)
    return 0


if __name__ == "__main__":
    sys.exit(main())
