#!/usr/bin/env python
"""
Demo / check for property C19 (optional SG_IO and iSCSI bindings).

Run as:
    cd /tmp/seed/C19u && PYTHONPATH=/tmp/seed/C19u /venv/bin/python SEED/demo.py

The library is imported four times (neither / sgio only / iscsi only / both
bindings "installed").  The bindings are small fakes put into sys.modules; a
missing binding is simulated with ``sys.modules[name] = None`` which makes
``import name`` raise ImportError.
"""
import builtins
import configparser
import importlib
import os
import pkgutil
import socket
import sys
import types

HERE = os.path.dirname(os.path.abspath(__file__))
ROOT = os.path.dirname(HERE)

CHECKS = 0


def check(cond, what):
    global CHECKS
    CHECKS += 1
    if not cond:
        raise AssertionError(what)


def raises(exc_type, fn, *args, **kwargs):
    """Call fn; return the exception if it is *exactly* of exc_type family."""
    try:
        fn(*args, **kwargs)
    except exc_type as e:
        return e
    except BaseException as e:  # noqa
        raise AssertionError(
            "expected %s from %r%r, got %r" % (exc_type.__name__, fn, args, e)
        )
    raise AssertionError("expected %s from %r%r, got no exception" % (exc_type.__name__, fn, args))


# --------------------------------------------------------------------------
# fake bindings
# --------------------------------------------------------------------------
def make_fake_sgio(log):
    m = types.ModuleType("sgio")

    class CheckConditionError(Exception):
        def __init__(self, sense):
            Exception.__init__(self, "check condition")
            self.sense = sense

    def execute(fobj, cdb, dataout, datain, *rest, **kw):
        log.append(("sgio.execute", fobj, bytes(cdb), dataout, datain))
        action = m.next_action
        if action is not None:
            m.next_action = None
            action(fobj, cdb, dataout, datain)
        # answer INQUIRY (opcode 0x12, standard page) with a device type
        if cdb[0] == 0x12 and not (cdb[1] & 1) and len(datain):
            datain[0] = m.device_type & 0x1F
        return 0

    m.CheckConditionError = CheckConditionError
    m.execute = execute
    m.next_action = None
    m.device_type = 0
    return m


def make_fake_iscsi(log):
    m = types.ModuleType("iscsi")
    m.SCSI_XFER_NONE = 0
    m.SCSI_XFER_READ = 1
    m.SCSI_XFER_WRITE = 2
    m.ISCSI_SESSION_NORMAL = 2
    m.ISCSI_HEADER_DIGEST_NONE_CRC32C = 1
    m.next_status = 0
    m.next_sense = None
    m.device_type = 0

    class Context(object):
        def __init__(self, initiator_name):
            self.initiator_name = initiator_name
            log.append(("Context", initiator_name))

        def set_targetname(self, v):
            log.append(("set_targetname", self, v))

        def set_session_type(self, v):
            log.append(("set_session_type", self, v))

        def set_header_digest(self, v):
            log.append(("set_header_digest", self, v))

        def connect(self, portal, lun):
            log.append(("connect", self, portal, lun))

        def disconnect(self):
            log.append(("disconnect", self))

        def command(self, lun, task, dataout, datain):
            log.append(("command", self, lun, task, dataout, datain))
            task.status = m.next_status
            m.next_status = 0
            if m.next_sense is not None:
                task.raw_sense = m.next_sense
                m.next_sense = None
            if task.cdb[0] == 0x12 and not (task.cdb[1] & 1) and len(datain):
                datain[0] = m.device_type & 0x1F

    class URL(object):
        def __init__(self, ctx, url):
            log.append(("URL", ctx, url))
            self.url = url
            rest = url[len("iscsi://"):]
            parts = rest.split("/")
            self.portal = parts[0]
            self.target = parts[1] if len(parts) > 1 else ""
            try:
                self.lun = int(parts[2])
            except (IndexError, ValueError):
                self.lun = 0

    class Task(object):
        def __init__(self, cdb, direction, xferlen):
            log.append(("Task", bytes(cdb), direction, xferlen))
            self.cdb = cdb
            self.direction = direction
            self.xferlen = xferlen
            self.status = None

    m.Context = Context
    m.URL = URL
    m.Task = Task
    return m


# --------------------------------------------------------------------------
# recording replacements for open() and os.stat()
# --------------------------------------------------------------------------
class FakeFile(object):
    def __init__(self, name, mode, buffering):
        self.name = name
        self.mode = mode
        self.buffering = buffering
        self.closed = False
        self.close_calls = 0

    def close(self):
        self.closed = True
        self.close_calls += 1

    def fileno(self):
        return 99


class IO(object):
    """Patches builtins.open and os.stat; everything is recorded."""

    def __init__(self):
        self.opens = []  # (file, mode, buffering, FakeFile)
        self.stats = []
        self.inodes = {}
        self.missing = set()
        self._real_open = builtins.open
        self._real_stat = os.stat

    def _is_dev(self, path):
        return isinstance(path, str) and path[:5] == "/dev/"

    def fake_open(self, file, mode="r", buffering=-1, *args, **kwargs):
        if not self._is_dev(file):
            # anything else would be a bug for this demo: record it, then behave
            self.opens.append((file, mode, buffering, None))
            return self._real_open(file, mode, buffering, *args, **kwargs)
        if file in self.missing:
            self.opens.append((file, mode, buffering, None))
            raise FileNotFoundError(2, "No such file or directory", file)
        f = FakeFile(file, mode, buffering)
        self.opens.append((file, mode, buffering, f))
        return f

    def fake_stat(self, path, *args, **kwargs):
        if not self._is_dev(path):
            return self._real_stat(path, *args, **kwargs)
        self.stats.append(path)
        return types.SimpleNamespace(st_ino=self.inodes.get(path, 4242))

    def __enter__(self):
        builtins.open = self.fake_open
        os.stat = self.fake_stat
        return self

    def __exit__(self, *exc):
        builtins.open = self._real_open
        os.stat = self._real_stat


# --------------------------------------------------------------------------
# (re-)loading the library under a given binding configuration
# --------------------------------------------------------------------------
def purge():
    for name in list(sys.modules):
        if name == "pyscsi" or name.startswith("pyscsi."):
            del sys.modules[name]


def load(have_sgio, have_iscsi, log):
    purge()
    sys.modules["sgio"] = make_fake_sgio(log) if have_sgio else None
    sys.modules["iscsi"] = make_fake_iscsi(log) if have_iscsi else None
    importlib.invalidate_caches()
    pyscsi = importlib.import_module("pyscsi")
    return pyscsi


EXPECTED_ALL = [
    "scsi",
    "scsi_cdb_exchangemedium",
    "scsi_cdb_getlbastatus",
    "scsi_cdb_initelementstatus",
    "scsi_cdb_initelementstatuswithrange",
    "scsi_cdb_inquiry",
    "scsi_cdb_modesense6",
    "scsi_cdb_modesense10",
    "scsi_cdb_movemedium",
    "scsi_cdb_openclose_exportimport_element",
    "scsi_cdb_positiontoelement",
    "scsi_cdb_preventallow_mediumremoval",
    "scsi_cdb_read10",
    "scsi_cdb_read12",
    "scsi_cdb_read16",
    "scsi_cdb_readcapacity16",
    "scsi_cdb_readcapacity10",
    "scsi_cdb_readcd",
    "scsi_cdb_readelementstatus",
    "scsi_cdb_readdiscinformation",
    "scsi_cdb_report_luns",
    "scsi_cdb_report_priority",
    "scsi_cdb_synchronize_cache10",
    "scsi_cdb_synchronize_cache16",
    "scsi_cdb_testunitready",
    "scsi_cdb_write10",
    "scsi_cdb_write12",
    "scsi_cdb_write16",
    "scsi_cdb_writesame10",
    "scsi_cdb_writesame16",
    "scsi_command",
    "scsi_device",
    "scsi_exception",
    "scsi_sense",
]

DEVICE_EXCEPTIONS = [
    "CheckCondition",
    "ConditionsMet",
    "BusyStatus",
    "ReservationConflict",
    "TaskSetFull",
    "ACAActive",
    "TaskAborted",
    "CommandNotImplemented",
    "MissingBlocksizeException",
    "OpcodeException",
]


# --------------------------------------------------------------------------
# part 1: every module imports, star imports work
# --------------------------------------------------------------------------
def check_imports(pyscsi):
    names = []
    for info in pkgutil.walk_packages(pyscsi.__path__, "pyscsi."):
        names.append(info.name)
        mod = importlib.import_module(info.name)
        check(sys.modules[info.name] is mod, "module %s registered" % info.name)
    for required in (
        "pyscsi.utils",
        "pyscsi.utils.converter",
        "pyscsi.utils.enum",
        "pyscsi.utils.exception",
        "pyscsi.pyscsi",
        "pyscsi.pyscsi.scsi",
        "pyscsi.pyscsi.scsi_device",
        "pyscsi.pyscsi.scsi_exception",
        "pyscsi.pyscsi.scsi_sense",
        "pyscsi.pyscsi.scsi_command",
        "pyscsi.pyscsi.scsi_enum_command",
        "pyscsi.pyiscsi",
        "pyscsi.pyiscsi.iscsi_device",
    ):
        check(required in names, "module %s is part of the package" % required)
    check(len([n for n in names if n.startswith("pyscsi.pyscsi.scsi_cdb_")]) == 36, "36 cdb modules")

    import pyscsi.pyscsi as inner
    import pyscsi.pyiscsi as inner_i
    import pyscsi.utils as utils

    check(list(inner.__all__) == EXPECTED_ALL, "pyscsi.pyscsi.__all__ unchanged")
    check(list(inner_i.__all__) == ["iscsi_device"], "pyscsi.pyiscsi.__all__ unchanged")

    ns = {}
    exec("from pyscsi import *", ns)
    for n in EXPECTED_ALL:
        check(isinstance(ns.get(n), types.ModuleType), "from pyscsi import * gives module %s" % n)
        check(ns[n] is sys.modules["pyscsi.pyscsi." + n], "star import %s is the real module" % n)
        check(getattr(pyscsi, n) is ns[n], "pyscsi.%s" % n)
    check(ns["init_device"] is utils.init_device, "init_device star-exported from pyscsi")
    check(pyscsi.init_device is utils.init_device, "pyscsi.init_device")
    for n in ("scsi_int_to_ba", "scsi_ba_to_int", "decode_bits", "encode_dict", "get_opcode", "Enum", "socket"):
        check(n in ns and ns[n] is getattr(utils, n), "utils name %s star-exported" % n)

    ns = {}
    exec("from pyscsi.pyscsi import *", ns)
    check(sorted(k for k in ns if k != "__builtins__") == sorted(EXPECTED_ALL), "from pyscsi.pyscsi import *")
    ns = {}
    exec("from pyscsi.pyiscsi import *", ns)
    check(sorted(k for k in ns if k != "__builtins__") == ["iscsi_device"], "from pyscsi.pyiscsi import *")
    ns = {}
    exec("from pyscsi.utils import init_device", ns)
    check(ns["init_device"] is utils.init_device, "from pyscsi.utils import init_device")

    from pyscsi.pyiscsi.iscsi_device import ISCSIDevice
    from pyscsi.pyscsi.scsi_device import SCSIDevice, get_inode

    check(callable(get_inode), "get_inode public helper")
    check(SCSIDevice.__name__ == "SCSIDevice" and ISCSIDevice.__name__ == "ISCSIDevice", "class names")
    check(SCSIDevice.__module__ == "pyscsi.pyscsi.scsi_device", "SCSIDevice module")
    check(ISCSIDevice.__module__ == "pyscsi.pyiscsi.iscsi_device", "ISCSIDevice module")
    from pyscsi.pyscsi.scsi_sense import SCSICheckCondition

    for cls in (SCSIDevice, ISCSIDevice):
        for n in DEVICE_EXCEPTIONS:
            e = getattr(cls, n)
            check(isinstance(e, type) and issubclass(e, Exception), "%s.%s" % (cls.__name__, n))
        check(issubclass(cls.CheckCondition, SCSICheckCondition), "CheckCondition base")
        for prop in ("opcodes", "devicetype"):
            p = getattr(cls, prop)
            check(isinstance(p, property) and p.fset is not None, "%s.%s is a rw property" % (cls.__name__, prop))
        for meth in ("open", "close", "execute", "__enter__", "__exit__"):
            check(callable(getattr(cls, meth)), "%s.%s" % (cls.__name__, meth))
    check(SCSIDevice.CheckCondition is not ISCSIDevice.CheckCondition, "per-class exceptions")

    import inspect

    sig = inspect.signature(utils.init_device)
    check(list(sig.parameters) == ["dev", "read_write", "initiator_name"], "init_device signature")
    check(sig.parameters["read_write"].default is False, "init_device read_write default")
    check(
        sig.parameters["initiator_name"].default == "iqn.2018-01.org.pyscsi:%s" % socket.gethostname(),
        "init_device initiator default",
    )
    sig = inspect.signature(SCSIDevice.__init__)
    check(
        list(sig.parameters) == ["self", "device", "readwrite", "detect_replugged", "buffering"],
        "SCSIDevice signature",
    )
    check(
        [sig.parameters[k].default for k in ("readwrite", "detect_replugged", "buffering")] == [False, True, -1],
        "SCSIDevice defaults",
    )
    sig = inspect.signature(ISCSIDevice.__init__)
    check(list(sig.parameters) == ["self", "device", "initiator_name"], "ISCSIDevice signature")
    check(sig.parameters["initiator_name"].default == "", "ISCSIDevice default")


# --------------------------------------------------------------------------
# part 2: commands build / encode / decode, facade over any device object
# --------------------------------------------------------------------------
class PlainDevice(object):
    """A device that is not related to the library classes at all."""

    def __init__(self, opcodes, devtype=0):
        self.opcodes = opcodes
        self.devtype = devtype
        self.executed = []
        self.closed = 0

    def execute(self, cmd, en_raw_sense=False):
        self.executed.append((cmd, en_raw_sense))
        if cmd.cdb[0] == 0x12 and not (cmd.cdb[1] & 1):
            cmd.datain[0] = self.devtype

    def close(self):
        self.closed += 1


class PropertyDevice(object):
    _opcodes = None
    _devicetype = None

    def __init__(self, opcodes, devtype=0):
        self._opcodes = opcodes
        self.devtype = devtype
        self.closed = 0

    @property
    def opcodes(self):
        return self._opcodes

    @opcodes.setter
    def opcodes(self, v):
        self._opcodes = v

    @property
    def devicetype(self):
        return self._devicetype

    @devicetype.setter
    def devicetype(self, v):
        self._devicetype = v

    def execute(self, cmd, en_raw_sense=False):
        if cmd.cdb[0] == 0x12 and not (cmd.cdb[1] & 1):
            cmd.datain[0] = self.devtype

    def close(self):
        self.closed += 1


def command_battery(s, enumc):
    """(name, builder, expected opcode, cdb length, {field: value} decoded)"""
    data = bytearray(512)
    return [
        ("inquiry", lambda: s.inquiry(), 0x12, 6, {"evpd": 0, "page_code": 0, "alloc_len": 96}),
        ("inquiry vpd", lambda: s.inquiry(evpd=1, page_code=0x83, alloclen=255), 0x12, 6,
         {"evpd": 1, "page_code": 0x83, "alloc_len": 255}),
        ("testunitready", lambda: s.testunitready(), 0x00, 6, {}),
        ("read10", lambda: s.read10(1024, 27), 0x28, 10, {"lba": 1024, "tl": 27}),
        ("read10 opts", lambda: s.read10(2 ** 32 - 1, 65535, rdprotect=2, dpo=1, fua=1, rarc=1, group=19), 0x28, 10,
         {"lba": 2 ** 32 - 1, "tl": 65535, "rdprotect": 2, "dpo": 1, "fua": 1, "rarc": 1, "group": 19}),
        ("read12", lambda: s.read12(1024, 27), 0xA8, 12, {"lba": 1024, "tl": 27}),
        ("read16", lambda: s.read16(2 ** 40, 27, fua=1), 0x88, 16, {"lba": 2 ** 40, "tl": 27, "fua": 1}),
        ("write10", lambda: s.write10(7, 1, data), 0x2A, 10, {"lba": 7, "tl": 1}),
        ("write12", lambda: s.write12(7, 1, data, dpo=1), 0xAA, 12, {"lba": 7, "tl": 1, "dpo": 1}),
        ("write16", lambda: s.write16(2 ** 33, 1, data), 0x8A, 16, {"lba": 2 ** 33, "tl": 1}),
        ("writesame10", lambda: s.writesame10(9, 3, data, unmap=1), 0x41, 10, {"lba": 9, "nb": 3, "unmap": 1}),
        ("writesame16", lambda: s.writesame16(9, 3, data, anchor=1), 0x93, 16, {"lba": 9, "nb": 3, "anchor": 1}),
        ("readcapacity10", lambda: s.readcapacity10(), 0x25, 10, {}),
        ("readcapacity16", lambda: s.readcapacity16(alloclen=64), 0x9E, 16, {"alloc_len": 64}),
        ("synchronizecache10", lambda: s.synchronizecache10(5, 6, immed=1), 0x35, 10,
         {"lba": 5, "numblks": 6, "immed": 1}),
        ("synchronizecache16", lambda: s.synchronizecache16(5, 6), 0x91, 16, {"lba": 5, "numblks": 6}),
        ("getlbastatus", lambda: s.getlbastatus(19), 0x9E, 16, {"lba": 19}),
        ("modesense6", lambda: s.modesense6(0x1C, sub_page_code=3, dbd=1), 0x1A, 6,
         {"page_code": 0x1C, "sub_page_code": 3, "dbd": 1}),
        ("modesense10", lambda: s.modesense10(0x1C, llbaa=1), 0x5A, 10, {"page_code": 0x1C, "llbaa": 1}),
        ("reportluns", lambda: s.reportluns(report=2, alloclen=112), 0xA0, 12, {"select_report": 2, "alloc_len": 112}),
        ("reportpriority", lambda: s.reportpriority(priority=2, alloclen=112), 0xA3, 12, None),
        ("reporttargetportgroups", lambda: s.reporttargetportgroups(data_format=1, alloclen=1000), 0xA3, 12, None),
        ("preventallow", lambda: s.preventallowmediumremoval(prevent=3), 0x1E, 6, {"prevent": 3}),
    ]


def smc_battery(s):
    return [
        ("movemedium", lambda: s.movemedium(15, 32, 64, invert=1), 0xA5, 12,
         {"medium_transport_address": 15, "source_address": 32, "destination_address": 64, "invert": 1}),
        ("exchangemedium", lambda: s.exchangemedium(15, 32, 64, 32, inv1=1), 0xA6, 12, None),
        ("positiontoelement", lambda: s.positiontoelement(15, 32, invert=1), 0x2B, 10, None),
        ("initelementstatus", lambda: s.initializeelementstatus(), 0x07, 6, {}),
        ("initelementstatuswithrange", lambda: s.initializeelementstatuswithrange(15, 3, rng=1, fast=1), 0x37, 10, None),
        ("readelementstatus", lambda: s.readelementstatus(300, 700, element_type=2, voltag=1, curdata=1, dvcid=1),
         0xB8, 12, None),
        ("openclose", lambda: s.opencloseimportexportelement(32, 1), 0x1B, 6, None),
    ]


def run_battery(battery):
    for name, build, opcode, length, fields in battery:
        cmd = build()
        cdb = cmd.cdb
        check(isinstance(cdb, bytearray), "%s: cdb is a bytearray" % name)
        check(len(cdb) == length, "%s: cdb length %d == %d" % (name, len(cdb), length))
        check(cdb[0] == opcode, "%s: opcode byte %#x == %#x" % (name, cdb[0], opcode))
        decoded = cmd.unmarshall_cdb(cdb)
        check(decoded["opcode"] == opcode, "%s: decoded opcode" % name)
        for k, v in (fields or {}).items():
            check(decoded[k] == v, "%s: decoded %s == %r (got %r)" % (name, k, v, decoded.get(k)))
        again = type(cmd).marshall_cdb(decoded)
        check(bytes(again) == bytes(cdb), "%s: marshall(unmarshall(cdb)) == cdb" % name)
        check(type(cmd).unmarshall_cdb(again) == decoded, "%s: round trip" % name)
        check(repr(cmd) == type(cmd).__name__, "%s: repr" % name)


def check_commands_and_facade(pyscsi):
    from pyscsi.pyscsi import scsi_enum_command as enumc
    from pyscsi.pyscsi.scsi import SCSI
    from pyscsi.pyscsi.scsi_cdb_inquiry import Inquiry
    from pyscsi.pyscsi.scsi_cdb_read16 import Read16
    from pyscsi.pyscsi.scsi_cdb_readcapacity10 import ReadCapacity10
    from pyscsi.pyscsi.scsi_cdb_readcapacity16 import ReadCapacity16

    expected_map = {
        0x00: enumc.sbc, 0x04: enumc.sbc, 0x07: enumc.sbc,
        0x01: enumc.ssc, 0x02: enumc.ssc, 0x09: enumc.ssc,
        0x03: enumc.spc, 0x08: enumc.smc, 0x05: enumc.mmc,
    }
    sentinel = object()
    for devcls in (PlainDevice, PropertyDevice):
        for devtype, opcodes in expected_map.items():
            dev = devcls(enumc.spc, devtype)
            s = SCSI(dev, 512)
            check(s.device is dev, "facade keeps the device object")
            check(dev.devicetype == devtype, "facade stored the device type %d" % devtype)
            check(dev.opcodes is opcodes, "facade selected opcodes for type %d" % devtype)
            check(s.blocksize == 512, "blocksize")
        # an unknown device type leaves the opcodes alone
        dev = devcls(sentinel and enumc.spc, 0x1F)
        SCSI(dev)
        check(dev.opcodes is enumc.spc and dev.devicetype == 0x1F, "unknown type keeps opcodes")
        # facade as a context manager closes the device; __call__ swaps it
        dev = devcls(enumc.spc, 0)
        with SCSI(dev) as s:
            check(dev.closed == 0, "not closed inside with")
            dev2 = devcls(enumc.spc, 8)
            s(dev2)
            check(s.device is dev2 and dev2.opcodes is enumc.smc, "__call__ re-initialises with the new device")
            s(dev)
        check(dev.closed == 1 and dev2.closed == 0, "facade closed its device on exit")
        # SCSI(None) is allowed (no inquiry is sent)
        s = SCSI(None)
        check(s.device is None, "facade over None")

        # build / encode / decode
        dev = devcls(enumc.spc, 0)
        s = SCSI(dev, 512)
        run_battery(command_battery(s, enumc))
        dev = devcls(enumc.spc, 8)
        s = SCSI(dev)
        check(dev.opcodes is enumc.smc, "smc device")
        run_battery(smc_battery(s))

    # missing blocksize is still diagnosed by the commands
    s = SCSI(PlainDevice(enumc.spc, 0))
    from pyscsi.pyscsi.scsi_command import SCSICommand

    raises(SCSICommand.MissingBlocksizeException, s.read16, 0, 1)

    # decoding of returned data
    dev = PlainDevice(enumc.spc, 0)
    s = SCSI(dev, 512)
    i = s.inquiry()
    check(i.result["peripheral_device_type"] == 0, "inquiry decoded")
    raw = bytearray(96)
    raw[0] = 0x05
    raw[1] = 0x80
    raw[2] = 0x06
    raw[4] = 91
    raw[8:16] = b"VENDOR  "
    raw[16:32] = b"PRODUCT         "
    raw[32:36] = b"0001"
    d = Inquiry.unmarshall_datain(raw)
    check(d["peripheral_device_type"] == 5 and d["rmb"] == 1 and d["version"] == 6, "inquiry fields")
    check(d["t10_vendor_identification"] == bytearray(b"VENDOR  "), "inquiry vendor")
    check(bytes(Inquiry.marshall_datain(d))[:36] == bytes(raw)[:36], "inquiry re-encoded")
    rc = ReadCapacity10.unmarshall_datain(bytearray([0, 0, 0x10, 0, 0, 0, 2, 0]))
    check(rc == {"returned_lba": 0x1000, "block_length": 512}, "readcapacity10 decoded")
    check(bytes(ReadCapacity10.marshall_datain(rc)) == bytes([0, 0, 0x10, 0, 0, 0, 2, 0]), "readcapacity10 encoded")
    raw = bytearray(32)
    raw[7] = 0xFF
    raw[10] = 0x10
    raw[12] = 0x05
    rc = ReadCapacity16.unmarshall_datain(raw)
    check(rc["returned_lba"] == 0xFF and rc["block_length"] == 4096 and rc["p_type"] == 2 and rc["prot_en"] == 1,
          "readcapacity16 decoded")
    check(bytes(ReadCapacity16.marshall_datain(rc)) == bytes(raw), "readcapacity16 encoded")

    # a real pass through the facade result path
    def fill(cmd):
        if cmd.cdb[0] == 0x25:
            cmd.datain[:] = bytearray([0, 0, 0x10, 0, 0, 0, 2, 0])

    class FillingDevice(PlainDevice):
        def execute(self, cmd, en_raw_sense=False):
            PlainDevice.execute(self, cmd, en_raw_sense)
            fill(cmd)

    s = SCSI(FillingDevice(enumc.spc, 0))
    check(s.readcapacity10().result == {"returned_lba": 0x1000, "block_length": 512}, "facade decodes device data")

    # errors raised by the device pass through the facade unchanged
    class Boom(Exception):
        pass

    class FailingDevice(PlainDevice):
        def execute(self, cmd, en_raw_sense=False):
            if cmd.cdb[0] != 0x12:
                raise Boom("x")
            PlainDevice.execute(self, cmd, en_raw_sense)

    s = SCSI(FailingDevice(enumc.spc, 0))
    raises(Boom, s.testunitready)


# --------------------------------------------------------------------------
# part 3: the transports
# --------------------------------------------------------------------------
class StrSub(str):
    pass


NOT_DEV = [
    "", "/", "/dev", "dev/sg0", " /dev/sg0", "/DEV/sg0", "/Dev/sg0", "//dev/sg0", "./dev/sg0", "/dev\\sg0",
    "/devsg0", "/de/v/sg0", "\\dev\\sg0", "sg0", "/tmp/dev/sg0", "/tmp/x", "iscsi://h/t/0", "file:///dev/sg0",
    "/dev\x00/sg0", "\u2215dev\u2215sg0", "/d\u0435v/sg0", b"/dev/sg0", bytearray(b"/dev/sg0"),
    StrSub("dev/sg0"), ["/", "d", "e", "v", "/"], ("/dev/",),
]
IS_DEV = [
    "/dev/sg0", "/dev/null", "/dev/", "/dev//sg0", "/dev/../etc/passwd", "/dev/disk/by-id/x y", "/dev/sg0\n",
    "/dev/iscsi://x", "/dev/\u00e9", StrSub("/dev/sg1"), "/dev/" + "x" * 300,
]
NOT_ISCSI = [
    "", "iscsi:", "iscsi:/", "iscsi:/h/t/0", "iscsi//h/t/0", "ISCSI://h/t/0", "Iscsi://h/t/0", " iscsi://h/t/0",
    "iscsi ://h/t/0", "iscsis://h/t/0", "iser://h/t/0", "scsi://h/t/0", "http://iscsi://h", "/dev/sg0", "/dev/",
    "iscsi:\\\\h", b"iscsi://h/t/0", bytearray(b"iscsi://h/t/0"), StrSub("iscsi:/h"), ("iscsi://",),
    list("iscsi://"),
]
IS_ISCSI = [
    "iscsi://127.0.0.1/iqn.2001-04.com.example:storage/0", "iscsi://h/t/0", "iscsi://", "iscsi:///",
    "iscsi://user%pw@host:3260/iqn.x/12", "iscsi://[::1]:3260/t/1", "iscsi:///dev/sg0",
    StrSub("iscsi://h/t/3"), "iscsi://" + "h" * 200 + "/t/1",
]


def message_for(dev):
    return "No backend implemented for %s" % dev


def refused(io, log, fn, *args, **kwargs):
    """fn(dev, ...) must raise NotImplementedError without touching anything."""
    dev = args[0] if args else kwargs["device"] if "device" in kwargs else kwargs["dev"]
    n_open, n_stat, n_log = len(io.opens), len(io.stats), len(log)
    if isinstance(dev, tuple):
        # "%s" % tuple is special in the original code, too: the call is
        # still refused with an exception and nothing is opened
        try:
            fn(*args, **kwargs)
        except (NotImplementedError, TypeError):
            pass
        else:
            raise AssertionError("%r(%r) was not refused" % (fn, dev))
    else:
        e = raises(NotImplementedError, fn, *args, **kwargs)
        check(type(e) is NotImplementedError, "exact exception type for %r" % (dev,))
        check(e.args == (message_for(dev),), "message for %r: %r" % (dev, e.args))
    check(len(io.opens) == n_open, "no file opened for refused %r" % (dev,))
    check(len(io.stats) == n_stat, "no stat for refused %r" % (dev,))
    check(len(log) == n_log, "no binding activity for refused %r" % (dev,))


def sense_fixed(key, asc, ascq):
    s = bytearray(18)
    s[0] = 0x70
    s[2] = key
    s[7] = 10
    s[12] = asc
    s[13] = ascq
    return s


def check_sgio_transport(pyscsi, have_sgio, io, log):
    from pyscsi.pyscsi import scsi_enum_command as enumc
    from pyscsi.pyscsi.scsi import SCSI
    from pyscsi.pyscsi.scsi_device import SCSIDevice
    from pyscsi.pyscsi.scsi_sense import SCSICheckCondition
    from pyscsi.utils import init_device

    for dev in NOT_DEV:
        refused(io, log, SCSIDevice, dev)
        refused(io, log, SCSIDevice, dev, True)
        refused(io, log, SCSIDevice, dev, readwrite=True, detect_replugged=False, buffering=0)

    if not have_sgio:
        for dev in IS_DEV + [None, 7, 3.5, object]:
            refused(io, log, SCSIDevice, dev)
            refused(io, log, SCSIDevice, dev, True, False, 0)
            refused(io, log, SCSIDevice, device=dev, readwrite=True)
        for dev in IS_DEV:
            refused(io, log, init_device, dev)
            refused(io, log, init_device, dev, True)
            refused(io, log, init_device, dev, read_write=True, initiator_name="iqn.x")
            refused(io, log, init_device, dev=dev)
        return

    sgio = sys.modules["sgio"]

    # non-subscriptable "paths" fail as before, and before anything is opened
    for bad in (None, 7, 3.5):
        n = len(io.opens)
        raises(TypeError, SCSIDevice, bad)
        check(len(io.opens) == n, "nothing opened for %r" % (bad,))

    for dev in IS_DEV:
        for args, kwargs, mode, buffering in (
            ((), {}, "rb", -1),
            ((False,), {}, "rb", -1),
            ((True,), {}, "w+b", -1),
            ((True, True, 0), {}, "w+b", 0),
            ((), {"readwrite": True, "buffering": 4096}, "w+b", 4096),
            ((), {"readwrite": 0, "detect_replugged": False}, "rb", -1),
            ((1,), {}, "w+b", -1),
            (("yes",), {"buffering": 1}, "w+b", 1),
            (("",), {}, "rb", -1),
            ((None,), {}, "rb", -1),
        ):
            n_open, n_stat, n_log = len(io.opens), len(io.stats), len(log)
            d = SCSIDevice(dev, *args, **kwargs)
            check(type(d) is SCSIDevice, "SCSIDevice(%r) gives a SCSIDevice" % (dev,))
            check(len(io.opens) == n_open + 1, "exactly one open for %r" % (dev,))
            f_name, f_mode, f_buf, fobj = io.opens[-1]
            check(f_name is dev, "opened exactly the requested path %r (got %r)" % (dev, f_name))
            check(f_mode == mode, "mode %r for %r%r" % (f_mode, args, kwargs))
            check(f_buf == buffering, "buffering %r for %r%r" % (f_buf, args, kwargs))
            check(io.stats[n_stat:] == [dev], "inode of the requested path recorded once")
            check(len(log) == n_log, "no command sent by opening")
            check(not fobj.closed, "file left open")
            check(repr(d) == "SCSIDevice", "repr")
            check(d.opcodes is enumc.spc, "default opcodes are spc")
            raises(AttributeError, lambda: d.devicetype)
            d.devicetype = 5
            d.opcodes = enumc.mmc
            check(d.devicetype == 5 and d.opcodes is enumc.mmc, "device properties")
            d.close()
            check(fobj.closed and fobj.close_calls == 1, "close() closes the file")

    # keyword form and context manager
    with SCSIDevice(device="/dev/sg7", readwrite=True) as d:
        fobj = io.opens[-1][3]
        check(io.opens[-1][:3] == ("/dev/sg7", "w+b", -1), "keyword construction")
        check(not fobj.closed, "open inside with")
        check(d.__enter__() is d, "__enter__ returns the device")
    check(fobj.closed, "closed after with")

    # the failure of open() itself is not disguised
    io.missing.add("/dev/does-not-exist")
    n = len(io.opens)
    e = raises(FileNotFoundError, SCSIDevice, "/dev/does-not-exist")
    check(len(io.opens) == n + 1 and io.opens[-1][0] == "/dev/does-not-exist", "open attempted on the path")
    e = raises(FileNotFoundError, init_device, "/dev/does-not-exist")

    # executing: the binding gets the opened file and the command buffers
    d = SCSIDevice("/dev/sg3", detect_replugged=False)
    fobj = io.opens[-1][3]
    s = SCSI(None, 512)
    s.device = d
    d.opcodes = enumc.sbc
    cmd = s.read10(1, 2)
    check(log[-1][0] == "sgio.execute", "command went to sgio")
    _, got_f, got_cdb, got_out, got_in = log[-1]
    check(got_f is fobj, "sgio got the opened file")
    check(got_cdb == bytes(cmd.cdb) and got_out is cmd.dataout and got_in is cmd.datain, "sgio got the buffers")
    n_stat = len(io.stats)
    d.execute(cmd)
    d.execute(cmd, en_raw_sense=True)
    check(len(io.stats) == n_stat, "detect_replugged=False never stats")

    # check condition handling
    sense = sense_fixed(5, 0x24, 0)

    def fail(fobj, cdb, dataout, datain):
        raise sgio.CheckConditionError(sense)

    sgio.next_action = fail
    e = raises(SCSIDevice.CheckCondition, d.execute, cmd)
    check(isinstance(e, SCSICheckCondition), "CheckCondition is a SCSICheckCondition")
    check(e.asc == 0x24 and e.ascq == 0 and e.data["sense_key"] == 5, "sense decoded")
    sgio.next_action = fail
    cmd.raw_sense_data = None
    d.execute(cmd, en_raw_sense=True)
    check(cmd.raw_sense_data is sense, "raw sense stored instead of raising")
    sgio.next_action = fail
    raises(SCSIDevice.CheckCondition, d.execute, cmd, False)

    # other errors of the binding propagate
    def boom(fobj, cdb, dataout, datain):
        raise OSError(5, "EIO")

    sgio.next_action = boom
    raises(OSError, d.execute, cmd)
    d.close()

    # replug detection re-opens the same path with the same mode
    io.inodes["/dev/sg4"] = 100
    d = SCSIDevice("/dev/sg4", True, True, 0)
    f1 = io.opens[-1][3]
    n_open = len(io.opens)
    d.execute(cmd)
    check(len(io.opens) == n_open and log[-1][1] is f1, "same inode: no re-open")
    io.inodes["/dev/sg4"] = 101
    d.execute(cmd)
    check(len(io.opens) == n_open + 1, "changed inode: re-opened")
    check(io.opens[-1][:3] == ("/dev/sg4", "w+b", 0), "re-opened the same path, mode and buffering")
    f2 = io.opens[-1][3]
    check(f1.closed and not f2.closed and log[-1][1] is f2, "old file closed, new file used")
    d.execute(cmd)
    check(len(io.opens) == n_open + 1 and log[-1][1] is f2, "stable again")
    d.close()
    check(f2.closed, "closed")

    # init_device returns the matching class
    for dev in IS_DEV:
        for args, kwargs, mode in (
            ((), {}, "rb"),
            ((True,), {}, "w+b"),
            ((False, "iqn.ignored"), {}, "rb"),
            ((), {"read_write": True}, "w+b"),
            ((), {"read_write": 1, "initiator_name": ""}, "w+b"),
        ):
            n_open, n_log = len(io.opens), len(log)
            d = init_device(dev, *args, **kwargs)
            check(type(d) is SCSIDevice, "init_device(%r) gives a SCSIDevice" % (dev,))
            check(len(io.opens) == n_open + 1, "one open")
            check(io.opens[-1][0] is dev and io.opens[-1][1] == mode and io.opens[-1][2] == -1,
                  "init_device opened %r %s" % (dev, mode))
            check(len(log) == n_log, "no binding activity")
            d.close()
    d = init_device(dev="/dev/sg9", read_write=True)
    check(type(d) is SCSIDevice and io.opens[-1][:3] == ("/dev/sg9", "w+b", -1), "init_device by keyword")
    check(pyscsi.init_device is init_device, "same function from the top level")

    # the facade over a real SCSIDevice
    for devtype, opcodes in ((0, enumc.sbc), (1, enumc.ssc), (5, enumc.mmc), (8, enumc.smc)):
        sgio.device_type = devtype
        with SCSI(init_device("/dev/sg5"), 512) as s:
            fobj = io.opens[-1][3]
            check(type(s.device) is SCSIDevice, "device in the facade")
            check(s.device.devicetype == devtype and s.device.opcodes is opcodes, "facade detected type %d" % devtype)
            if devtype == 0:
                r = s.read16(5, 1)
                check(log[-1][0] == "sgio.execute" and log[-1][1] is fobj and log[-1][2] == bytes(r.cdb), "read16 sent")
                check(r.cdb[0] == 0x88, "read16 opcode")
        check(fobj.closed, "facade closed the device")
    sgio.device_type = 0


def check_iscsi_transport(pyscsi, have_iscsi, io, log):
    from pyscsi.pyiscsi.iscsi_device import ISCSIDevice
    from pyscsi.pyscsi import scsi_enum_command as enumc
    from pyscsi.pyscsi.scsi import SCSI
    from pyscsi.pyscsi.scsi_sense import SCSICheckCondition
    from pyscsi.utils import init_device

    default_iqn = "iqn.2018-01.org.pyscsi:%s" % socket.gethostname()

    for dev in NOT_ISCSI:
        refused(io, log, ISCSIDevice, dev)
        refused(io, log, ISCSIDevice, dev, "iqn.x")
        refused(io, log, ISCSIDevice, dev, initiator_name="")

    if not have_iscsi:
        for dev in IS_ISCSI + [None, 7, 3.5, object]:
            refused(io, log, ISCSIDevice, dev)
            refused(io, log, ISCSIDevice, dev, "iqn.x")
            refused(io, log, ISCSIDevice, device=dev, initiator_name="iqn.y")
        for dev in IS_ISCSI:
            refused(io, log, init_device, dev)
            refused(io, log, init_device, dev, True)
            refused(io, log, init_device, dev, False, "iqn.x")
            refused(io, log, init_device, dev=dev, initiator_name="")
        return

    iscsi = sys.modules["iscsi"]

    for bad in (None, 7, 3.5):
        n = len(log)
        raises(TypeError, ISCSIDevice, bad)
        check(len(log) == n, "no connection for %r" % (bad,))

    def expect_connection(entries, url, context_arg):
        check([e[0] for e in entries] == ["Context", "URL", "set_targetname", "set_session_type",
                                          "set_header_digest", "connect"], "connection sequence for %r" % (url,))
        check(entries[0][1] is context_arg or entries[0][1] == context_arg, "Context(%r)" % (context_arg,))
        ctx = entries[1][1]
        check(isinstance(ctx, iscsi.Context) and ctx.initiator_name == context_arg, "URL got the context")
        check(entries[1][2] is url, "URL parsed from exactly the requested url %r" % (url,))
        rest = url[len("iscsi://"):].split("/")
        target = rest[1] if len(rest) > 1 else ""
        try:
            lun = int(rest[2])
        except (IndexError, ValueError):
            lun = 0
        check(entries[2][1:] == (ctx, target), "target name")
        check(entries[3][1:] == (ctx, iscsi.ISCSI_SESSION_NORMAL), "session type")
        check(entries[4][1:] == (ctx, iscsi.ISCSI_HEADER_DIGEST_NONE_CRC32C), "header digest")
        check(entries[5][1:] == (ctx, rest[0], lun), "connect(portal, lun)")
        return ctx, lun

    for url in IS_ISCSI:
        for args, kwargs, context_arg in (
            ((), {}, url),
            (("",), {}, url),
            (("iqn.2020-01.test:me",), {}, "iqn.2020-01.test:me"),
            ((), {"initiator_name": "iqn.kw"}, "iqn.kw"),
            ((" ",), {}, " "),
        ):
            n_open, n_stat, n_log = len(io.opens), len(io.stats), len(log)
            d = ISCSIDevice(url, *args, **kwargs)
            check(type(d) is ISCSIDevice, "ISCSIDevice(%r)" % (url,))
            check(len(io.opens) == n_open and len(io.stats) == n_stat, "no file access for iscsi")
            ctx, lun = expect_connection(log[n_log:], url, context_arg)
            check(d.opcodes is enumc.spc, "default opcodes")
            raises(AttributeError, lambda: d.devicetype)
            d.devicetype = 1
            d.opcodes = enumc.ssc
            check(d.devicetype == 1 and d.opcodes is enumc.ssc, "device properties")
            n_log = len(log)
            d.close()
            check(log[n_log:] == [("disconnect", ctx)], "close disconnects")

    # context manager
    with ISCSIDevice(device="iscsi://h/t/5", initiator_name="iqn.w") as d:
        ctx = log[-1][1]
        check(log[-1] == ("connect", ctx, "h", 5), "connected")
        check(d.__enter__() is d, "__enter__")
    check(log[-1] == ("disconnect", ctx), "disconnected on exit")

    # executing
    d = ISCSIDevice("iscsi://h/t/4", "iqn.e")
    ctx = log[-1][1]
    s = SCSI(None, 512)
    s.device = d
    d.opcodes = enumc.sbc
    cmd = s.read10(1, 2)
    check(log[-2] == ("Task", bytes(cmd.cdb), iscsi.SCSI_XFER_READ, 1024), "read task")
    check(log[-1][:3] == ("command", ctx, 4) and log[-1][4] is cmd.dataout and log[-1][5] is cmd.datain, "command")
    cmd = s.write10(1, 1, bytearray(512))
    check(log[-2] == ("Task", bytes(cmd.cdb), iscsi.SCSI_XFER_WRITE, 512), "write task")
    cmd = s.testunitready()
    check(log[-2] == ("Task", bytes(cmd.cdb), iscsi.SCSI_XFER_NONE, 0), "no-data task")

    S = enumc.SCSI_STATUS
    for status, exc in (
        (S.RESERVATION_CONFLICT, ISCSIDevice.ReservationConflict),
        (S.TASK_ABORTED, ISCSIDevice.TaskAborted),
        (S.BUSY, ISCSIDevice.BusyStatus),
        (S.TASK_SET_FULL, ISCSIDevice.TaskSetFull),
        (S.ACA_ACTIVE, ISCSIDevice.ACAActive),
        (S.CONDITIONS_MET, ISCSIDevice.ConditionsMet),
        (0x7F, RuntimeError),
    ):
        iscsi.next_status = status
        raises(exc, d.execute, cmd)
    iscsi.next_status = S.GOOD
    check(d.execute(cmd) is None, "good status")

    sense = sense_fixed(6, 0x29, 0)
    iscsi.next_status = S.CHECK_CONDITION
    iscsi.next_sense = sense
    e = raises(ISCSIDevice.CheckCondition, d.execute, cmd)
    check(isinstance(e, SCSICheckCondition) and e.asc == 0x29 and cmd.sense is sense, "check condition with sense")
    iscsi.next_status = S.CHECK_CONDITION
    e = raises(ISCSIDevice.CheckCondition, d.execute, cmd, en_raw_sense=True)
    check(cmd.sense is None and cmd.raw_sense_data is None and e.asc == 0, "check condition without sense")
    iscsi.next_status = S.CHECK_CONDITION
    iscsi.next_sense = sense
    raises(ISCSIDevice.CheckCondition, d.execute, cmd, True)
    check(cmd.raw_sense_data is sense, "raw sense copied")
    d.close()

    # init_device
    for url in IS_ISCSI:
        for args, kwargs, context_arg in (
            ((), {}, default_iqn),
            ((True,), {}, default_iqn),
            ((False, "iqn.pos"), {}, "iqn.pos"),
            ((), {"initiator_name": "iqn.kw"}, "iqn.kw"),
            ((), {"initiator_name": ""}, url),
            ((), {"read_write": True, "initiator_name": "iqn.kw2"}, "iqn.kw2"),
        ):
            n_open, n_log = len(io.opens), len(log)
            d = init_device(url, *args, **kwargs)
            check(type(d) is ISCSIDevice, "init_device(%r) gives an ISCSIDevice" % (url,))
            check(len(io.opens) == n_open, "no file opened")
            expect_connection(log[n_log:], url, context_arg)
            d.close()
    d = init_device(dev="iscsi://h/t/1")
    check(type(d) is ISCSIDevice, "init_device by keyword")

    # the facade over a real ISCSIDevice
    for devtype, opcodes in ((0, enumc.sbc), (1, enumc.ssc), (5, enumc.mmc), (8, enumc.smc)):
        iscsi.device_type = devtype
        with SCSI(init_device("iscsi://h/t/2", initiator_name="iqn.f"), 512) as s:
            ctx = [e for e in log if e[0] == "connect"][-1][1]
            check(type(s.device) is ISCSIDevice, "device in the facade")
            check(s.device.devicetype == devtype and s.device.opcodes is opcodes, "facade detected type %d" % devtype)
        check(log[-1] == ("disconnect", ctx), "facade closed the device")
    iscsi.device_type = 0


def check_init_device_refusals(pyscsi, io, log):
    from pyscsi.utils import init_device

    neither = [
        "", "/", "/dev", "dev/sg0", " /dev/sg0", "/DEV/sg0", "//dev/sg0", "/tmp/x", "sg0", "iscsi:", "iscsi:/h/t/0",
        "ISCSI://h/t/0", " iscsi://h/t/0", "iser://h/t/0", "http://h/", "file:///dev/sg0", "nvme://x", "c:\\dev\\sg0",
        b"/dev/sg0", b"iscsi://h/t/0", bytearray(b"/dev/sg0"), StrSub("dev"), list("/dev/"), [],
    ]
    for dev in neither:
        refused(io, log, init_device, dev)
        refused(io, log, init_device, dev, True)
        refused(io, log, init_device, dev, True, "iqn.x")
        refused(io, log, init_device, dev, read_write=False, initiator_name="")
        refused(io, log, pyscsi.init_device, dev)
    refused(io, log, init_device, ("/dev/",))
    for bad in (None, 7, 3.5):
        n_open, n_log = len(io.opens), len(log)
        raises(TypeError, init_device, bad)
        check(len(io.opens) == n_open and len(log) == n_log, "nothing touched for %r" % (bad,))
    raises(TypeError, init_device)


def check_setup_cfg():
    cp = configparser.ConfigParser()
    with open(os.path.join(ROOT, "setup.cfg")) as f:
        cp.read_file(f)
    extras = cp["options.extras_require"]
    check(extras["iscsi"].split() == ["cython-iscsi"], "iscsi extra")
    check(extras["sgio"].split() == ["cython-sgio>=1.1.2"], "sgio extra")
    install = cp["options"].get("install_requires", "")
    check("sgio" not in install and "iscsi" not in install, "bindings are not hard requirements")
    check(cp["options"]["packages"].strip() == "find:", "packages discovered")


def main():
    check_setup_cfg()
    for have_sgio in (False, True):
        for have_iscsi in (False, True):
            log = []
            pyscsi = load(have_sgio, have_iscsi, log)
            import pyscsi.pyiscsi.iscsi_device as idev
            import pyscsi.pyscsi.scsi_device as sdev

            check(bool(sdev._has_sgio) is have_sgio, "sgio detection")
            check(bool(idev._has_iscsi) is have_iscsi, "iscsi detection")
            check_imports(pyscsi)
            check_commands_and_facade(pyscsi)
            check(log == [], "no binding activity from plain command work")
            with IO() as io:
                check_init_device_refusals(pyscsi, io, log)
                check_sgio_transport(pyscsi, have_sgio, io, log)
                check_iscsi_transport(pyscsi, have_iscsi, io, log)
                # after everything, the refusals still hold (no state leaked)
                check_init_device_refusals(pyscsi, io, log)
                stray = [o for o in io.opens if not (isinstance(o[0], str) and o[0][:5] == "/dev/")]
                check(stray == [], "only /dev/ paths were ever opened: %r" % (stray,))
                if not have_sgio:
                    check(io.opens == [] and io.stats == [], "without sgio nothing is ever opened")
                if not have_iscsi:
                    check(not [e for e in log if e[0] in ("Context", "URL", "connect")], "without iscsi no connection")
    purge()
    sys.modules.pop("sgio", None)
    sys.modules.pop("iscsi", None)
    print("PASS (%d checks)" % CHECKS)


if __name__ == "__main__":
    sys.path.insert(0, ROOT) if ROOT not in sys.path else None
    main()
