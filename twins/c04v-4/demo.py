#!/usr/bin/env python
# coding: utf-8
"""
Demo / check for property C04:

  every response format the library parses is decoded, when laid out as the
  standard prescribes, into exactly the values the device encoded; length
  fields are honoured (every descriptor inside the reported length is returned
  whole and in order, nothing beyond it is reported).

The responses are built here with an encoder that is independent of the
library (own layout tables, own bit placement), decoded through the public
API and compared *strictly* (same values, same python types, same nesting,
same order of list entries).

Run:  cd /tmp/seed/C04v && PYTHONPATH=/tmp/seed/C04v /venv/bin/python SEED/demo.py
"""
import random
import sys
import traceback

from pyscsi.pyscsi import scsi_enum_inquiry as INQ
from pyscsi.pyscsi import scsi_enum_modesense as MS
from pyscsi.pyscsi.scsi import SCSI
from pyscsi.pyscsi.scsi_cdb_getlbastatus import GetLBAStatus
from pyscsi.pyscsi.scsi_cdb_inquiry import Inquiry
from pyscsi.pyscsi.scsi_cdb_modesense6 import ModeSense6
from pyscsi.pyscsi.scsi_cdb_modesense10 import ModeSense10
from pyscsi.pyscsi.scsi_cdb_persistentreservein import (
    PersistentReserveInReadFullStatus,
    PersistentReserveInReadKeys,
    PersistentReserveInReadReservation,
    PersistentReserveInReportCapabilities,
)
from pyscsi.pyscsi.scsi_cdb_readcapacity10 import ReadCapacity10
from pyscsi.pyscsi.scsi_cdb_readcapacity16 import ReadCapacity16
from pyscsi.pyscsi.scsi_cdb_readcd import ReadCd
from pyscsi.pyscsi.scsi_cdb_readdiscinformation import ReadDiscInformation
from pyscsi.pyscsi.scsi_cdb_readelementstatus import ReadElementStatus
from pyscsi.pyscsi.scsi_cdb_report_luns import ReportLuns
from pyscsi.pyscsi.scsi_cdb_report_priority import ReportPriority
from pyscsi.pyscsi.scsi_cdb_report_target_port_groups import ReportTargetPortGroups
from pyscsi.pyscsi.scsi_enum_command import mmc, sbc, smc, spc
from pyscsi.utils import converter

RNG = random.Random(0xC04)
CHECKS = 0


# ---------------------------------------------------------------------------
# independent helpers
# ---------------------------------------------------------------------------
def be(value, size):
    """big endian bytes, written without the library"""
    out = []
    for _ in range(size):
        out.append(value % 256)
        value //= 256
    return bytearray(reversed(out))


def mask_bytes(mask):
    n = 1
    while mask >= 256 ** n:
        n += 1
    return n


def mask_shift(mask):
    s = 0
    while not (mask >> s) % 2:
        s += 1
    return s


def put(buf, off, mask, value):
    """place value into the bits selected by mask of the big endian field at off"""
    n = mask_bytes(mask)
    s = mask_shift(mask)
    assert value <= mask >> s, (value, mask)
    cur = 0
    for b in buf[off : off + n]:
        cur = cur * 256 + b
    cur = (cur & ~mask) | (value << s)
    buf[off : off + n] = be(cur, n)


def pick(mask):
    """a value that fits the mask, biased to the corners"""
    top = mask >> mask_shift(mask)
    r = RNG.random()
    if r < 0.15:
        return 0
    if r < 0.30:
        return top
    if r < 0.40:
        return 1
    return RNG.randint(0, top)


def blob(n):
    return bytearray(RNG.randrange(256) for _ in range(n))


def fill(buf, spec, base=0):
    """spec: (name, offset, mask) or (name, offset, 'b', length). returns expected"""
    exp = {}
    for item in spec:
        if item[2] == "b":
            name, off, _, length = item
            val = blob(length)
            buf[base + off : base + off + length] = val
            exp[name] = val
        else:
            name, off, mask = item
            val = pick(mask)
            put(buf, base + off, mask, val)
            exp[name] = val
    return exp


def strict_same(got, exp, path="result"):
    """same value AND same type, recursively"""
    global CHECKS
    CHECKS += 1
    if isinstance(exp, dict):
        assert type(got) is dict, "%s: %r is not a dict" % (path, type(got))
        assert sorted(map(str, got.keys())) == sorted(map(str, exp.keys())), (
            "%s: keys differ\n got %r\n exp %r" % (path, sorted(map(str, got)), sorted(map(str, exp)))
        )
        for k in exp:
            strict_same(got[k], exp[k], "%s[%r]" % (path, k))
    elif isinstance(exp, list):
        assert type(got) is list, "%s: %r is not a list" % (path, type(got))
        assert len(got) == len(exp), "%s: %d entries, expected %d" % (
            path,
            len(got),
            len(exp),
        )
        for i, (g, e) in enumerate(zip(got, exp)):
            strict_same(g, e, "%s[%d]" % (path, i))
    else:
        assert type(got) is type(exp), "%s: type %r, expected %r (%r vs %r)" % (
            path,
            type(got),
            type(exp),
            got,
            exp,
        )
        assert got == exp, "%s: got %r expected %r" % (path, got, exp)


def raises(exc, fn, *a, **kw):
    global CHECKS
    CHECKS += 1
    try:
        fn(*a, **kw)
    except exc:
        return
    except Exception as e:  # pragma: no cover
        raise AssertionError("expected %s, got %r" % (exc.__name__, e))
    raise AssertionError("expected %s, nothing raised" % exc.__name__)


# ---------------------------------------------------------------------------
# converter
# ---------------------------------------------------------------------------
def check_converter():
    for size in range(0, 10):
        for _ in range(40):
            v = RNG.randrange(256 ** size) if size else 0
            ba = converter.scsi_int_to_ba(v, size)
            strict_same(ba, be(v, size), "scsi_int_to_ba")
            strict_same(converter.scsi_ba_to_int(ba), v, "scsi_ba_to_int")
            strict_same(converter.scsi_ba_to_int(bytes(ba)), v, "scsi_ba_to_int")
    strict_same(converter.scsi_int_to_ba(), bytearray(4))
    strict_same(converter.scsi_int_to_ba(34, 4), bytearray(b'\x00\x00\x00"'))
    # too large values keep the low order bytes
    strict_same(converter.scsi_int_to_ba(0x1234567, 2), bytearray(b"\x45\x67"))
    strict_same(converter.scsi_ba_to_int(bytearray()), 0)
    strict_same(converter.scsi_ba_to_int(b"\x01\x00"), 256)

    # decode_bits / encode_dict against the independent put()
    for _ in range(300):
        buf = blob(24)
        table = {}
        spec = []
        used = set()
        for i in range(RNG.randint(1, 8)):
            width = RNG.choice([1, 1, 1, 2, 3, 4, 8])
            off = RNG.randrange(0, 24 - width + 1)
            lo = RNG.randrange(0, 8)
            hi = RNG.randrange(width * 8 - 7, width * 8 + 1)
            if hi <= lo:
                lo = 0
            mask = ((1 << hi) - 1) & ~((1 << lo) - 1)
            if mask_bytes(mask) != width:
                continue
            bits = set((off * 8 + width * 8 - 1 - b) for b in range(lo, hi))
            if bits & used:
                continue
            used |= bits
            name = "f%d" % i
            table[name] = [mask, off] if i % 2 else (mask, off)
            spec.append((name, off, mask))
        exp = fill(buf, spec)
        table["blob"] = ("b", 3, 5)
        exp["blob"] = buf[3:8]
        table["words"] = ("w", 2, 3)
        exp["words"] = buf[2:8]
        table["dwords"] = ("dw", 4, 2)
        exp["dwords"] = buf[4:12]
        got = {"keepme": 1}
        converter.decode_bits(buf, table, got)
        exp["keepme"] = 1
        strict_same(got, exp, "decode_bits")
        # bytes input gives bytes blobs
        got2 = {}
        converter.decode_bits(bytes(buf), table, got2)
        for k in ("blob", "words", "dwords"):
            assert type(got2[k]) is bytes and got2[k] == bytes(exp[k])
        # encode the integer fields back into an empty buffer
        out = bytearray(24)
        ints = {k: v for k, v in exp.items() if isinstance(v, int)}
        ints["not_in_table"] = 99
        converter.encode_dict(ints, {k: v for k, v in table.items() if len(v) == 2}, out)
        ref = bytearray(24)
        for name, off, mask in spec:
            put(ref, off, mask, exp[name])
        strict_same(out, ref, "encode_dict")
        out = bytearray(24)
        converter.encode_dict({"blob": bytearray(b"ABCDE")}, table, out)
        strict_same(out[3:8], bytearray(b"ABCDE"))
        strict_same(len(out), 24)


# ---------------------------------------------------------------------------
# INQUIRY
# ---------------------------------------------------------------------------
STD_INQ = [
    ("peripheral_qualifier", 0, 0xE0),
    ("peripheral_device_type", 0, 0x1F),
    ("rmb", 1, 0x80),
    ("version", 2, 0xFF),
    ("normaca", 3, 0x20),
    ("hisup", 3, 0x10),
    ("response_data_format", 3, 0x0F),
    ("additional_length", 4, 0xFF),
    ("sccs", 5, 0x80),
    ("acc", 5, 0x40),
    ("tpgs", 5, 0x30),
    ("3pc", 5, 0x08),
    ("protect", 5, 0x01),
    ("encserv", 6, 0x40),
    ("vs", 6, 0x20),
    ("multip", 6, 0x10),
    ("addr16", 6, 0x01),
    ("wbus16", 7, 0x20),
    ("sync", 7, 0x10),
    ("cmdque", 7, 0x02),
    ("vs2", 7, 0x01),
    ("t10_vendor_identification", 8, "b", 8),
    ("product_identification", 16, "b", 16),
    ("product_revision_level", 32, "b", 4),
    ("clocking", 56, 0x0C),
    ("qas", 56, 0x02),
    ("ius", 56, 0x01),
]

VPD_HDR = [
    ("peripheral_qualifier", 0, 0xE0),
    ("peripheral_device_type", 0, 0x1F),
]

BLOCK_LIMITS = [
    ("wsnz", 4, 0x01),
    ("max_caw_len", 5, 0xFF),
    ("opt_xfer_len_gran", 6, 0xFFFF),
    ("max_xfer_len", 8, 0xFFFFFFFF),
    ("opt_xfer_len", 12, 0xFFFFFFFF),
    ("max_pfetch_len", 16, 0xFFFFFFFF),
    ("max_unmap_lba_count", 20, 0xFFFFFFFF),
    ("max_unmap_bd_count", 24, 0xFFFFFFFF),
    ("opt_unmap_gran", 28, 0xFFFFFFFF),
    ("ugavalid", 32, 0x80),
    ("unmap_gran_alignment", 32, 0x7FFFFFFF),
    ("max_ws_len", 36, 0xFFFFFFFFFFFFFFFF),
]

BLOCK_DEV_CHAR = [
    ("medium_rotation_rate", 4, 0xFFFF),
    ("product_type", 6, 0xFF),
    ("wabereq", 7, 0xC0),
    ("wacereq", 7, 0x30),
    ("nominal_form_factor", 7, 0x0F),
    ("fuab", 8, 0x02),
    ("vbuls", 8, 0x01),
]

LBP = [
    ("threshold_exponent", 4, 0xFF),
    ("lbpu", 5, 0x80),
    ("lpbws", 5, 0x40),
    ("lbpws10", 5, 0x20),
    ("lbprz", 5, 0x04),
    ("anc_sup", 5, 0x02),
    ("dp", 5, 0x01),
    ("provisioning_type", 6, 0x07),
]

REFERRALS = [
    ("user_data_segment_size", 8, 0xFFFFFFFF),
    ("user_data_segment_multiplier", 12, 0xFFFFFFFF),
]

EXTENDED = [
    ("activate_microcode", 4, 0xC0),
    ("spt", 4, 0x38),
    ("grd_chk", 4, 0x04),
    ("app_chk", 4, 0x02),
    ("ref_chk", 4, 0x01),
    ("uask_sup", 5, 0x20),
    ("group_sup", 5, 0x10),
    ("prior_sup", 5, 0x08),
    ("headsup", 5, 0x04),
    ("ordsup", 5, 0x02),
    ("simpsup", 5, 0x01),
    ("wu_sup", 6, 0x08),
    ("crd_sup", 6, 0x04),
    ("nv_sup", 6, 0x02),
    ("v_sup", 6, 0x01),
    ("p_i_i_sup", 7, 0x10),
    ("luiclr", 7, 0x01),
    ("r_sup", 8, 0x10),
    ("cbcs", 8, 0x01),
    ("multi_it_nexus_microcode_download", 9, 0x0F),
    ("extended_self_test_completion_minutes", 10, 0xFFFF),
    ("poa_sup", 12, 0x80),
    ("hra_sup", 12, 0x40),
    ("vsa_sup", 12, 0x20),
    ("maximum_supported_sense_data_length", 13, 0xFF),
]


def vpd_page(code, body_len, spec):
    """a VPD page with page length body_len, followed by stale bytes"""
    buf = bytearray(4 + body_len)
    exp = fill(buf, VPD_HDR)
    buf[1] = code
    exp["page_code"] = code
    buf[2:4] = be(body_len, 2)
    exp.update(fill(buf, spec))
    return buf, exp


def check_inquiry_standard():
    for size in (96, 96, 96, 74, 58, 57, 255):
        for _ in range(25):
            buf = bytearray(size)
            exp = fill(buf, STD_INQ)
            buf[4] = size - 5
            exp["additional_length"] = size - 5
            strict_same(Inquiry.unmarshall_datain(buf), exp, "std inquiry")
            strict_same(Inquiry.unmarshall_datain(buf, 0), exp, "std inquiry")
            strict_same(Inquiry.unmarshall_datain(buf, evpd=0), exp, "std inquiry")
    # the minimum standard inquiry data (36 bytes): no SPI specific byte
    buf = bytearray(36)
    exp = fill(buf, STD_INQ[:-3])
    exp.update({"clocking": 0, "qas": 0, "ius": 0})
    strict_same(Inquiry.unmarshall_datain(buf), exp, "short std inquiry")
    # library marshalling agrees with the independent layout
    for _ in range(20):
        buf = bytearray(96)
        exp = fill(buf, STD_INQ)
        strict_same(Inquiry.marshall_datain(exp), buf, "marshall std inquiry")


def check_inquiry_vpd_tables():
    for code, body, spec in (
        (INQ.VPD.BLOCK_LIMITS, 0x3C, BLOCK_LIMITS),
        (INQ.VPD.BLOCK_DEVICE_CHARACTERISTICS, 0x3C, BLOCK_DEV_CHAR),
        (INQ.VPD.LOGICAL_BLOCK_PROVISIONING, 0x04, LBP),
        (INQ.VPD.LOGICAL_BLOCK_PROVISIONING, 0x40, LBP),
        (INQ.VPD.REFERRALS, 0x0C, REFERRALS),
        (INQ.VPD.EXTENDED_INQUIRY_DATA, 0x3C, EXTENDED),
    ):
        for _ in range(30):
            buf, exp = vpd_page(code, body, spec)
            strict_same(Inquiry.unmarshall_datain(buf, 1), exp, "vpd %02x" % code)
            strict_same(
                Inquiry.unmarshall_datain(buf + blob(RNG.randint(1, 40)), evpd=1),
                exp,
                "vpd %02x with stale tail" % code,
            )
    # marshalling of the table pages the library can marshall
    for code, body, spec in (
        (INQ.VPD.LOGICAL_BLOCK_PROVISIONING, 4, LBP),
        (INQ.VPD.REFERRALS, 12, REFERRALS),
        (INQ.VPD.EXTENDED_INQUIRY_DATA, 60, EXTENDED),
    ):
        for _ in range(10):
            buf, exp = vpd_page(code, body, spec)
            strict_same(Inquiry.marshall_datain(exp), buf, "marshall vpd %02x" % code)
            strict_same(
                Inquiry.unmarshall_datain(Inquiry.marshall_datain(exp), 1), exp
            )


def check_inquiry_vpd_lists():
    # supported vpd pages
    for n in list(range(0, 12)) + [40, 200]:
        pages = sorted(RNG.sample(range(256), n))
        buf, exp = vpd_page(INQ.VPD.SUPPORTED_VPD_PAGES, n, [])
        buf[4:] = bytearray(pages)
        exp["vpd_pages"] = pages
        strict_same(Inquiry.unmarshall_datain(buf, 1), exp, "supported pages")
        strict_same(
            Inquiry.unmarshall_datain(buf + blob(RNG.randint(1, 30)), 1),
            exp,
            "supported pages + tail",
        )
    # unit serial number
    for n in (0, 1, 4, 8, 20, 251):
        buf, exp = vpd_page(INQ.VPD.UNIT_SERIAL_NUMBER, n, [])
        serial = bytearray(RNG.choice(b"0123456789ABCDEF ") for _ in range(n))
        buf[4:] = serial
        exp["unit_serial_number"] = serial
        strict_same(Inquiry.unmarshall_datain(buf, 1), exp, "serial")
        strict_same(
            Inquiry.unmarshall_datain(buf + blob(RNG.randint(1, 30)), 1),
            exp,
            "serial + tail",
        )
        strict_same(Inquiry.marshall_datain(exp), buf, "marshall serial")


def make_designator(dtype):
    """returns (bytes, expected designator dict)"""
    D = INQ.DESIGNATOR
    if dtype == D.VENDOR_SPECIFIC:
        d = blob(RNG.randint(0, 20))
        return d, {"vendor_specific": d}
    if dtype == D.T10_VENDOR_ID:
        d = blob(RNG.randint(8, 30))
        return d, {"t10_vendor_id": d[:8], "vendor_specific_id": d[8:]}
    if dtype == D.EUI_64:
        n = RNG.choice([8, 12, 16])
        d = blob(n)
        if n == 8:
            return d, {
                "ieee_company_id": d[0] * 65536 + d[1] * 256 + d[2],
                "vendor_specific_extension_id": d[3:8],
            }
        if n == 12:
            return d, {
                "ieee_company_id": d[0] * 65536 + d[1] * 256 + d[2],
                "vendor_specific_extension_id": d[3:8],
                "directory_id": d[8:],
            }
        return d, {
            "identifier_extension": d[:8],
            "ieee_company_id": d[8] * 65536 + d[9] * 256 + d[10],
            "vendor_specific_extension_id": d[11:],
        }
    if dtype == D.NAA:
        naa = RNG.choice([2, 3, 5, 6])
        spec = {
            2: [
                ("vendor_specific_identifier_a", 0, 0x0FFF),
                ("ieee_company_id", 2, 0xFFFFFF),
                ("vendor_specific_identifier_b", 5, 0xFFFFFF),
            ],
            3: [("locally_administered_value", 0, 0x0FFFFFFFFFFFFFFF)],
            5: [
                ("ieee_company_id", 0, 0x0FFFFFF0),
                ("vendor_specific_identifier", 3, 0x0FFFFFFFFF),
            ],
            6: [
                ("ieee_company_id", 0, 0x0FFFFFF0),
                ("vendor_specific_identifier", 3, 0x0FFFFFFFFF),
                ("vendor_specific_identifier_extension", 8, 0xFFFFFFFFFFFFFFFF),
            ],
        }[naa]
        d = bytearray(16 if naa == 6 else 8)
        exp = fill(d, spec)
        put(d, 0, 0xF0, naa)
        exp["naa"] = naa
        return d, exp
    if dtype == D.RELATIVE_TARGET_PORT_IDENTIFIER:
        d = bytearray(4)
        return d, fill(d, [("relative_port", 2, 0xFFFF)])
    if dtype == D.TARGET_PORTAL_GROUP:
        d = bytearray(4)
        return d, fill(d, [("target_portal_group", 2, 0xFFFF)])
    if dtype == D.LOGICAL_UNIT_GROUP:
        d = bytearray(4)
        return d, fill(d, [("logical_unit_group", 2, 0xFFFF)])
    if dtype == D.MD5_LOGICAL_IDENTIFIER:
        d = blob(16)
        return d, {"md5_logical_identifier": d[:]}
    if dtype == D.SCSI_NAME_STRING:
        d = bytearray(b"iqn.2001-04.com.example:storage.%d" % RNG.randrange(10 ** 6))
        d += bytearray(-len(d) % 4 or 4)
        return d, {"scsi_name_string": d}
    if dtype == D.PCI_EXPRESS_ROUTING_ID:
        d = bytearray(8)
        return d, fill(d, [("pci_express_routing_id", 0, 0xFFFF)])
    # a designator type the library does not know: empty dict
    d = blob(RNG.randint(0, 12))
    return d, {}


def check_inquiry_device_identification():
    for count in list(range(0, 8)) + [15, 30]:
        for rep in range(12):
            buf, exp = vpd_page(INQ.VPD.DEVICE_IDENTIFICATION, 0, [])
            descs = []
            for i in range(count):
                dtype = RNG.choice(list(range(0, 10)) + [0x0A, 0x0F])
                d, dexp = make_designator(dtype)
                hdr = bytearray(4)
                e = fill(
                    hdr,
                    [
                        ("protocol_identifier", 0, 0xF0),
                        ("code_set", 0, 0x0F),
                        ("piv", 1, 0x80),
                        ("association", 1, 0x30),
                    ],
                )
                put(hdr, 1, 0x0F, dtype)
                e["designator_type"] = dtype
                hdr[3] = len(d)
                e["designator_length"] = len(d)
                if e["piv"] == 0 or e["association"] not in (1, 2):
                    del e["protocol_identifier"]
                e["designator"] = dexp
                descs.append(e)
                buf += hdr + d
            buf[2:4] = be(len(buf) - 4, 2)
            exp["designator_descriptors"] = descs
            strict_same(Inquiry.unmarshall_datain(buf, 1), exp, "device id")
            # stale bytes after the page must not produce descriptors
            strict_same(
                Inquiry.unmarshall_datain(buf + blob(RNG.randint(1, 64)), 1),
                exp,
                "device id + tail",
            )
    # marshall -> unmarshall round trip with the library's own marshaller
    dd = [
        {
            "piv": 1,
            "association": 1,
            "protocol_identifier": 5,
            "code_set": 1,
            "designator_type": INQ.DESIGNATOR.NAA,
            "designator": {
                "naa": INQ.NAA.IEEE_REGISTERED_EXTENDED,
                "ieee_company_id": 0xABCDEF,
                "vendor_specific_identifier": 0x123456789,
                "vendor_specific_identifier_extension": 0x1122334455667788,
            },
        },
        {
            "piv": 0,
            "association": 0,
            "code_set": 2,
            "designator_type": INQ.DESIGNATOR.T10_VENDOR_ID,
            "designator": {
                "t10_vendor_id": bytearray(b"VENDOR  "),
                "vendor_specific_id": bytearray(b"serial-0001"),
            },
        },
        {
            "piv": 0,
            "association": 1,
            "code_set": 1,
            "designator_type": INQ.DESIGNATOR.RELATIVE_TARGET_PORT_IDENTIFIER,
            "designator": {"relative_port": 0xBEEF},
        },
    ]
    page = {
        "peripheral_qualifier": 0,
        "peripheral_device_type": 0,
        "page_code": INQ.VPD.DEVICE_IDENTIFICATION,
        "designator_descriptors": dd,
    }
    raw = Inquiry.marshall_datain(page)
    got = Inquiry.unmarshall_datain(raw, 1)
    strict_same(len(got["designator_descriptors"]), 3)
    for g, e in zip(got["designator_descriptors"], dd):
        for k, v in e.items():
            strict_same(g[k], v, "roundtrip %s" % k)


def check_inquiry_ata_information():
    for _ in range(20):
        buf, exp = vpd_page(INQ.VPD.ATA_INFORMATION, 0x238, [])
        exp.update(
            fill(
                buf,
                [
                    ("sat_vendor_identification", 8, "b", 8),
                    ("sat_product_identification", 16, "b", 16),
                    ("sat_product_rev_lvl", 32, "b", 4),
                ],
            )
        )
        exp["signature"] = fill(
            buf,
            [
                ("sector_count", 12, 0xFF),
                ("lba_low", 4, 0xFF),
                ("lba_mid", 5, 0xFF),
                ("lba_high", 6, 0xFF),
                ("device", 7, 0xFF),
            ],
            base=36,
        )
        buf[60:] = blob(512)
        ident = buf[60:]
        exp["identify"] = {
            "general_config": {
                "ata_device": ident[1] >> 7,
                "respose_incomplete": (ident[0] >> 2) & 1,
            },
            "specific_config": ident[4] << 24 | ident[5] << 16 | ident[6] << 8 | ident[7],
            "serial_number": ident[20:40],
            "firmware_rev": ident[46:54],
            "model_number": ident[54:94],
        }
        strict_same(Inquiry.unmarshall_datain(buf, 1), exp, "ata information")


def check_inquiry_via_scsi():
    class Dev:
        """a device answering INQUIRY"""

        def __init__(self):
            self.replies = {}
            self.opcodes = sbc
            self.devicetype = None

        def execute(self, cmd, en_raw_sense=False):
            evpd = cmd.cdb[1] & 1
            data = self.replies[(evpd, cmd.cdb[2])]
            n = min(len(data), len(cmd.datain))
            cmd.datain[:n] = data[:n]

        def close(self):
            pass

    dev = Dev()
    std = bytearray(96)
    std_exp = fill(std, STD_INQ)
    put(std, 0, 0x1F, 0)
    std_exp["peripheral_device_type"] = 0
    dev.replies[(0, 0)] = std
    bl, bl_exp = vpd_page(INQ.VPD.BLOCK_LIMITS, 0x3C, BLOCK_LIMITS)
    dev.replies[(1, 0xB0)] = bl
    sn, sn_exp = vpd_page(INQ.VPD.UNIT_SERIAL_NUMBER, 10, [])
    sn[4:] = bytearray(b"0123456789")
    sn_exp["unit_serial_number"] = bytearray(b"0123456789")
    dev.replies[(1, 0x80)] = sn
    with SCSI(dev) as s:
        strict_same(s.inquiry().result, std_exp, "scsi.inquiry")
        strict_same(s.inquiry(evpd=1, page_code=0xB0).result, bl_exp)
        # alloclen 96 > page: zero padding after the page is not reported
        strict_same(s.inquiry(evpd=1, page_code=0x80).result, sn_exp)
        strict_same(s.inquiry(evpd=1, page_code=0x80, alloclen=255).result, sn_exp)


# ---------------------------------------------------------------------------
# MODE SENSE
# ---------------------------------------------------------------------------
CONTROL = [
    ("tst", 0, 0xE0),
    ("tmf_only", 0, 0x10),
    ("dpicz", 0, 0x08),
    ("d_sense", 0, 0x04),
    ("gltsd", 0, 0x02),
    ("rlec", 0, 0x01),
    ("queue_algorithm_modifier", 1, 0xF0),
    ("nuar", 1, 0x08),
    ("qerr", 1, 0x06),
    ("vs", 2, 0x80),
    ("rac", 2, 0x40),
    ("ua_intlck_ctrl", 2, 0x30),
    ("swp", 2, 0x08),
    ("ato", 3, 0x80),
    ("tas", 3, 0x40),
    ("atmpe", 3, 0x20),
    ("rwwp", 3, 0x10),
    ("autoload_mode", 3, 0x07),
    ("busy_timeout_period", 6, 0xFFFF),
    ("extended_self_test_completion_time", 8, 0xFFFF),
]
CONTROL_EXT = [
    ("tcmos", 0, 0x04),
    ("scsip", 0, 0x02),
    ("ialuae", 0, 0x01),
    ("initial_command_priority", 1, 0x0F),
    ("maximum_sense_data_length", 2, 0xFF),
]
DISCONNECT = [
    ("buffer_full_ratio", 0, 0xFF),
    ("buffer_empty_ratio", 1, 0xFF),
    ("bus_inactivity_limit", 2, 0xFFFF),
    ("disconnect_time_limit", 4, 0xFFFF),
    ("connect_time_limit", 6, 0xFFFF),
    ("maximum_burst_size", 8, 0xFFFF),
    ("emdp", 10, 0x80),
    ("fair_arbitration", 10, 0x70),
    ("dimm", 10, 0x08),
    ("dtdc", 10, 0x07),
    ("first_burst_size", 12, 0xFFFF),
]
ELEMENT_ADDRESS = [
    ("first_medium_transport_element_address", 0, 0xFFFF),
    ("num_medium_transport_elements", 2, 0xFFFF),
    ("first_storage_element_address", 4, 0xFFFF),
    ("num_storage_elements", 6, 0xFFFF),
    ("first_import_element_address", 8, 0xFFFF),
    ("num_import_elements", 10, 0xFFFF),
    ("first_data_transfer_element_address", 12, 0xFFFF),
    ("num_data_transfer_elements", 14, 0xFFFF),
]

MODE_PAGES = [
    # page code, sub page code or None, body length, layout
    (0x0A, None, 10, CONTROL),
    (0x0A, 1, 28, CONTROL_EXT),
    (0x02, None, 14, DISCONNECT),
    (0x1D, None, 18, ELEMENT_ADDRESS),
    (0x08, None, 18, []),  # caching: the library reports only the page header
    (0x0A, 3, 12, []),  # control sub page it does not know
    (0x02, 7, 12, []),
    (0x1C, 1, 12, []),
]


def make_mode_page(code, sub, body_len, spec):
    ps = RNG.randint(0, 1)
    body = bytearray(body_len)
    exp = {"ps": ps, "page_code": code}
    if sub is None:
        hdr = bytearray([ps << 7 | code, body_len])
        exp["spf"] = 0
    else:
        hdr = bytearray([ps << 7 | 0x40 | code, sub]) + be(body_len, 2)
        exp["spf"] = 1
        exp["sub_page_code"] = sub
    exp.update(fill(body, spec))
    return hdr + body, exp


def check_modesense():
    for cls, hlen in ((ModeSense6, 4), (ModeSense10, 8)):
        for code, sub, body_len, spec in MODE_PAGES:
            for bdl in (0, 8, 16):
                for _ in range(6):
                    hdr = bytearray(hlen)
                    if hlen == 4:
                        exp = fill(
                            hdr,
                            [
                                ("medium_type", 1, 0xFF),
                                ("device_specific_parameter", 2, 0xFF),
                            ],
                        )
                        hdr[3] = bdl
                    else:
                        exp = fill(
                            hdr,
                            [
                                ("medium_type", 2, 0xFF),
                                ("device_specific_parameter", 3, 0xFF),
                                ("longlba", 4, 0x01),
                            ],
                        )
                        hdr[6:8] = be(bdl, 2)
                    page, pexp = make_mode_page(code, sub, body_len, spec)
                    buf = hdr + blob(bdl) + page
                    if hlen == 4:
                        buf[0] = len(buf) - 1
                    else:
                        buf[0:2] = be(len(buf) - 2, 2)
                    exp["mode_pages"] = [pexp]
                    strict_same(cls.unmarshall_datain(buf), exp, cls.__name__)
                    # header and block descriptors only
                    exp["mode_pages"] = []
                    strict_same(
                        cls.unmarshall_datain(buf[: hlen + bdl]),
                        exp,
                        cls.__name__ + " header only",
                    )
        # the library's marshaller agrees with the independent layout
        for code, sub, body_len, spec in MODE_PAGES[:4]:
            page, pexp = make_mode_page(code, sub, body_len, spec)
            data = {
                "medium_type": 0x11,
                "device_specific_parameter": 0x90,
                "mode_pages": [pexp],
            }
            if hlen == 8:
                data["longlba"] = 1
            raw = cls.marshall_datain(data)
            strict_same(raw[hlen:], page, "marshall " + cls.__name__)
            strict_same(cls.unmarshall_datain(raw), data, "roundtrip " + cls.__name__)
    # the enum tables keep their public shape
    assert MS.PAGE_CODE.CONTROL == 0x0A and MS.PAGE_CODE.DISCONNECT_RECONNECT == 0x02
    assert MS.PAGE_CODE.ELEMENT_ADDRESS_ASSIGNMENT == 0x1D
    assert MS.PC.SAVED == 3 and MS.PC.CURRENT == 0
    strict_same(MS.MODESENSE6.control_bits["swp"], [0x08, 2])
    strict_same(MS.MODESENSE10.mode_parameter_header_bits["longlba"], [0x01, 4])
    strict_same(MS.MODESENSE6.mode_parameter_header_bits["medium_type"], [0xFF, 1])
    strict_same(
        list(MS.MODESENSE6.keys),
        [
            "mode_parameter_header_bits",
            "page_zero_bits",
            "sub_page_bits",
            "element_address_bits",
            "control_bits",
            "control_extension_1_bits",
            "power_condition_bits",
            "power_consumption_bits",
            "disconnect_reconnect_bits",
        ],
    )
    strict_same(list(MS.MODESENSE10.keys), list(MS.MODESENSE6.keys))
    strict_same(MS.PAGE_CODE[0x0A], "CONTROL")
    strict_same(INQ.VPD[0x83], "DEVICE_IDENTIFICATION")
    strict_same(INQ.DESIGNATOR[3], "NAA")
    strict_same(INQ.VPD.keys[:3], ["SUPPORTED_VPD_PAGES", "UNIT_SERIAL_NUMBER", "DEVICE_IDENTIFICATION"])
    strict_same(
        sorted(INQ.__all__),
        sorted(
            [
                "PROVISIONING_TYPE",
                "QUALIFIER",
                "DEVICE_TYPE",
                "VERSION",
                "TPGS",
                "NOMINAL_FORM_FACTOR",
                "PROTOCOL_IDENTIFIER",
                "CODE_SET",
                "ASSOCIATION",
                "DESIGNATOR",
                "NAA",
                "VPD",
            ]
        ),
    )
    for name in INQ.__all__:
        assert getattr(Inquiry, name) is getattr(INQ, name), name
    for name in ("PC", "PAGE_CODE", "MODESENSE6"):
        assert getattr(ModeSense6, name) is getattr(MS, name), name
    assert ModeSense10.MODESENSE10 is MS.MODESENSE10


# ---------------------------------------------------------------------------
# READ CAPACITY
# ---------------------------------------------------------------------------
def check_readcapacity():
    spec10 = [("returned_lba", 0, 0xFFFFFFFF), ("block_length", 4, 0xFFFFFFFF)]
    spec16 = [
        ("returned_lba", 0, 0xFFFFFFFFFFFFFFFF),
        ("block_length", 8, 0xFFFFFFFF),
        ("p_type", 12, 0x0E),
        ("prot_en", 12, 0x01),
        ("p_i_exponent", 13, 0xF0),
        ("lbppbe", 13, 0x0F),
        ("lbpme", 14, 0x80),
        ("lbprz", 14, 0x40),
        ("lowest_aligned_lba", 14, 0x3FFF),
    ]
    for _ in range(200):
        buf = bytearray(8)
        exp = fill(buf, spec10)
        strict_same(ReadCapacity10.unmarshall_datain(buf), exp, "readcapacity10")
        strict_same(ReadCapacity10.unmarshall_datain(bytes(buf)), exp)
        strict_same(ReadCapacity10.marshall_datain(exp), buf)
        buf = bytearray(32)
        exp = fill(buf, spec16)
        strict_same(ReadCapacity16.unmarshall_datain(buf), exp, "readcapacity16")
        strict_same(ReadCapacity16.unmarshall_datain(bytes(buf)), exp)
        strict_same(ReadCapacity16.marshall_datain(exp), buf)
        # reserved bytes 16..31 and a larger allocation do not matter
        buf[16:] = blob(16)
        strict_same(ReadCapacity16.unmarshall_datain(buf + blob(8)), exp)

    class Dev:
        opcodes = sbc
        devicetype = 0

        def __init__(self, data):
            self.data = data

        def execute(self, cmd, en_raw_sense=False):
            cmd.datain[: len(self.data)] = self.data

        def close(self):
            pass

    for _ in range(5):
        buf = bytearray(8)
        exp = fill(buf, spec10)
        s = SCSI(None)
        s.device = Dev(buf)
        strict_same(s.readcapacity10().result, exp)
        buf = bytearray(32)
        exp = fill(buf, spec16)
        s.device = Dev(buf)
        strict_same(s.readcapacity16().result, exp)
        strict_same(s.readcapacity16(alloclen=64).result, exp)


# ---------------------------------------------------------------------------
# GET LBA STATUS / REPORT LUNS / REPORT PRIORITY
# ---------------------------------------------------------------------------
def check_getlbastatus():
    spec = [
        ("lba", 0, 0xFFFFFFFFFFFFFFFF),
        ("num_blocks", 8, 0xFFFFFFFF),
        ("p_status", 12, 0x0F),
    ]
    for n in list(range(0, 10)) + [33, 100]:
        for _ in range(6):
            buf = bytearray(8)
            lbas = []
            for i in range(n):
                d = bytearray(16)
                lbas.append(fill(d, spec))
                buf += d
            buf[0:4] = be(len(buf) - 4, 4)
            exp = {"lbas": lbas}
            strict_same(GetLBAStatus.unmarshall_datain(buf), exp, "getlbastatus")
            strict_same(GetLBAStatus.unmarshall_datain(bytes(buf)), exp)
            strict_same(
                GetLBAStatus.unmarshall_datain(buf + blob(RNG.randint(1, 50))),
                exp,
                "getlbastatus + tail",
            )
            strict_same(GetLBAStatus.marshall_datain(exp), buf)
    strict_same(GetLBAStatus.marshall_datain({}), bytearray(b"\0\0\0\4\0\0\0\0"))


def check_reportluns():
    for n in list(range(0, 10)) + [31, 128]:
        for _ in range(6):
            buf = bytearray(8)
            luns = []
            for i in range(n):
                v = pick(0xFFFFFFFFFFFFFFFF)
                luns.append({"lun%d" % i: v})
                buf += be(v, 8)
            buf[0:4] = be(n * 8, 4)
            exp = {"luns": luns}
            strict_same(ReportLuns.unmarshall_datain(buf), exp, "reportluns")
            strict_same(ReportLuns.unmarshall_datain(bytes(buf)), exp)
            strict_same(
                ReportLuns.unmarshall_datain(buf + blob(RNG.randint(1, 50))),
                exp,
                "reportluns + tail",
            )
            strict_same(ReportLuns.marshall_datain(exp), buf)
    strict_same(ReportLuns.marshall_datain({}), bytearray(8))


def check_reportpriority():
    # no priority descriptors
    strict_same(
        ReportPriority.unmarshall_datain(bytearray(4)), {"priority_descriptors": []}
    )
    strict_same(
        ReportPriority.unmarshall_datain(bytearray(64)), {"priority_descriptors": []}
    )
    strict_same(ReportPriority.marshall_datain({}), bytearray(b"\0\0\0\4"))


# ---------------------------------------------------------------------------
# REPORT TARGET PORT GROUPS
# ---------------------------------------------------------------------------
TPGD = [
    ("pref", 0, 0x80),
    ("asymmetric_access_state", 0, 0x0F),
    ("t_sup", 1, 0x80),
    ("o_sup", 1, 0x40),
    ("u_sup", 1, 0x08),
    ("s_sup", 1, 0x04),
    ("an_sup", 1, 0x02),
    ("ao_sup", 1, 0x01),
    ("target_port_group", 2, 0xFFFF),
    ("status_code", 5, 0xFF),
    ("vendor", 6, 0xFF),
]


def check_tpg():
    for extended in (0, 1):
        for ngroups in (0, 1, 2, 3, 7):
            for _ in range(10):
                buf = bytearray(4)
                exp = {"format_type": extended}
                if extended:
                    itt = RNG.randrange(256)
                    buf += bytearray([0x10, itt, 0, 0])
                    exp["implicit_transition_time"] = itt
                groups = []
                for g in range(ngroups):
                    d = bytearray(8)
                    ge = fill(d, TPGD)
                    nports = RNG.choice([0, 1, 1, 2, 5, 20])
                    d[7] = nports
                    ge["target_port_count"] = nports
                    ports = []
                    for p in range(nports):
                        rtpi = pick(0xFFFF)
                        d += bytearray(2) + be(rtpi, 2)
                        ports.append({"relative_target_port_id": rtpi})
                    ge["target_ports"] = ports
                    groups.append(ge)
                    buf += d
                buf[0:4] = be(len(buf) - 4, 4)
                exp["target_port_group_descriptors"] = groups
                strict_same(ReportTargetPortGroups.unmarshall_datain(buf), exp, "tpg")
                strict_same(
                    ReportTargetPortGroups.unmarshall_datain(
                        buf + blob(RNG.randint(1, 40))
                    ),
                    exp,
                    "tpg + tail",
                )
                strict_same(ReportTargetPortGroups.marshall_datain(exp), buf)


# ---------------------------------------------------------------------------
# READ ELEMENT STATUS
# ---------------------------------------------------------------------------
ES_DESC = [
    ("element_address", 0, 0xFFFF),
    ("except", 2, 0x04),
    ("full", 2, 0x01),
    ("additional_sense_code", 4, 0xFF),
    ("additional_sense_code_qualifier", 5, 0xFF),
    ("svalid", 9, 0x80),
    ("invert", 9, 0x40),
    ("ed", 9, 0x08),
    ("medium_type", 9, 0x07),
    ("source_storage_element_address", 10, 0xFFFF),
]
ES_EXTRA = {
    1: [],
    2: [("access", 2, 0x08)],
    3: [
        ("oir", 2, 0x80),
        ("cmc", 2, 0x40),
        ("inenab", 2, 0x20),
        ("exenab", 2, 0x10),
        ("access", 2, 0x08),
        ("impexp", 2, 0x02),
    ],
    4: [("access", 2, 0x08)],
}


def check_readelementstatus():
    for npages in (0, 1, 2, 4):
        for _ in range(15):
            buf = bytearray(8)
            exp = fill(
                buf,
                [("first_element_address", 0, 0xFFFF), ("num_elements", 2, 0xFFFF)],
            )
            pages = []
            for p in range(npages):
                etype = RNG.choice([1, 2, 3, 4])
                pvol = RNG.randint(0, 1)
                avol = RNG.randint(0, 1)
                extra = RNG.choice([0, 4, 4, 12, 40])
                edl = 12 + 36 * pvol + 36 * avol + extra
                page = bytearray(8)
                page[0] = etype
                page[1] = pvol << 7 | avol << 6
                pexp = {"element_type": etype, "pvoltag": pvol, "avoltag": avol}
                descs = []
                for d in range(RNG.choice([0, 1, 2, 3, 9])):
                    desc = blob(edl)
                    desc[0:12] = bytearray(12)
                    dexp = fill(desc, ES_DESC + ES_EXTRA[etype])
                    off = 12
                    if pvol:
                        dexp["primary_volume_tag"] = desc[off : off + 36]
                        off += 36
                    if avol:
                        dexp["alternate_volume_tag"] = desc[off : off + 36]
                    descs.append(dexp)
                    page += desc
                page[2:4] = be(edl, 2)
                page[5:8] = be(len(page) - 8, 3)
                pexp["element_descriptors"] = descs
                pages.append(pexp)
                buf += page
            buf[5:8] = be(len(buf) - 8, 3)
            exp["element_status_pages"] = pages
            strict_same(ReadElementStatus.unmarshall_datain(buf), exp, "res")
            strict_same(
                ReadElementStatus.unmarshall_datain(buf + blob(RNG.randint(1, 60))),
                exp,
                "res + tail",
            )
    # library marshaller -> unmarshaller
    data = {
        "first_element_address": 12,
        "num_elements": 3,
        "element_status_pages": [
            {
                "element_type": 2,
                "pvoltag": 1,
                "avoltag": 0,
                "element_descriptors": [
                    {
                        "element_address": 12,
                        "except": 1,
                        "full": 1,
                        "access": 1,
                        "additional_sense_code": 55,
                        "additional_sense_code_qualifier": 56,
                        "svalid": 1,
                        "invert": 1,
                        "ed": 1,
                        "medium_type": 2,
                        "source_storage_element_address": 27,
                        "primary_volume_tag": bytearray(b"VOL001".ljust(36)),
                    },
                ],
            },
            {
                "element_type": 3,
                "pvoltag": 0,
                "avoltag": 0,
                "element_descriptors": [
                    {
                        "element_address": 13 + i,
                        "except": 0,
                        "full": i % 2,
                        "oir": 1,
                        "cmc": 0,
                        "inenab": 1,
                        "exenab": 1,
                        "access": i % 2,
                        "impexp": 1,
                        "additional_sense_code": 0,
                        "additional_sense_code_qualifier": 0,
                        "svalid": 0,
                        "invert": 0,
                        "ed": 0,
                        "medium_type": 0,
                        "source_storage_element_address": 0,
                    }
                    for i in range(3)
                ],
            },
        ],
    }
    strict_same(
        ReadElementStatus.unmarshall_datain(ReadElementStatus.marshall_datain(data)),
        data,
        "res roundtrip",
    )


# ---------------------------------------------------------------------------
# PERSISTENT RESERVE IN
# ---------------------------------------------------------------------------
def make_transport_id():
    """returns (bytes, expected dict)"""
    proto = RNG.choice([0x00, 0x03, 0x04, 0x05, 0x05, 0x06, 0x0A])
    if proto != 0x05:
        d = bytearray(24)
        d[0] = proto
        exp = {"tpid_format": 0, "protocol_id": proto}
        if proto == 0x00:
            d[8:16] = blob(8)
            exp["n_port_name"] = d[8:16]
        elif proto == 0x03:
            d[8:16] = blob(8)
            exp["eui64_name"] = d[8:16]
        elif proto == 0x04:
            d[8:24] = blob(16)
            exp["initiator_port_identifier"] = d[8:24]
        elif proto == 0x06:
            d[4:12] = blob(8)
            exp["sas_address"] = d[4:12]
        else:
            d[4:12] = blob(8)
            exp["routing_id"] = d[4:12]
        return d, exp
    name = "iqn.1993-08.org.debian:01:%x" % RNG.randrange(16 ** RNG.randint(1, 12))
    fmt = RNG.randint(0, 1)
    exp = {"tpid_format": fmt, "protocol_id": 5, "iscsi_name": name}
    text = name
    if fmt:
        isid = "%012x" % RNG.randrange(16 ** 12)
        text = name + ",i,0x" + isid
        exp["iscsi_initiator_session_id"] = isid
    raw = text.encode("utf-8") + b"\0"
    raw += b"\0" * (-len(raw) % 4)
    d = bytearray([fmt << 6 | 5, 0]) + be(len(raw), 2) + raw
    return d, exp


def check_persistent_reserve_in():
    # READ KEYS
    for n in list(range(0, 8)) + [50]:
        for _ in range(6):
            gen = pick(0xFFFFFFFF)
            keys = [pick(0xFFFFFFFFFFFFFFFF) for _ in range(n)]
            buf = be(gen, 4) + be(8 * n, 4)
            for k in keys:
                buf += be(k, 8)
            exp = {"pr_generation": gen, "reservation_keys": keys}
            strict_same(PersistentReserveInReadKeys.unmarshall_datain(buf), exp, "keys")
            strict_same(PersistentReserveInReadKeys.unmarshall_datain(bytes(buf)), exp)
            strict_same(
                PersistentReserveInReadKeys.unmarshall_datain(
                    buf + blob(RNG.randint(1, 40))
                ),
                exp,
                "keys + tail",
            )
    # READ RESERVATION
    for _ in range(60):
        gen = pick(0xFFFFFFFF)
        buf = be(gen, 4) + be(0, 4)
        strict_same(
            PersistentReserveInReadReservation.unmarshall_datain(buf + blob(16)),
            {"pr_generation": gen},
            "no reservation",
        )
        strict_same(
            PersistentReserveInReadReservation.unmarshall_datain(buf),
            {"pr_generation": gen},
        )
        buf = be(gen, 4) + be(16, 4) + bytearray(16)
        exp = fill(
            buf,
            [
                ("reservation_key", 8, 0xFFFFFFFFFFFFFFFF),
                ("scope", 21, 0xF0),
                ("type", 21, 0x0F),
            ],
        )
        exp["pr_generation"] = gen
        strict_same(
            PersistentReserveInReadReservation.unmarshall_datain(buf), exp, "reservation"
        )
        strict_same(
            PersistentReserveInReadReservation.unmarshall_datain(bytes(buf)), exp
        )
        strict_same(
            PersistentReserveInReadReservation.unmarshall_datain(buf + blob(9)), exp
        )
    for bad in (1, 8, 15, 17, 24, 0x10000000):
        raises(
            ValueError,
            PersistentReserveInReadReservation.unmarshall_datain,
            be(7, 4) + be(bad, 4) + bytearray(32),
        )
    # REPORT CAPABILITIES
    for _ in range(60):
        buf = bytearray(8)
        exp = fill(
            buf,
            [
                ("rlr_c", 2, 0x80),
                ("crh", 2, 0x10),
                ("sip_c", 2, 0x08),
                ("atp_c", 2, 0x04),
                ("ptpl_c", 2, 0x01),
                ("tmv", 3, 0x80),
                ("allow_commands", 3, 0x70),
                ("ptpl_a", 3, 0x01),
            ],
        )
        exp["pr_type_mask"] = fill(
            buf,
            [
                ("wr_ex_ar", 4, 0x80),
                ("ex_ac_ro", 4, 0x40),
                ("wr_ex_ro", 4, 0x20),
                ("ex_ac", 4, 0x08),
                ("wr_ex", 4, 0x02),
                ("ex_ac_ar", 5, 0x01),
            ],
        )
        buf[0:2] = be(8, 2)
        strict_same(
            PersistentReserveInReportCapabilities.unmarshall_datain(buf), exp, "caps"
        )
        strict_same(
            PersistentReserveInReportCapabilities.unmarshall_datain(buf + blob(20)), exp
        )
    strict_same(PersistentReserveInReportCapabilities.unmarshall_datain(bytearray(8)), {})
    raises(
        ValueError,
        PersistentReserveInReportCapabilities.unmarshall_datain,
        bytearray(b"\0\x0c") + bytearray(10),
    )
    # READ FULL STATUS
    for n in (0, 1, 2, 3, 6, 12):
        for _ in range(10):
            gen = pick(0xFFFFFFFF)
            buf = be(gen, 4) + bytearray(4)
            status = []
            for i in range(n):
                d = bytearray(24)
                e = fill(
                    d,
                    [
                        ("reservation_key", 0, 0xFFFFFFFFFFFFFFFF),
                        ("all_tg_pt", 12, 0x02),
                        ("r_holder", 12, 0x01),
                        ("scope", 13, 0xF0),
                        ("type", 13, 0x0F),
                        ("relative_target_port_id", 18, 0xFFFF),
                    ],
                )
                tid, texp = make_transport_id()
                d[20:24] = be(len(tid), 4)
                e["transport_id"] = texp
                status.append(e)
                buf += d + tid
            buf[4:8] = be(len(buf) - 8, 4)
            exp = {"pr_generation": gen, "full_status": status}
            strict_same(
                PersistentReserveInReadFullStatus.unmarshall_datain(buf), exp, "full"
            )
            strict_same(
                PersistentReserveInReadFullStatus.unmarshall_datain(
                    buf + blob(RNG.randint(1, 48))
                ),
                exp,
                "full + tail",
            )
    # transport ids written by the library itself
    for tid in (
        {"tpid_format": 0, "protocol_id": 5, "iscsi_name": "iqn.2005-03.org.x:a"},
        {
            "tpid_format": 1,
            "protocol_id": 5,
            "iscsi_name": "iqn.2005-03.org.x:abcd",
            "iscsi_initiator_session_id": "00023d000001",
        },
        {"tpid_format": 0, "protocol_id": 6, "sas_address": bytearray(b"\x50" * 8)},
        {"tpid_format": 0, "protocol_id": 0, "n_port_name": bytearray(range(8))},
    ):
        raw = PersistentReserveInReadFullStatus.marshall_transport_id(tid)
        strict_same(
            PersistentReserveInReadFullStatus.unmarshall_transport_id(raw), tid, "tid"
        )

    class Dev:
        opcodes = spc
        devicetype = 3

        def __init__(self, data):
            self.data = data

        def execute(self, cmd, en_raw_sense=False):
            cmd.datain[: len(self.data)] = self.data

        def close(self):
            pass

    s = SCSI(None)
    buf = be(3, 4) + be(16, 4) + be(0x1111, 8) + be(0x2222, 8)
    s.device = Dev(buf)
    sa = spc.PERSISTENT_RESERVE_IN.serviceaction
    strict_same(
        s.persistentreservein(sa.READ_KEYS).result,
        {"pr_generation": 3, "reservation_keys": [0x1111, 0x2222]},
    )
    strict_same(
        s.persistentreservein(sa.READ_KEYS, alloclen=24).result,
        {"pr_generation": 3, "reservation_keys": [0x1111, 0x2222]},
    )


# ---------------------------------------------------------------------------
# READ DISC INFORMATION
# ---------------------------------------------------------------------------
def check_readdiscinformation():
    sdi = [
        ("erasable", 2, 0x10),
        ("state_of_last_session", 2, 0x0C),
        ("disc_status", 2, 0x03),
        ("number_of_first_track_on_disc", 3, 0xFF),
        ("did_v", 7, 0x80),
        ("dbc_v", 7, 0x40),
        ("uru", 7, 0x20),
        ("dac_v", 7, 0x10),
        ("legacy", 7, 0x04),
        ("bg_format_status", 7, 0x03),
        ("disc_type", 8, 0xFF),
        ("disc_identification", 12, 0xFFFFFFFF),
        ("last_session_lead_in_start_address", 16, "b", 4),
        ("last_possible_lead_out_start_address", 20, "b", 4),
        ("disc_bar_code", 24, "b", 8),
        ("disc_application_code", 32, 0xFF),
        ("number_of_opc_tables", 33, 0xFF),
    ]
    for nopc in (0, 1, 3):
        for _ in range(40):
            buf = bytearray(34 + 8 * nopc)
            exp = fill(buf, sdi)
            buf[33] = nopc
            exp["number_of_opc_tables"] = nopc
            buf[34:] = blob(8 * nopc)
            buf[0:2] = be(len(buf) - 2, 2)
            exp["disc_information_length"] = len(buf) - 2
            exp["disc_information_data_type"] = 0
            for name, lsb, msb in (
                ("number_of_sessions", 4, 9),
                ("first_track_number_in_last_session", 5, 10),
                ("last_track_number_in_last_session", 6, 11),
            ):
                v = pick(0xFFFF)
                buf[lsb] = v % 256
                buf[msb] = v // 256
                exp[name] = v
            strict_same(ReadDiscInformation.unmarshall_datain(buf), exp, "sdi")
            strict_same(ReadDiscInformation.unmarshall_datain(buf + blob(30)), exp)
    for _ in range(40):
        buf = bytearray(12)
        exp = fill(
            buf,
            [
                ("maximum_possible_number_of_the_tracks", 4, 0xFFFF),
                ("number_of_the_assigned_tracks", 6, 0xFFFF),
                ("maximum_possible_number_of_appendable_tracks", 8, 0xFFFF),
                ("current_number_of_appendable_tracks", 10, 0xFFFF),
            ],
        )
        buf[0:2] = be(10, 2)
        buf[2] = 1 << 5
        exp["disc_information_length"] = 10
        exp["disc_information_data_type"] = 1
        strict_same(ReadDiscInformation.unmarshall_datain(buf), exp, "tri")
        buf = bytearray(16)
        exp = fill(
            buf,
            [
                ("remaining_pow_replacements", 4, 0xFFFFFFFF),
                ("remaining_pow_reallocation_map_entries", 8, 0xFFFFFFFF),
                ("number_of_remaining_pow_updates", 12, 0xFFFFFFFF),
            ],
        )
        buf[0:2] = be(14, 2)
        buf[2] = 2 << 5
        exp["disc_information_length"] = 14
        exp["disc_information_data_type"] = 2
        strict_same(ReadDiscInformation.unmarshall_datain(buf), exp, "pow")
    for t in (3, 4, 7):
        buf = bytearray(34)
        buf[2] = t << 5
        raises(NotImplementedError, ReadDiscInformation.unmarshall_datain, buf)

    class Dev:
        opcodes = mmc
        devicetype = 5

        def __init__(self, data):
            self.data = data

        def execute(self, cmd, en_raw_sense=False):
            cmd.datain[: len(self.data)] = self.data

        def close(self):
            pass

    buf = bytearray(12)
    buf[0:2] = be(10, 2)
    buf[2] = 1 << 5
    buf[4:6] = be(99, 2)
    s = SCSI(None)
    s.device = Dev(buf)
    strict_same(
        s.readdiscinformation(1).result,
        {
            "disc_information_length": 10,
            "disc_information_data_type": 1,
            "maximum_possible_number_of_the_tracks": 99,
            "number_of_the_assigned_tracks": 0,
            "maximum_possible_number_of_appendable_tracks": 0,
            "current_number_of_appendable_tracks": 0,
        },
    )


# ---------------------------------------------------------------------------
# READ CD
# ---------------------------------------------------------------------------
SC2 = [
    ("c", 0, 0xF0),
    ("adr", 0, 0x0F),
    ("track-number", 1, 0xFF),
    ("index-number", 2, 0xFF),
    ("min", 3, 0xFF),
    ("sec", 4, 0xFF),
    ("frame", 5, 0xFF),
    ("zero", 6, 0xFF),
    ("amin", 7, 0xFF),
    ("asec", 8, 0xFF),
    ("aframe", 9, 0xFF),
    ("crc", 10, 0xFFFF),
    ("p", 15, 0x80),
]


def cd_sector(parts, c2ei, scsb):
    """parts: list of main channel pieces in the order MMC transfers them"""
    raw = bytearray()
    exp = {}
    for part in parts:
        if part == "sync":
            v = blob(12)
            exp["sync"] = v
            raw += v
        elif part == "header":
            v = bytearray(4)
            exp["sector-header"] = fill(
                v,
                [
                    ("minute", 0, 0xFF),
                    ("second", 1, 0xFF),
                    ("frame", 2, 0xFF),
                    ("mode", 3, 0xFF),
                ],
            )
            raw += v
        elif part == "subheader":
            subs = []
            for _ in range(2):
                v = blob(4)
                subs.append(
                    {
                        "file-number": v[0],
                        "channel-number": v[1],
                        "sub-mode": v[2],
                        "data": v,
                    }
                )
                raw += v
            exp["sector-subheader"] = subs
        elif part[0] == "data":
            v = blob(part[1])
            exp["data"] = v
            raw += v
        elif part == "edc":
            v = blob(4)
            exp["edc"] = v
            raw += v
        elif part == "zero":
            raw += bytearray(8)
        elif part == "ecc":
            p, q = blob(172), blob(104)
            exp["p-parity"] = p
            exp["q-parity"] = q
            raw += p + q
    if c2ei == 1:
        v = blob(294)
        exp["c2ei-data"] = v
        raw += v
    if c2ei == 2:
        v = blob(296)
        exp["c2ei"] = {"data": v}
        raw += v
    if scsb == 2:
        v = bytearray(16)
        e = fill(v, SC2)
        e["data"] = v
        exp["subchannel"] = e
        raw += v
    if scsb == 4:
        v = blob(96)
        exp["subchannel"] = {"data": v}
        raw += v
    return raw, exp


def check_readcd():
    layouts = [
        # est, mcsb, main channel pieces
        (1, 0x02, [("data", 2352)]),
        (1, 0x1F, [("data", 2352)]),
        (2, 0x02, [("data", 2048)]),
        (2, 0x1F, ["sync", "header", ("data", 2048), "edc", "zero", "ecc"]),
        (2, 0x14, ["sync", "header"]),
        (2, 0x04, ["header"]),
        (3, 0x02, [("data", 2336)]),
        (3, 0x1E, ["sync", "header", ("data", 2336)]),
        (4, 0x02, [("data", 2048)]),
        (4, 0x1F, ["sync", "header", "subheader", ("data", 2048), "edc", "ecc"]),
        (4, 0x08, ["subheader"]),
        (4, 0x0C, ["header", "subheader"]),
        (5, 0x02, [("data", 2324)]),
        (5, 0x1F, ["sync", "header", "subheader", ("data", 2324), "edc"]),
        (5, 0x0A, ["subheader", ("data", 2324)]),
        (0, 0x00, []),
        (0, 0x14, ["sync", "header"]),
        (0, 0x02, []),
    ]
    for est, mcsb, parts in layouts:
        for c2ei in (0, 1, 2):
            for scsb in (0, 2, 4):
                for tl in (1, 3):
                    lba = RNG.choice([0, 16, 0x12345])
                    raw = bytearray()
                    exp = {}
                    for n in range(tl):
                        r, e = cd_sector(parts, c2ei, scsb)
                        raw += r
                        exp[lba + n] = e
                    got = ReadCd.unmarshall_datain(
                        raw, lba=lba, tl=tl, est=est, mcsb=mcsb, c2ei=c2ei, scsb=scsb
                    )
                    strict_same(got, exp, "readcd est=%d mcsb=%#x" % (est, mcsb))
                    got = ReadCd.unmarshall_datain(
                        raw + bytearray(100),
                        lba,
                        tl,
                        est=est,
                        mcsb=mcsb,
                        c2ei=c2ei,
                        scsb=scsb,
                    )
                    strict_same(got, exp, "readcd + slack")
    strict_same(ReadCd.unmarshall_datain(bytearray(10)), {})
    strict_same(ReadCd.unmarshall_datain(bytearray(10), lba=5, tl=0, mcsb=2, est=1), {})
    raises(ValueError, ReadCd.unmarshall_datain, bytearray(4000), 0, 1, est=2, mcsb=0x05)
    raises(ValueError, ReadCd.unmarshall_datain, bytearray(4000), 0, 1, est=4, mcsb=0x06)
    raises(ValueError, ReadCd.unmarshall_datain, bytearray(4000), 0, 1, est=3, mcsb=0x03)
    raises(
        NotImplementedError,
        ReadCd.unmarshall_datain,
        bytearray(4000),
        0,
        1,
        est=0,
        mcsb=0x01,
    )

    class Dev:
        opcodes = mmc
        devicetype = 5

        def __init__(self, data):
            self.data = data

        def execute(self, cmd, en_raw_sense=False):
            cmd.datain[: len(self.data)] = self.data

        def close(self):
            pass

    raw = bytearray()
    exp = {}
    for n in range(2):
        r, e = cd_sector(["sync", "header", ("data", 2048), "edc", "zero", "ecc"], 0, 2)
        raw += r
        exp[7 + n] = e
    s = SCSI(None)
    s.device = Dev(raw)
    strict_same(s.readcd(7, 2, est=2, mcsb=0x1F, scsb=2).result, exp, "scsi.readcd")


def main():
    checks = [
        check_converter,
        check_inquiry_standard,
        check_inquiry_vpd_tables,
        check_inquiry_vpd_lists,
        check_inquiry_device_identification,
        check_inquiry_ata_information,
        check_inquiry_via_scsi,
        check_modesense,
        check_readcapacity,
        check_getlbastatus,
        check_reportluns,
        check_reportpriority,
        check_tpg,
        check_readelementstatus,
        check_persistent_reserve_in,
        check_readdiscinformation,
        check_readcd,
    ]
    failed = 0
    for check in checks:
        try:
            check()
        except Exception:
            failed += 1
            print("FAIL in %s" % check.__name__)
            traceback.print_exc()
    if failed:
        print("FAIL (%d of %d groups)" % (failed, len(checks)))
        return 1
    print("PASS (%d comparisons)" % CHECKS)
    return 0


if __name__ == "__main__":
    sys.exit(main())
