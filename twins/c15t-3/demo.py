#!/usr/bin/env python
"""
Demo / regression check for property C15 (device-handle lifetime and replug
detection of pyscsi.pyscsi.scsi_device.SCSIDevice and friends).

Run as:
    cd /tmp/seed/C15t && PYTHONPATH=/tmp/seed/C15t /venv/bin/python SEED/demo.py

Only the public API of the library is used (SCSIDevice, ISCSIDevice, SCSI,
init_device, the command classes).  The OS is simulated: a tiny fake /dev tree
answers os.stat() and open() for paths below /dev/fake/, and small fake `sgio`
and `iscsi` modules are installed into sys.modules before the library is
imported.
"""
import builtins
import itertools
import os
import sys
import types

# --------------------------------------------------------------------------
# global event log shared by all fakes
# --------------------------------------------------------------------------
EVENTS = []


def log(*ev):
    EVENTS.append(ev)


def clear():
    del EVENTS[:]


def events(kind=None):
    if kind is None:
        return list(EVENTS)
    return [e for e in EVENTS if e[0] == kind]


# --------------------------------------------------------------------------
# fake sgio
# --------------------------------------------------------------------------
sgio = types.ModuleType("sgio")


class CheckConditionError(Exception):
    def __init__(self, sense):
        Exception.__init__(self, "check condition")
        self.sense = sense


class SgioBehaviour(object):
    """what the next sgio.execute calls do"""

    raise_sense = None  # sense buffer -> raise CheckConditionError
    raise_exc = None  # arbitrary exception instance -> raise it


def sgio_execute(fobj, cdb, dataout, datain, *rest, **kw):
    log("sgio", fobj, bytes(cdb), rest, kw)
    if isinstance(fobj, FakeFile) and fobj.closed:
        raise ValueError("I/O operation on closed file")
    if SgioBehaviour.raise_exc is not None:
        raise SgioBehaviour.raise_exc
    if SgioBehaviour.raise_sense is not None:
        raise CheckConditionError(SgioBehaviour.raise_sense)
    # a device answers by writing its inode number into datain, if it fits
    if isinstance(fobj, FakeFile) and len(datain) >= 36:
        # leave byte 0 alone (peripheral device type) unless the node says so
        datain[0] = fobj.node.devtype
    return 0


sgio.execute = sgio_execute
sgio.CheckConditionError = CheckConditionError
sys.modules["sgio"] = sgio

# --------------------------------------------------------------------------
# fake iscsi
# --------------------------------------------------------------------------
iscsi = types.ModuleType("iscsi")
iscsi.SCSI_XFER_NONE = 0
iscsi.SCSI_XFER_READ = 1
iscsi.SCSI_XFER_WRITE = 2
iscsi.ISCSI_SESSION_NORMAL = 2
iscsi.ISCSI_HEADER_DIGEST_NONE_CRC32C = 1


class IscsiBehaviour(object):
    status = 0
    raw_sense = None
    has_sense = True


class Context(object):
    instances = []

    def __init__(self, name):
        self.name = name
        self.connected = 0
        self.disconnected = 0
        self.commands = []
        Context.instances.append(self)
        log("iscsi-context", name)

    def set_targetname(self, t):
        self.target = t

    def set_session_type(self, t):
        self.session = t

    def set_header_digest(self, d):
        self.digest = d

    def connect(self, portal, lun):
        self.connected += 1
        log("iscsi-connect", self, portal, lun)

    def disconnect(self):
        self.disconnected += 1
        log("iscsi-disconnect", self)

    def command(self, lun, task, dataout, datain):
        self.commands.append((lun, task))
        log("iscsi-command", self, lun, bytes(task.cdb))
        task.status = IscsiBehaviour.status
        if IscsiBehaviour.has_sense:
            task.raw_sense = IscsiBehaviour.raw_sense


class URL(object):
    def __init__(self, ctx, url):
        self.ctx = ctx
        self.url = url
        self.target = "iqn.fake:target"
        self.portal = "127.0.0.1:3260"
        self.lun = 3


class Task(object):
    def __init__(self, cdb, direction, xferlen):
        self.cdb = cdb
        self.direction = direction
        self.xferlen = xferlen
        self.status = None


iscsi.Context = Context
iscsi.URL = URL
iscsi.Task = Task
sys.modules["iscsi"] = iscsi

# --------------------------------------------------------------------------
# fake /dev tree
# --------------------------------------------------------------------------
PREFIX = "/dev/fake/"
_ino_counter = itertools.count(1000)


class Node(object):
    def __init__(self, ino=None, devtype=0):
        self.ino = next(_ino_counter) if ino is None else ino
        self.devtype = devtype
        self.handles = []
        # behaviour knobs
        self.close_exc = None  # exception instance raised by handle.close()


class FakeFile(object):
    def __init__(self, path, node, mode, buffering):
        self.path = path
        self.node = node
        self.mode = mode
        self.buffering = buffering
        self.closed = False
        self.close_calls = 0
        self.released = 0  # number of times the OS handle was given back
        node.handles.append(self)

    def close(self):
        self.close_calls += 1
        log("close", self)
        exc = self.node.close_exc
        if exc is not None:
            # like a real file object: the descriptor is gone even if the
            # final flush reported an error
            if not self.closed:
                self.closed = True
                self.released += 1
            raise exc
        if not self.closed:
            self.closed = True
            self.released += 1

    def fileno(self):
        if self.closed:
            raise ValueError("I/O operation on closed file")
        return 4242

    def __repr__(self):
        return "<FakeFile %s ino=%d %s>" % (
            self.path,
            self.node.ino,
            "closed" if self.closed else "open",
        )


class FakeDev(object):
    nodes = {}
    open_exc = {}  # path -> exception raised by open()
    stat_hook = None  # callable(path) run before each stat


class FakeStat(object):
    def __init__(self, ino):
        self.st_ino = ino
        self.st_mode = 0o60660
        self.st_dev = 5
        self.st_nlink = 1
        self.st_uid = 0
        self.st_gid = 6
        self.st_size = 0
        self.st_rdev = 0x800


_real_open = builtins.open
_real_stat = os.stat


def fake_open(file, mode="r", buffering=-1, *args, **kw):
    if isinstance(file, str) and file.startswith(PREFIX):
        log("open", file, mode, buffering, args, kw)
        exc = FakeDev.open_exc.get(file)
        if exc is not None:
            raise exc
        node = FakeDev.nodes.get(file)
        if node is None:
            raise FileNotFoundError(2, "No such file or directory", file)
        return FakeFile(file, node, mode, buffering)
    return _real_open(file, mode, buffering, *args, **kw)


def fake_stat(path, *args, **kw):
    if isinstance(path, str) and path.startswith(PREFIX):
        log("stat", path)
        if FakeDev.stat_hook is not None:
            FakeDev.stat_hook(path)
        node = FakeDev.nodes.get(path)
        if node is None:
            raise FileNotFoundError(2, "No such file or directory", path)
        return FakeStat(node.ino)
    return _real_stat(path, *args, **kw)


builtins.open = fake_open
os.stat = fake_stat

# --------------------------------------------------------------------------
# now the library
# --------------------------------------------------------------------------
import inspect  # noqa: E402

from pyscsi.pyiscsi.iscsi_device import ISCSIDevice  # noqa: E402
from pyscsi.pyscsi import scsi_device as scsi_device_module  # noqa: E402
from pyscsi.pyscsi.scsi import SCSI  # noqa: E402
from pyscsi.pyscsi.scsi_cdb_inquiry import Inquiry  # noqa: E402
from pyscsi.pyscsi.scsi_cdb_testunitready import TestUnitReady  # noqa: E402
from pyscsi.pyscsi.scsi_device import SCSIDevice, get_inode  # noqa: E402
from pyscsi.pyscsi.scsi_enum_command import mmc, sbc, smc, spc, ssc  # noqa: E402
from pyscsi.pyscsi.scsi_sense import SCSICheckCondition  # noqa: E402
from pyscsi.utils import init_device  # noqa: E402

CHECKS = [0]
_path_counter = itertools.count(1)

SENSE = bytearray(
    [0x70, 0, 0x05, 0, 0, 0, 0, 10, 0, 0, 0, 0, 0x24, 0x00, 0, 0, 0, 0]
)


def check(cond, msg):
    CHECKS[0] += 1
    if not cond:
        raise AssertionError(msg)


def fresh_path():
    return "%sdisk%d" % (PREFIX, next(_path_counter))


def plug(path, **kw):
    node = Node(**kw)
    FakeDev.nodes[path] = node
    return node


def unplug(path):
    return FakeDev.nodes.pop(path)


def reset():
    FakeDev.nodes.clear()
    FakeDev.open_exc.clear()
    FakeDev.stat_hook = None
    SgioBehaviour.raise_exc = None
    SgioBehaviour.raise_sense = None
    IscsiBehaviour.status = 0
    IscsiBehaviour.raw_sense = None
    IscsiBehaviour.has_sense = True
    del Context.instances[:]
    clear()


class Cmd(object):
    """minimal command object: what a device needs from a SCSICommand"""

    def __init__(self, tag=0, datain=0, dataout=0):
        self.cdb = bytearray([tag & 0xFF, 0, 0, 0, 0, 0])
        self.datain = bytearray(datain)
        self.dataout = bytearray(dataout)


def sgio_handles():
    return [e[1] for e in events("sgio")]


def only_open_handle(node):
    live = [h for h in node.handles if not h.closed]
    check(len(live) == 1, "expected exactly one live handle, got %r" % (node.handles,))
    return live[0]


def released_once(handle):
    return handle.closed and handle.released == 1 and handle.close_calls == 1


class Boom(Exception):
    pass


class BaseBoom(BaseException):
    pass


TRUTHY = [True, 1, "yes", 2.5, [0], object()]
FALSY = [False, 0, None, "", [], 0.0]
BUFFERINGS = [-1, 0, 1, 4096]


# --------------------------------------------------------------------------
# scenarios
# --------------------------------------------------------------------------
def test_public_surface():
    sig = inspect.signature(SCSIDevice.__init__)
    check(
        list(sig.parameters) == ["self", "device", "readwrite", "detect_replugged", "buffering"],
        "SCSIDevice.__init__ parameters changed: %s" % sig,
    )
    check(sig.parameters["readwrite"].default is False, "readwrite default")
    check(sig.parameters["detect_replugged"].default is True, "detect_replugged default")
    check(sig.parameters["buffering"].default == -1, "buffering default")
    sig = inspect.signature(SCSIDevice.execute)
    check(list(sig.parameters) == ["self", "cmd", "en_raw_sense"], "execute signature %s" % sig)
    check(sig.parameters["en_raw_sense"].default is False, "en_raw_sense default")
    for name in ("open", "close"):
        sig = inspect.signature(getattr(SCSIDevice, name))
        check(list(sig.parameters) == ["self"], "%s signature %s" % (name, sig))
    sig = inspect.signature(ISCSIDevice.__init__)
    check(list(sig.parameters) == ["self", "device", "initiator_name"], "ISCSIDevice.__init__")
    sig = inspect.signature(ISCSIDevice.execute)
    check(list(sig.parameters) == ["self", "cmd", "en_raw_sense"], "ISCSIDevice.execute")
    sig = inspect.signature(init_device)
    check(list(sig.parameters) == ["dev", "read_write", "initiator_name"], "init_device")
    check(sig.parameters["read_write"].default is False, "init_device read_write default")
    sig = inspect.signature(SCSI.execute)
    check(list(sig.parameters) == ["self", "cmd", "en_raw_sense"], "SCSI.execute")
    sig = inspect.signature(get_inode)
    check(list(sig.parameters) == ["file"], "get_inode signature")
    check(scsi_device_module.get_inode is get_inode, "get_inode is module level")
    for exc in ("CheckCondition", "ConditionsMet", "BusyStatus", "ReservationConflict",
                "TaskSetFull", "ACAActive", "TaskAborted"):
        check(issubclass(getattr(SCSIDevice, exc), Exception), "SCSIDevice.%s" % exc)
        check(issubclass(getattr(ISCSIDevice, exc), Exception), "ISCSIDevice.%s" % exc)
    check(issubclass(SCSIDevice.CheckCondition, SCSICheckCondition), "CheckCondition base")


def test_get_inode():
    reset()
    p = fresh_path()
    n = plug(p, ino=77)
    check(get_inode(p) == 77, "get_inode value")
    unplug(p)
    try:
        get_inode(p)
    except FileNotFoundError:
        pass
    else:
        check(False, "get_inode on missing node must raise")
    check(n.handles == [], "get_inode must not open anything")


def test_open_modes():
    for rw in [False, True, 0, 1, None, "", "rw", [], [1]]:
        for buf in BUFFERINGS:
            reset()
            p = fresh_path()
            n = plug(p)
            d = SCSIDevice(p, rw, True, buf)
            opens = events("open")
            check(len(opens) == 1, "exactly one open at construction")
            _, path, mode, buffering, args, kw = opens[0]
            check(path == p, "opened the device path")
            check(mode == ("w+b" if rw else "rb"), "mode for readwrite=%r is %r" % (rw, mode))
            check(buffering == buf, "buffering passed through (%r != %r)" % (buffering, buf))
            check(args == () and kw == {}, "no stray open() arguments")
            check(len(n.handles) == 1 and not n.handles[0].closed, "handle open")
            check(events("sgio") == [], "no command at construction")
            d.close()
            check(released_once(n.handles[0]), "close releases once")
    # keyword form, defaults
    reset()
    p = fresh_path()
    n = plug(p)
    d = SCSIDevice(device=p)
    _, path, mode, buffering, args, kw = events("open")[0]
    check((mode, buffering) == ("rb", -1), "defaults: rb, -1")
    d.close()
    reset()
    p = fresh_path()
    n = plug(p)
    d = SCSIDevice(p, buffering=0, detect_replugged=False, readwrite=True)
    _, path, mode, buffering, args, kw = events("open")[0]
    check((mode, buffering) == ("w+b", 0), "keywords: w+b, 0")
    d.close()
    check(released_once(n.handles[0]), "released once")


def test_constructor_rejects():
    for bad in ["", "dev/sda", "/dev", "/DEV/sda", "iscsi://x/y/1", " /dev/fake/x", "/dev"[:4], "x/dev/fake/a"]:
        reset()
        try:
            SCSIDevice(bad)
        except NotImplementedError as e:
            check(str(e) == "No backend implemented for %s" % bad, "message for %r: %s" % (bad, e))
        else:
            check(False, "SCSIDevice(%r) must raise NotImplementedError" % (bad,))
        check(events("open") == [] and events("stat") == [], "nothing opened for %r" % (bad,))
    # missing node: open() error comes through
    reset()
    p = fresh_path()
    try:
        SCSIDevice(p)
    except FileNotFoundError:
        pass
    else:
        check(False, "opening a missing node must raise")
    # other open error comes through unchanged
    reset()
    p = fresh_path()
    plug(p)
    err = PermissionError(13, "denied", p)
    FakeDev.open_exc[p] = err
    try:
        SCSIDevice(p, True)
    except PermissionError as e:
        check(e is err, "same exception object")
    else:
        check(False, "open error must propagate")


def test_no_replug_keeps_handle():
    for det in TRUTHY + FALSY:
        reset()
        p = fresh_path()
        n = plug(p)
        d = SCSIDevice(p, False, det)
        h = n.handles[0]
        clear()
        for i in range(7):
            r = d.execute(Cmd(i, datain=i * 8))
            check(r is None, "execute returns None")
        hs = sgio_handles()
        check(len(hs) == 7 and all(x is h for x in hs), "all commands on the first handle")
        check([e[2][0] for e in events("sgio")] == list(range(7)), "commands in order, each once")
        check(events("open") == [] and events("close") == [], "no reopen without replug (det=%r)" % (det,))
        if det:
            check(len(events("stat")) == 7, "one node check per command")
        else:
            check(events("stat") == [], "no node checks with detection disabled")
        check(not h.closed, "handle still open")
        d.close()
        check(released_once(h), "released exactly once")
        check(len(n.handles) == 1, "no further handles")


def test_sgio_call_shape():
    reset()
    p = fresh_path()
    n = plug(p)
    d = SCSIDevice(p)
    c = Cmd(9, datain=16, dataout=4)
    seen = []
    orig = sgio.execute

    def spy(*a, **kw):
        seen.append((a, kw))
        return orig(*a, **kw)

    sgio.execute = spy
    try:
        d.execute(c)
    finally:
        sgio.execute = orig
    check(len(seen) == 1, "one sgio call")
    a, kw = seen[0]
    check(kw == {} and len(a) == 4, "four positional arguments")
    check(a[0] is n.handles[0] and a[1] is c.cdb and a[2] is c.dataout and a[3] is c.datain,
          "handle, cdb, dataout, datain objects passed through")
    d.close()


def test_replug_reopens():
    for det in TRUTHY:
        for rw in (False, True):
            for buf in (-1, 0):
                reset()
                p = fresh_path()
                n1 = plug(p)
                d = SCSIDevice(p, rw, det, buf)
                h1 = n1.handles[0]
                d.execute(Cmd(1))
                n2 = plug(p)  # node replaced
                clear()
                d.execute(Cmd(2, datain=36))
                kinds = [e[0] for e in events()]
                check(kinds == ["stat", "close", "open", "stat", "sgio"],
                      "sequence on replug: %r" % (kinds,))
                check(released_once(h1), "stale handle released exactly once")
                check(len(n1.handles) == 1, "no new handle on the old node")
                h2 = only_open_handle(n2)
                check(sgio_handles() == [h2], "command went through the fresh handle")
                check(h2.mode == ("w+b" if rw else "rb") and h2.buffering == buf,
                      "reopened with same mode/buffering")
                _, path, mode, buffering, args, kw = events("open")[0]
                check(path == p and args == () and kw == {}, "reopen of the same path")
                # steady state afterwards
                clear()
                for i in range(3):
                    d.execute(Cmd(i))
                check(all(x is h2 for x in sgio_handles()) and len(sgio_handles()) == 3,
                      "later commands stay on the fresh handle")
                check(events("open") == [] and events("close") == [], "no more reopen")
                d.close()
                check(released_once(h2), "fresh handle released once")
                check(released_once(h1), "stale handle still released exactly once")


def test_many_replugs():
    reset()
    p = fresh_path()
    node = plug(p)
    d = SCSIDevice(p, True)
    nodes = [node]
    for i in range(25):
        if i % 3 != 1:
            nodes.append(plug(p))
        clear()
        d.execute(Cmd(i))
        cur = nodes[-1]
        h = only_open_handle(cur)
        check(sgio_handles() == [h], "round %d: command on current node" % i)
        for old in nodes[:-1]:
            check(len(old.handles) == 1 and released_once(old.handles[0]),
                  "round %d: each stale handle released exactly once" % i)
        check(len(cur.handles) == 1, "round %d: single handle on current node" % i)
    # inode going back to an earlier number but different from the open one
    back = plug(p, ino=nodes[0].ino)
    clear()
    d.execute(Cmd(0))
    check(sgio_handles() == [only_open_handle(back)], "re-used old inode number still detected")
    d.close()
    check(released_once(back.handles[0]), "final release")
    total = sum(len(n.handles) for n in nodes) + len(back.handles)
    check(total == len(nodes) + 1, "one handle per node generation")


def test_replug_disabled():
    for det in FALSY:
        reset()
        p = fresh_path()
        n1 = plug(p)
        d = SCSIDevice(p, False, det)
        h1 = n1.handles[0]
        n2 = plug(p)
        clear()
        d.execute(Cmd(1))
        unplug(p)
        d.execute(Cmd(2))
        n3 = plug(p)
        d.execute(Cmd(3))
        check(sgio_handles() == [h1, h1, h1], "original handle kept (det=%r)" % (det,))
        check(events("stat") == [] and events("open") == [] and events("close") == [],
              "no stat/open/close when disabled")
        check(n2.handles == [] and n3.handles == [], "new nodes never opened")
        check(not h1.closed, "still open")
        d.close()
        check(released_once(h1), "released once")


def test_close_failure_on_replug():
    for exc in (OSError(5, "Input/output error"), Boom("x"), BaseBoom("y"), KeyboardInterrupt()):
        reset()
        p = fresh_path()
        n1 = plug(p)
        d = SCSIDevice(p)
        h1 = n1.handles[0]
        n1.close_exc = exc
        n2 = plug(p)
        clear()
        try:
            d.execute(Cmd(1))
        except BaseException as e:
            check(e is exc, "the close() error is what the caller sees (%r)" % (e,))
        else:
            check(False, "close failure must be reported")
        kinds = [e[0] for e in events()]
        check(kinds == ["stat", "close", "open", "stat"], "sequence with failing close: %r" % (kinds,))
        check(h1.close_calls == 1 and h1.released == 1, "stale handle closed exactly once")
        h2 = only_open_handle(n2)
        check(events("sgio") == [], "command of the failing call not sent on any handle")
        # next command: fresh handle, no further reopen, old handle untouched
        clear()
        d.execute(Cmd(2))
        d.execute(Cmd(3))
        check(sgio_handles() == [h2, h2], "fresh handle is used afterwards")
        check(events("open") == [] and events("close") == [], "no second reopen")
        check(h1.close_calls == 1, "stale handle not closed again")
        d.close()
        check(released_once(h2), "fresh handle released once")


def test_close_and_open_failure_on_replug():
    reset()
    p = fresh_path()
    n1 = plug(p)
    d = SCSIDevice(p)
    h1 = n1.handles[0]
    cexc = OSError(5, "close failed")
    oexc = PermissionError(13, "open failed")
    n1.close_exc = cexc
    n2 = plug(p)
    FakeDev.open_exc[p] = oexc
    clear()
    try:
        d.execute(Cmd(1))
    except PermissionError as e:
        check(e is oexc, "open error reported")
        check(e.__context__ is cexc, "close error chained as context")
    else:
        check(False, "must raise")
    check([e[0] for e in events()] == ["stat", "close", "open"], "stat, close, open attempted")
    check(events("sgio") == [], "nothing sent")
    check(h1.close_calls == 1, "closed once")
    # only open fails
    reset()
    p = fresh_path()
    n1 = plug(p)
    d = SCSIDevice(p)
    h1 = n1.handles[0]
    n2 = plug(p)
    FakeDev.open_exc[p] = oexc
    try:
        d.execute(Cmd(1))
    except PermissionError as e:
        check(e is oexc, "open error reported")
    else:
        check(False, "must raise")
    check(events("sgio") == [], "nothing sent on the stale handle")
    check(released_once(h1), "stale handle was closed once")
    # device comes back: still detected as replugged, a fresh handle is opened
    del FakeDev.open_exc[p]
    clear()
    d.execute(Cmd(2))
    h2 = only_open_handle(n2)
    check(sgio_handles() == [h2], "recovered onto fresh handle")
    check(h1.close_calls == 2 and h1.released == 1,
          "stale python handle closed again (no-op), OS handle released once")
    d.close()
    check(released_once(h2), "fresh released once")


def test_vanished_node():
    for det in TRUTHY[:3]:
        reset()
        p = fresh_path()
        n1 = plug(p)
        d = SCSIDevice(p, False, det)
        h1 = n1.handles[0]
        d.execute(Cmd(0))
        unplug(p)
        clear()
        for i in range(3):
            try:
                d.execute(Cmd(1))
            except FileNotFoundError as e:
                check(e.filename == p, "error names the path")
            else:
                check(False, "vanished node must be an error")
        check(events("sgio") == [], "old handle not silently used")
        check(events("open") == [] and events("close") == [], "nothing opened/closed")
        check(not h1.closed, "old handle left alone")
        # same node comes back -> original handle goes on
        FakeDev.nodes[p] = n1
        clear()
        d.execute(Cmd(2))
        check(sgio_handles() == [h1], "same node back: same handle")
        check(events("open") == [], "no reopen")
        # vanish again, new node appears
        unplug(p)
        try:
            d.execute(Cmd(3))
        except FileNotFoundError:
            pass
        else:
            check(False, "must raise")
        n2 = plug(p)
        clear()
        d.execute(Cmd(4))
        check(released_once(h1), "old released once")
        check(sgio_handles() == [only_open_handle(n2)], "new node used")
        d.close()
        check(released_once(n2.handles[0]), "released once")


def test_vanish_between_close_and_reopen():
    # node is replaced, and disappears at the moment the stale handle is closed
    reset()
    p = fresh_path()
    n1 = plug(p)
    d = SCSIDevice(p)
    h1 = n1.handles[0]
    n2 = plug(p)
    real_close = FakeFile.close

    def vanishing_close(self):
        real_close(self)
        FakeDev.nodes.pop(p, None)

    FakeFile.close = vanishing_close
    try:
        try:
            d.execute(Cmd(1))
        except FileNotFoundError:
            pass
        else:
            check(False, "must raise")
    finally:
        FakeFile.close = real_close
    check(events("sgio") == [], "nothing sent")
    check(released_once(h1), "stale handle released once")
    # still vanished
    try:
        d.execute(Cmd(1))
    except FileNotFoundError:
        pass
    else:
        check(False, "must raise")
    check(events("sgio") == [], "nothing sent")
    n3 = plug(p)
    clear()
    d.execute(Cmd(2))
    check(sgio_handles() == [only_open_handle(n3)], "recovered")
    check(h1.released == 1, "OS handle of first generation released once")
    d.close()

    # node vanishes right after the reopen (stat after open fails)
    reset()
    p = fresh_path()
    n1 = plug(p)
    d = SCSIDevice(p)
    h1 = n1.handles[0]
    n2 = plug(p)
    count = [0]

    def hook(path):
        count[0] += 1
        if count[0] == 2:
            FakeDev.nodes.pop(path, None)

    FakeDev.stat_hook = hook
    clear()
    try:
        d.execute(Cmd(1))
    except FileNotFoundError:
        pass
    else:
        check(False, "must raise")
    FakeDev.stat_hook = None
    check(events("sgio") == [], "nothing sent")
    check(released_once(h1), "stale released once")
    h2 = only_open_handle(n2)
    # n2 returns: inode differs from the remembered one -> reopen; h2 closed once
    FakeDev.nodes[p] = n2
    clear()
    d.execute(Cmd(2))
    check(released_once(h2), "intermediate handle released once")
    h3 = only_open_handle(n2)
    check(sgio_handles() == [h3], "current handle used")
    d.close()
    check(released_once(h3), "released once")


def test_close_and_with():
    for det in (True, False):
        # plain close
        reset()
        p = fresh_path()
        n = plug(p)
        d = SCSIDevice(p, False, det)
        check(d.close() is None, "close returns None")
        check(released_once(n.handles[0]), "close(): released once")
        check(events("close") == [("close", n.handles[0])], "one close call")
        # with, normal exit
        reset()
        p = fresh_path()
        n = plug(p)
        with SCSIDevice(p, True, det) as d:
            check(isinstance(d, SCSIDevice), "__enter__ returns the device")
            h = n.handles[0]
            check(not h.closed, "open inside the block")
            d.execute(Cmd(1))
            check(events("close") == [], "not closed inside block")
        check(released_once(h), "with: released once")
        check(len(n.handles) == 1, "one handle")
        # enter returns self
        reset()
        p = fresh_path()
        n = plug(p)
        dev = SCSIDevice(p, False, det)
        with dev as d2:
            check(d2 is dev, "__enter__ returns self")
        check(released_once(n.handles[0]), "released once")
        # with, exception
        for exc in (Boom("inside"), BaseBoom("inside"), KeyboardInterrupt(), SystemExit(3)):
            reset()
            p = fresh_path()
            n = plug(p)
            try:
                with SCSIDevice(p, False, det) as d:
                    h = n.handles[0]
                    d.execute(Cmd(1))
                    raise exc
            except BaseException as e:
                check(e is exc, "exception leaves the block unchanged")
            else:
                check(False, "exception must not be swallowed")
            check(released_once(h), "with+exception: released once")
        # with, replug inside block
        reset()
        p = fresh_path()
        n1 = plug(p)
        with SCSIDevice(p, False, det) as d:
            h1 = n1.handles[0]
            d.execute(Cmd(1))
            n2 = plug(p)
            d.execute(Cmd(2))
            d.execute(Cmd(3))
        if det:
            h2 = n2.handles[0]
            check(released_once(h1) and released_once(h2) and len(n2.handles) == 1,
                  "both generations released exactly once")
            check(sgio_handles() == [h1, h2, h2], "handles used")
        else:
            check(released_once(h1) and n2.handles == [], "original kept and released once")
            check(sgio_handles() == [h1, h1, h1], "original used")
        # with, CheckCondition escaping
        reset()
        p = fresh_path()
        n = plug(p)
        SgioBehaviour.raise_sense = SENSE
        try:
            with SCSIDevice(p, False, det) as d:
                d.execute(Cmd(1))
        except SCSIDevice.CheckCondition:
            pass
        else:
            check(False, "CheckCondition expected")
        check(released_once(n.handles[0]), "released once after CheckCondition")
        # with, vanished node error escaping
        if det:
            reset()
            p = fresh_path()
            n = plug(p)
            try:
                with SCSIDevice(p) as d:
                    unplug(p)
                    d.execute(Cmd(1))
            except FileNotFoundError:
                pass
            else:
                check(False, "expected error")
            check(released_once(n.handles[0]), "released once after vanish error")
            check(events("sgio") == [], "nothing sent")
        # close error leaves with block
        reset()
        p = fresh_path()
        n = plug(p)
        err = OSError(5, "flush")
        n.close_exc = err
        try:
            with SCSIDevice(p, False, det):
                pass
        except OSError as e:
            check(e is err, "close error propagates from with")
        else:
            check(False, "expected close error")
        check(n.handles[0].close_calls == 1 and n.handles[0].released == 1, "one close attempt")


def test_check_condition():
    for det in (True, False):
        for replug in (False, True):
            for raw in (False, True, 0, 1, None, "x"):
                reset()
                p = fresh_path()
                n = plug(p)
                d = SCSIDevice(p, False, det)
                if replug:
                    n = plug(p)
                SgioBehaviour.raise_sense = SENSE
                c = Cmd(1)
                clear()
                try:
                    if raw is False:
                        r = d.execute(c)
                    else:
                        r = d.execute(c, en_raw_sense=raw)
                except SCSIDevice.CheckCondition as e:
                    check(not raw, "raised only when raw sense is not requested")
                    check(e.asc == 0x24 and e.ascq == 0 and e.data["sense_key"] == 5, "sense decoded")
                    check(isinstance(e, SCSICheckCondition), "is a SCSICheckCondition")
                    check(isinstance(e.__context__, CheckConditionError), "raised while handling sgio error")
                    check(not hasattr(c, "raw_sense_data"), "no raw sense stored")
                else:
                    check(bool(raw), "must raise CheckCondition when raw sense not requested")
                    check(r is None, "returns None")
                    check(c.raw_sense_data is SENSE, "raw sense stored on the command")
                hs = sgio_handles()
                check(len(hs) == 1, "sent once")
                if det and replug:
                    check(hs[0] is only_open_handle(n), "sent on fresh handle")
                else:
                    check(hs[0].node is (n if not replug else hs[0].node), "sent")
                    check(events("open") == [], "no reopen")
                # handle stays usable
                SgioBehaviour.raise_sense = None
                d.execute(Cmd(2))
                check(sgio_handles()[-1] is hs[0], "same handle after a check condition")
                d.close()
                check(released_once(hs[0]), "released once")
    # positional en_raw_sense
    reset()
    p = fresh_path()
    plug(p)
    d = SCSIDevice(p)
    SgioBehaviour.raise_sense = SENSE
    c = Cmd(1)
    d.execute(c, True)
    check(c.raw_sense_data is SENSE, "positional en_raw_sense")
    # empty sense
    SgioBehaviour.raise_sense = b""
    try:
        d.execute(Cmd(1))
    except SCSIDevice.CheckCondition as e:
        check(e.asc == 0 and e.ascq == 0, "empty sense tolerated")
    else:
        check(False, "expected CheckCondition")
    # other transport errors pass through unchanged
    SgioBehaviour.raise_sense = None
    err = OSError(5, "ioctl failed")
    SgioBehaviour.raise_exc = err
    try:
        d.execute(Cmd(1))
    except OSError as e:
        check(e is err, "transport error unchanged")
    else:
        check(False, "expected OSError")
    d.close()


def test_init_device():
    for rw in (False, True, 0, 1):
        reset()
        p = fresh_path()
        n1 = plug(p)
        if rw is False:
            d = init_device(p)
        else:
            d = init_device(p, rw)
        check(type(d) is SCSIDevice, "init_device gives a SCSIDevice")
        h1 = n1.handles[0]
        check(h1.mode == ("w+b" if rw else "rb") and h1.buffering == -1, "mode via init_device")
        n2 = plug(p)
        clear()
        d.execute(Cmd(1))
        check(released_once(h1), "init_device device detects replug by default")
        check(sgio_handles() == [only_open_handle(n2)], "fresh handle")
        with d as dd:
            check(dd is d, "usable as context manager")
        check(released_once(n2.handles[0]), "released once")
    reset()
    p = fresh_path()
    n = plug(p)
    d = init_device(dev=p, read_write=True, initiator_name="ignored")
    check(n.handles[0].mode == "w+b", "keywords")
    d.close()
    for bad in ["", "sda", "/dev", "iscsi:/x", "ISCSI://x", "http://x", "/de/v/"]:
        reset()
        try:
            init_device(bad)
        except NotImplementedError as e:
            check(str(e) == "No backend implemented for %s" % bad, "message %s" % e)
        else:
            check(False, "init_device(%r) must raise" % (bad,))
        check(events() == [], "nothing touched for %r" % (bad,))
    # iscsi through init_device
    reset()
    d = init_device("iscsi://127.0.0.1/iqn.fake:target/3", False, "iqn.me")
    check(type(d) is ISCSIDevice, "iscsi url gives ISCSIDevice")
    check(len(Context.instances) == 1 and Context.instances[0].name == "iqn.me", "initiator name used")
    d.close()
    check(Context.instances[0].disconnected == 1, "disconnected once")
    reset()
    d = init_device("iscsi://127.0.0.1/iqn.fake:target/3")
    check(Context.instances[0].name.startswith("iqn.2018-01.org.pyscsi:"), "default initiator")
    d.close()


def test_scsi_wrapper():
    expected = {0: sbc, 4: sbc, 7: sbc, 1: ssc, 2: ssc, 9: ssc, 3: spc, 8: smc, 5: mmc, 6: spc, 0x0C: spc}
    for devtype, opcodes in sorted(expected.items()):
        reset()
        p = fresh_path()
        n1 = plug(p, devtype=devtype)
        dev = SCSIDevice(p)
        h1 = n1.handles[0]
        with SCSI(dev) as s:
            check(s.device is dev, "device kept")
            check(dev.devicetype == devtype, "devicetype discovered via inquiry")
            check(dev.opcodes is opcodes, "opcode table for type %d" % devtype)
            check(sgio_handles() == [h1], "inquiry went through the handle")
            n2 = plug(p, devtype=devtype)
            clear()
            s.testunitready()
            h2 = only_open_handle(n2)
            check(sgio_handles() == [h2], "wrapper command follows replug")
            check(released_once(h1), "stale released once")
            cmd = s.inquiry()
            check(cmd.result["peripheral_device_type"] == devtype, "data from the fresh node")
            s.execute(Cmd(3))
            s.execute(Cmd(4), en_raw_sense=True)
            s.execute(Cmd(5), True)
            check(all(x is h2 for x in sgio_handles()), "all on fresh handle")
        check(released_once(h2), "SCSI with-block releases handle once")
        check(released_once(h1), "and the stale one stays released once")
    # exception inside SCSI with-block
    reset()
    p = fresh_path()
    n = plug(p)
    exc = Boom("in scsi block")
    try:
        with SCSI(SCSIDevice(p, True, False)) as s:
            s.testunitready()
            raise exc
    except Boom as e:
        check(e is exc, "propagates")
    else:
        check(False, "not swallowed")
    check(released_once(n.handles[0]), "released once")
    # errors through the wrapper
    reset()
    p = fresh_path()
    n = plug(p)
    s = SCSI(SCSIDevice(p))
    unplug(p)
    clear()
    try:
        s.testunitready()
    except FileNotFoundError:
        pass
    else:
        check(False, "vanished node via wrapper must raise")
    check(events("sgio") == [], "not sent")
    FakeDev.nodes[p] = n
    SgioBehaviour.raise_sense = SENSE
    try:
        s.testunitready()
    except SCSIDevice.CheckCondition as e:
        check(e.asc == 0x24, "check condition via wrapper")
    else:
        check(False, "expected CheckCondition")
    SgioBehaviour.raise_sense = None
    # SCSI.__call__ switches device
    p2 = fresh_path()
    m = plug(p2, devtype=5)
    dev2 = SCSIDevice(p2)
    s(dev2)
    check(s.device is dev2 and dev2.opcodes is mmc, "re-targeted")
    clear()
    s.testunitready()
    check(sgio_handles() == [m.handles[0]], "commands on the new device")
    s.device.close()
    check(released_once(m.handles[0]), "released once")
    check(not n.handles[0].closed, "first device untouched by closing second")
    # real command objects directly on the device
    reset()
    p = fresh_path()
    n = plug(p, devtype=1)
    with SCSIDevice(p) as d:
        i = Inquiry(d.opcodes.INQUIRY, alloclen=96)
        d.execute(i)
        i.unmarshall()
        check(i.result["peripheral_device_type"] == 1, "inquiry result")
        n2 = plug(p, devtype=5)
        i = Inquiry(d.opcodes.INQUIRY, alloclen=96)
        d.execute(i)
        i.unmarshall()
        check(i.result["peripheral_device_type"] == 5, "inquiry answered by the new node")
        d.execute(TestUnitReady(d.opcodes.TEST_UNIT_READY))
    check(released_once(n.handles[0]) and released_once(n2.handles[0]), "released once each")


def test_subclass_hooks():
    """open()/close() are public: the replug path goes through them"""
    calls = []

    class Traced(SCSIDevice):
        def open(self):
            calls.append("open")
            SCSIDevice.open(self)

        def close(self):
            calls.append("close")
            SCSIDevice.close(self)

    reset()
    p = fresh_path()
    n1 = plug(p)
    d = Traced(p)
    check(calls == ["open"], "constructor opens through open()")
    d.execute(Cmd(1))
    check(calls == ["open"], "no reopen")
    n2 = plug(p)
    d.execute(Cmd(2))
    check(calls == ["open", "close", "open"], "replug goes through close() then open()")
    with d:
        pass
    check(calls == ["open", "close", "open", "close"], "with-exit goes through close()")
    check(released_once(n1.handles[0]) and released_once(n2.handles[0]), "released once each")
    check(issubclass(Traced.CheckCondition, SCSICheckCondition), "subclass has exception classes")

    # manual open()/close() by the user
    reset()
    p = fresh_path()
    n1 = plug(p)
    d = SCSIDevice(p)
    h1 = n1.handles[0]
    d.close()
    n2 = plug(p)
    check(d.open() is None, "open returns None")
    h2 = only_open_handle(n2)
    clear()
    d.execute(Cmd(1))
    check(sgio_handles() == [h2], "reopened by hand: current node, no extra reopen")
    check(events("open") == [] and events("close") == [], "no reopen needed")
    d.close()
    check(released_once(h1) and released_once(h2), "each released once")


def test_properties():
    reset()
    p = fresh_path()
    n = plug(p)
    d = SCSIDevice(p)
    check(d.opcodes is spc, "default opcodes are spc")
    d.opcodes = smc
    check(d.opcodes is smc, "opcodes setter")
    d.devicetype = 8
    check(d.devicetype == 8, "devicetype setter")
    check(repr(d) == "SCSIDevice", "repr")
    n2 = plug(p)
    d.execute(Cmd(1))
    check(d.opcodes is smc and d.devicetype == 8, "reopen keeps opcodes/devicetype")
    d.close()


def test_iscsi_device():
    for name in ("iqn.me", ""):
        reset()
        url = "iscsi://127.0.0.1/iqn.fake:target/3"
        with ISCSIDevice(url, name) as d:
            check(isinstance(d, ISCSIDevice), "enter returns device")
            ctx = Context.instances[0]
            check(len(Context.instances) == 1, "one context")
            check(ctx.name == (name if name else url), "context name")
            check(ctx.connected == 1 and ctx.disconnected == 0, "connected once")
            check(ctx.target == "iqn.fake:target" and ctx.session == 2 and ctx.digest == 1, "session set up")
            check(d.opcodes is spc, "default opcodes")
            check(d.execute(Cmd(1, datain=8)) is None, "GOOD returns None")
            check(d.execute(Cmd(2, dataout=8)) is None, "GOOD returns None")
            check(d.execute(Cmd(3)) is None, "GOOD returns None")
            t = [x[1] for x in ctx.commands]
            check([(x.direction, x.xferlen) for x in t] == [(1, 8), (2, 8), (0, 0)], "transfer setup")
            check(all(x[0] == 3 for x in ctx.commands), "lun")
        check(ctx.connected == 1 and ctx.disconnected == 1, "with: disconnected exactly once")
        reset()
        exc = Boom("x")
        try:
            with ISCSIDevice(url, name) as d:
                ctx = Context.instances[0]
                raise exc
        except Boom as e:
            check(e is exc, "propagates")
        else:
            check(False, "must propagate")
        check(ctx.disconnected == 1, "with+exception: disconnected once")
        reset()
        d = ISCSIDevice(url, name)
        check(d.close() is None, "close returns None")
        check(Context.instances[0].disconnected == 1, "close(): disconnected once")
    # status mapping
    table = {
        0x04: "ConditionsMet",
        0x08: "BusyStatus",
        0x18: "ReservationConflict",
        0x28: "TaskSetFull",
        0x30: "ACAActive",
        0x40: "TaskAborted",
    }
    reset()
    url = "iscsi://127.0.0.1/iqn.fake:target/3"
    d = ISCSIDevice(url, "iqn.me")
    for status, name in sorted(table.items()):
        IscsiBehaviour.status = status
        try:
            d.execute(Cmd(1))
        except Exception as e:
            check(type(e) is getattr(ISCSIDevice, name), "status 0x%02x -> %s (got %r)" % (status, name, e))
        else:
            check(False, "status 0x%02x must raise" % status)
    for status in (0xFF, 0x01, 0x22, None, "x"):
        IscsiBehaviour.status = status
        try:
            d.execute(Cmd(1))
        except RuntimeError as e:
            check(type(e) is RuntimeError, "unknown status -> RuntimeError")
        else:
            check(False, "unknown status must raise")
    IscsiBehaviour.status = 0x02
    for raw in (False, True):
        IscsiBehaviour.raw_sense = SENSE
        IscsiBehaviour.has_sense = True
        c = Cmd(1)
        try:
            d.execute(c, en_raw_sense=raw)
        except ISCSIDevice.CheckCondition as e:
            check(e.asc == 0x24, "sense decoded")
            check(c.sense is SENSE, "sense stored on command")
            check((c.raw_sense_data is SENSE) if raw else not hasattr(c, "raw_sense_data"), "raw sense")
        else:
            check(False, "CHECK CONDITION must raise")
        IscsiBehaviour.has_sense = False
        c = Cmd(1)
        try:
            d.execute(c, raw)
        except ISCSIDevice.CheckCondition as e:
            check(c.sense is None and e.asc == 0, "no sense available")
        else:
            check(False, "CHECK CONDITION must raise")
    d.close()
    check(Context.instances[0].disconnected == 1, "disconnected once")
    for bad in ["", "/dev/fake/x", "iscsi:/", "ISCSI://a", "iscsi:/ /a"]:
        reset()
        try:
            ISCSIDevice(bad)
        except NotImplementedError as e:
            check(str(e) == "No backend implemented for %s" % bad, "message")
        else:
            check(False, "ISCSIDevice(%r) must raise" % (bad,))
        check(Context.instances == [], "no context created")
    # SCSI wrapper over iscsi
    reset()
    with SCSI(ISCSIDevice(url, "iqn.me")) as s:
        ctx = Context.instances[0]
        check(s.device.devicetype == 0 and s.device.opcodes is sbc, "inquiry via iscsi")
        s.testunitready()
    check(ctx.disconnected == 1, "SCSI with-block disconnects once")


def test_two_devices_independent():
    reset()
    pa, pb = fresh_path(), fresh_path()
    a1, b1 = plug(pa), plug(pb)
    da, db = SCSIDevice(pa), SCSIDevice(pb, True, False)
    ha, hb = a1.handles[0], b1.handles[0]
    a2, b2 = plug(pa), plug(pb)
    clear()
    db.execute(Cmd(1))
    check(sgio_handles() == [hb] and not ha.closed, "b keeps handle, a untouched")
    da.execute(Cmd(2))
    check(released_once(ha) and not hb.closed, "a reopened, b untouched")
    check(sgio_handles()[-1] is only_open_handle(a2), "a on fresh node")
    # same path, two devices
    dc = SCSIDevice(pa)
    hc = [h for h in a2.handles if not h.closed][-1]
    a3 = plug(pa)
    clear()
    da.execute(Cmd(3))
    dc.execute(Cmd(4))
    h = [x for x in a3.handles]
    check(len(h) == 2 and sgio_handles() == h, "each device got its own fresh handle")
    check(all(released_once(x) for x in a2.handles), "both stale handles released once")
    for dev in (da, db, dc):
        dev.close()
    check(all(released_once(x) for x in a3.handles) and released_once(hb), "all released once")
    check(b2.handles == [], "b never followed")


def main():
    tests = [
        test_public_surface,
        test_get_inode,
        test_open_modes,
        test_constructor_rejects,
        test_no_replug_keeps_handle,
        test_sgio_call_shape,
        test_replug_reopens,
        test_many_replugs,
        test_replug_disabled,
        test_close_failure_on_replug,
        test_close_and_open_failure_on_replug,
        test_vanished_node,
        test_vanish_between_close_and_reopen,
        test_close_and_with,
        test_check_condition,
        test_init_device,
        test_scsi_wrapper,
        test_subclass_hooks,
        test_properties,
        test_iscsi_device,
        test_two_devices_independent,
    ]
    failed = 0
    for t in tests:
        try:
            t()
        except AssertionError as e:
            failed += 1
            print("FAIL %s: %s" % (t.__name__, e))
        except BaseException as e:  # noqa
            failed += 1
            import traceback

            traceback.print_exc()
            print("ERROR %s: %r" % (t.__name__, e))
    if failed:
        print("FAILED (%d of %d scenarios, %d checks run)" % (failed, len(tests), CHECKS[0]))
        return 1
    print("PASS (%d scenarios, %d checks)" % (len(tests), CHECKS[0]))
    return 0


if __name__ == "__main__":
    sys.exit(main())
