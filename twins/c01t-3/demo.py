# coding: utf-8
"""
Demo / oracle for property C01 (CDB layout).

For every command the library can build, on every command set that offers it,
the CDB handed to the transport has the length SAM prescribes for the
operation code and carries each argument at exactly the byte/bit position the
standards assign to it, with the right operation code / service action and all
other bits zero.

The expected CDB is computed by an INDEPENDENT reference encoder that is driven
by a layout table written in "byte n, bit m, width w" terms straight from the
standards (it does not use the library's bitmask tables or its converter).

Run:  cd /tmp/seed/C01t && PYTHONPATH=/tmp/seed/C01t /venv/bin/python SEED/demo.py
"""
import importlib
import random
import sys
import types

# the real transports are optional C bindings; the library only needs them when
# a real device is opened.  Provide inert stand-ins if they are not installed.
for _name in ("sgio", "iscsi"):
    try:
        importlib.import_module(_name)
    except Exception:  # pragma: no cover
        sys.modules[_name] = types.ModuleType(_name)

from pyscsi.pyscsi import scsi_enum_command as EC
from pyscsi.pyscsi.scsi import SCSI
from pyscsi.pyscsi.scsi_cdb_atapassthrough12 import ATAPassThrough12
from pyscsi.pyscsi.scsi_cdb_atapassthrough16 import ATAPassThrough16
from pyscsi.pyscsi.scsi_cdb_exchangemedium import ExchangeMedium
from pyscsi.pyscsi.scsi_cdb_extended_copy_spc4 import ExtendedCopy as ExtendedCopy4
from pyscsi.pyscsi.scsi_cdb_extended_copy_spc5 import ExtendedCopy as ExtendedCopy5
from pyscsi.pyscsi.scsi_cdb_getlbastatus import GetLBAStatus
from pyscsi.pyscsi.scsi_cdb_initelementstatus import InitializeElementStatus
from pyscsi.pyscsi.scsi_cdb_initelementstatuswithrange import (
    InitializeElementStatusWithRange,
)
from pyscsi.pyscsi.scsi_cdb_inquiry import Inquiry
from pyscsi.pyscsi.scsi_cdb_modesense6 import ModeSelect6, ModeSense6
from pyscsi.pyscsi.scsi_cdb_modesense10 import ModeSelect10, ModeSense10
from pyscsi.pyscsi.scsi_cdb_movemedium import MoveMedium
from pyscsi.pyscsi.scsi_cdb_openclose_exportimport_element import (
    OpenCloseImportExportElement,
)
from pyscsi.pyscsi.scsi_cdb_persistentreservein import (
    PersistentReserveIn,
    PersistentReserveInReadFullStatus,
    PersistentReserveInReadKeys,
    PersistentReserveInReadReservation,
    PersistentReserveInReportCapabilities,
)
from pyscsi.pyscsi.scsi_cdb_persistentreserveout import PersistentReserveOut
from pyscsi.pyscsi.scsi_cdb_positiontoelement import PositionToElement
from pyscsi.pyscsi.scsi_cdb_preventallow_mediumremoval import PreventAllowMediumRemoval
from pyscsi.pyscsi.scsi_cdb_read10 import Read10
from pyscsi.pyscsi.scsi_cdb_read12 import Read12
from pyscsi.pyscsi.scsi_cdb_read16 import Read16
from pyscsi.pyscsi.scsi_cdb_readcapacity10 import ReadCapacity10
from pyscsi.pyscsi.scsi_cdb_readcapacity16 import ReadCapacity16
from pyscsi.pyscsi.scsi_cdb_readcd import ReadCd
from pyscsi.pyscsi.scsi_cdb_readdiscinformation import ReadDiscInformation
from pyscsi.pyscsi.scsi_cdb_readelementstatus import ReadElementStatus
from pyscsi.pyscsi.scsi_cdb_report_luns import ReportLuns
from pyscsi.pyscsi.scsi_cdb_report_priority import ReportPriority
from pyscsi.pyscsi.scsi_cdb_report_target_port_groups import ReportTargetPortGroups
from pyscsi.pyscsi.scsi_cdb_synchronize_cache10 import SynchronizeCache10
from pyscsi.pyscsi.scsi_cdb_synchronize_cache16 import SynchronizeCache16
from pyscsi.pyscsi.scsi_cdb_testunitready import TestUnitReady
from pyscsi.pyscsi.scsi_cdb_write10 import Write10
from pyscsi.pyscsi.scsi_cdb_write12 import Write12
from pyscsi.pyscsi.scsi_cdb_write16 import Write16
from pyscsi.pyscsi.scsi_cdb_writesame10 import WriteSame10
from pyscsi.pyscsi.scsi_cdb_writesame16 import WriteSame16
from pyscsi.pyscsi.scsi_command import SCSICommand
from pyscsi.pyscsi.scsi_opcode import OpCode
from pyscsi.utils.converter import (
    decode_bits,
    encode_dict,
    scsi_ba_to_int,
    scsi_int_to_ba,
)

RNG = random.Random(0xC01)
CHECKS = 0
FAILURES = []


def check(cond, msg):
    global CHECKS
    CHECKS += 1
    if not cond:
        FAILURES.append(msg)
        if len(FAILURES) > 40:
            finish()


def finish():
    if FAILURES:
        print("FAIL (%d failures, %d checks)" % (len(FAILURES), CHECKS))
        for f in FAILURES[:40]:
            print("  -", f)
        sys.exit(1)
    print("PASS (%d checks)" % CHECKS)
    sys.exit(0)


# --------------------------------------------------------------------------
# A transport that records exactly what it was handed
# --------------------------------------------------------------------------
ENUMS = {"spc": EC.spc, "sbc": EC.sbc, "ssc": EC.ssc, "smc": EC.smc, "mmc": EC.mmc}
# SPC-x peripheral device type -> command set the library selects
DEVICE_TYPES = {
    0x00: "sbc",
    0x04: "sbc",
    0x07: "sbc",
    0x01: "ssc",
    0x02: "ssc",
    0x09: "ssc",
    0x03: "spc",
    0x08: "smc",
    0x05: "mmc",
}


class RecordingDevice(object):
    """Looks like a SCSIDevice: default SPC opcodes, execute(), close()."""

    def __init__(self, device_type):
        self.opcodes = EC.spc
        self.devicetype = None
        self._device_type = device_type
        self.log = []
        self.closed = 0

    def execute(self, cmd, en_raw_sense=False):
        cdb = cmd.cdb
        self.log.append((type(cdb), bytes(cdb), en_raw_sense, cmd))
        if cdb[0] == 0x12 and not (cdb[1] & 1) and len(cmd.datain):
            cmd.datain[0] = self._device_type

    def open(self):
        pass

    def close(self):
        self.closed += 1


class SmallProduct(int):
    """
    An integer whose product with anything is tiny.  Lets us use full-range
    transfer lengths without the library allocating multi-gigabyte buffers
    (buffer sizes are not what this property is about).
    """

    def __mul__(self, other):
        return 4

    __rmul__ = __mul__


class MyInt(int):
    """a plain int subclass (e.g. what an IntEnum member / numpy-free wrapper is)"""


# --------------------------------------------------------------------------
# Reference encoder
# --------------------------------------------------------------------------
# SAM-5 5.2: CDB length by group code (top 3 bits of the operation code)
def sam_length(opcode):
    group = (opcode >> 5) & 7
    return {0: 6, 1: 10, 2: 10, 4: 16, 5: 12}.get(group)


def ref_cdb(length, opcode, placed):
    """
    placed: iterable of ((lsb_byte, lsb_bit, width), value).  A field's least
    significant bit sits at bit `lsb_bit` of byte `lsb_byte`; wider fields grow
    towards lower byte numbers (big endian), as in every T10 CDB table.
    """
    total = opcode << (8 * (length - 1))
    for (lsb_byte, lsb_bit, width), value in placed:
        value = int(value)
        assert 0 <= value < (1 << width), (lsb_byte, lsb_bit, width, value)
        total |= value << (8 * (length - 1 - lsb_byte) + lsb_bit)
    return total.to_bytes(length, "big")


def edge_values(width, cap=None):
    top = (1 << width) - 1
    vals = {0, 1, top, top - 1 if top else 0, 1 << (width - 1)}
    vals.add(int("55" * 8, 16) & top)
    vals.add(int("AA" * 8, 16) & top)
    vals.add(int("0102030405060708", 16) & top)
    for _ in range(3):
        vals.add(RNG.getrandbits(width))
    # every single bit on its own
    for b in range(width):
        vals.add(1 << b)
    if cap is not None:
        vals = {v for v in vals if v <= cap} | {cap, cap - 1 if cap else 0}
    return sorted(vals)


def rand_value(width, cap=None):
    v = RNG.getrandbits(width)
    if cap is not None and v > cap:
        v = v % (cap + 1)
    return v


# --------------------------------------------------------------------------
# Layout table.  (lsb_byte, lsb_bit, width)
# --------------------------------------------------------------------------
REQ = object()  # marker: required argument


class Spec(object):
    def __init__(
        self,
        method,
        sets,
        opcode,
        pos,
        kw,
        fields,
        const=(),
        cls=None,
        blocksize=False,
        data=False,
        caps=None,
        raw_sense=False,
        cls_kwonly=False,
    ):
        self.method = method  # SCSI.<method>
        self.sets = set(sets)  # command sets that offer it
        self.opcode = opcode
        self.length = sam_length(opcode)
        self.pos = pos  # positional args of SCSI.<method> (all required)
        self.kw = kw  # optional args: name -> default
        self.fields = fields  # arg name -> (lsb_byte, lsb_bit, width)
        self.const = list(const)  # [((lsb_byte, lsb_bit, width), value)]
        self.cls = cls
        self.blocksize = blocksize
        self.data = data  # has a `data` positional after pos (write family)
        self.caps = caps or {}
        self.raw_sense = raw_sense
        self.cls_kwonly = cls_kwonly

    def expected(self, args):
        full = dict(self.kw)
        full.update(args)
        placed = list(self.const)
        for name, where in self.fields.items():
            placed.append((where, full[name]))
        return ref_cdb(self.length, self.opcode, placed)


B1 = {"dpo": (1, 4, 1), "fua": (1, 3, 1)}
RD = dict(B1, rdprotect=(1, 5, 3), rarc=(1, 2, 1))
WR = dict(B1, wrprotect=(1, 5, 3))
WS = {"wrprotect": (1, 5, 3), "anchor": (1, 4, 1), "unmap": (1, 3, 1)}
ALL = ("spc", "sbc", "ssc", "smc", "mmc")
BUF32 = 1 << 22  # largest buffer size we let the library allocate for 32-bit lengths

SPECS = [
    Spec("testunitready", ALL, 0x00, [], {}, {}, cls=TestUnitReady),
    Spec(
        "inquiry",
        ALL,
        0x12,
        [],
        {"evpd": 0, "page_code": 0, "alloclen": 96},
        {"evpd": (1, 0, 1), "page_code": (2, 0, 8), "alloclen": (4, 0, 16)},
        cls=Inquiry,
    ),
    Spec(
        "modesense6",
        ("spc", "sbc", "ssc", "smc"),
        0x1A,
        ["page_code"],
        {"sub_page_code": 0, "dbd": 0, "pc": 0, "alloclen": 96},
        {
            "dbd": (1, 3, 1),
            "pc": (2, 6, 2),
            "page_code": (2, 0, 6),
            "sub_page_code": (3, 0, 8),
            "alloclen": (4, 0, 8),
        },
        cls=ModeSense6,
    ),
    Spec(
        "modesense10",
        ALL,
        0x5A,
        ["page_code"],
        {"sub_page_code": 0, "llbaa": 0, "dbd": 0, "pc": 0, "alloclen": 96},
        {
            "llbaa": (1, 4, 1),
            "dbd": (1, 3, 1),
            "pc": (2, 6, 2),
            "page_code": (2, 0, 6),
            "sub_page_code": (3, 0, 8),
            "alloclen": (8, 0, 16),
        },
        cls=ModeSense10,
    ),
    Spec(
        "read10",
        ("sbc", "mmc"),
        0x28,
        ["lba", "tl"],
        {"rdprotect": 0, "dpo": 0, "fua": 0, "rarc": 0, "group": 0},
        dict(RD, lba=(5, 0, 32), group=(6, 0, 5), tl=(8, 0, 16)),
        cls=Read10,
        blocksize=True,
    ),
    Spec(
        "read12",
        ("sbc", "mmc"),
        0xA8,
        ["lba", "tl"],
        {"rdprotect": 0, "dpo": 0, "fua": 0, "rarc": 0, "group": 0},
        dict(RD, lba=(5, 0, 32), tl=(9, 0, 32), group=(10, 0, 5)),
        cls=Read12,
        blocksize=True,
    ),
    Spec(
        "read16",
        ("sbc", "ssc"),
        0x88,
        ["lba", "tl"],
        {"rdprotect": 0, "dpo": 0, "fua": 0, "rarc": 0, "group": 0},
        dict(RD, lba=(9, 0, 64), tl=(13, 0, 32), group=(14, 0, 5)),
        cls=Read16,
        blocksize=True,
    ),
    Spec(
        "write10",
        ("sbc", "mmc"),
        0x2A,
        ["lba", "tl"],
        {"wrprotect": 0, "dpo": 0, "fua": 0, "group": 0},
        dict(WR, lba=(5, 0, 32), group=(6, 0, 5), tl=(8, 0, 16)),
        cls=Write10,
        blocksize=True,
        data=True,
    ),
    Spec(
        "write12",
        ("sbc", "mmc"),
        0xAA,
        ["lba", "tl"],
        {"wrprotect": 0, "dpo": 0, "fua": 0, "group": 0},
        dict(WR, lba=(5, 0, 32), tl=(9, 0, 32), group=(10, 0, 5)),
        cls=Write12,
        blocksize=True,
        data=True,
    ),
    Spec(
        "write16",
        ("sbc", "ssc"),
        0x8A,
        ["lba", "tl"],
        {"wrprotect": 0, "dpo": 0, "fua": 0, "group": 0},
        dict(WR, lba=(9, 0, 64), tl=(13, 0, 32), group=(14, 0, 5)),
        cls=Write16,
        blocksize=True,
        data=True,
    ),
    Spec(
        "writesame10",
        ("sbc",),
        0x41,
        ["lba", "nb"],
        {"wrprotect": 0, "anchor": 0, "unmap": 0, "group": 0},
        dict(WS, lba=(5, 0, 32), group=(6, 0, 5), nb=(8, 0, 16)),
        cls=WriteSame10,
        blocksize=True,
        data=True,
    ),
    Spec(
        "writesame16",
        ("sbc",),
        0x93,
        ["lba", "nb"],
        {"wrprotect": 0, "anchor": 0, "unmap": 0, "ndob": 0, "group": 0},
        dict(WS, ndob=(1, 0, 1), lba=(9, 0, 64), nb=(13, 0, 32), group=(14, 0, 5)),
        cls=WriteSame16,
        blocksize=True,
        data=True,
    ),
    Spec(
        "synchronizecache10",
        ("sbc",),
        0x35,
        ["lba", "numblks"],
        {"immed": 0, "group": 0},
        {
            "immed": (1, 1, 1),
            "lba": (5, 0, 32),
            "group": (6, 0, 5),
            "numblks": (8, 0, 16),
        },
        cls=SynchronizeCache10,
    ),
    Spec(
        "synchronizecache16",
        ("sbc",),
        0x91,
        ["lba", "numblks"],
        {"immed": 0, "group": 0},
        {
            "immed": (1, 1, 1),
            "lba": (9, 0, 64),
            "numblks": (13, 0, 32),
            "group": (14, 0, 5),
        },
        cls=SynchronizeCache16,
    ),
    Spec(
        "readcapacity10",
        ("sbc",),
        0x25,
        [],
        {"alloclen": 8},
        {},
        cls=ReadCapacity10,
        caps={"alloclen": 4096},
    ),
    Spec(
        "readcapacity16",
        ("sbc",),
        0x9E,
        [],
        {"alloclen": 32},
        {"alloclen": (13, 0, 32)},
        const=[((1, 0, 5), 0x10)],
        cls=ReadCapacity16,
        caps={"alloclen": BUF32},
    ),
    Spec(
        "getlbastatus",
        ("sbc",),
        0x9E,
        ["lba"],
        {"alloclen": 16384},
        {"lba": (9, 0, 64), "alloclen": (13, 0, 32)},
        const=[((1, 0, 5), 0x12)],
        cls=GetLBAStatus,
        caps={"alloclen": BUF32},
    ),
    Spec(
        "reportluns",
        ALL,
        0xA0,
        [],
        {"report": 0, "alloclen": 96},
        {"report": (2, 0, 8), "alloclen": (9, 0, 32)},
        cls=ReportLuns,
        caps={"alloclen": BUF32},
    ),
    Spec(
        "reportpriority",
        ("spc", "sbc", "ssc", "smc"),
        0xA3,
        [],
        {"priority": 0, "alloclen": 16384},
        {"priority": (2, 6, 2), "alloclen": (9, 0, 32)},
        const=[((1, 0, 5), 0x0E)],
        cls=ReportPriority,
        caps={"alloclen": BUF32},
    ),
    Spec(
        "reporttargetportgroups",
        ("spc", "sbc", "ssc", "smc"),
        0xA3,
        [],
        {"data_format": 0, "alloclen": 16384},
        {"data_format": (1, 5, 3), "alloclen": (9, 0, 32)},
        const=[((1, 0, 5), 0x0A)],
        cls=ReportTargetPortGroups,
        caps={"alloclen": BUF32},
    ),
    Spec(
        "exchangemedium",
        ("smc",),
        0xA6,
        ["xfer", "source", "dest1", "dest2"],
        {"inv1": 0, "inv2": 0},
        {
            "xfer": (3, 0, 16),
            "source": (5, 0, 16),
            "dest1": (7, 0, 16),
            "dest2": (9, 0, 16),
            "inv1": (10, 1, 1),
            "inv2": (10, 0, 1),
        },
        cls=ExchangeMedium,
    ),
    Spec(
        "initializeelementstatus", ("smc",), 0x07, [], {}, {}, cls=InitializeElementStatus
    ),
    Spec(
        "initializeelementstatuswithrange",
        ("smc",),
        0x37,
        ["xfer", "elements"],
        {"rng": 0, "fast": 0},
        {
            "fast": (1, 1, 1),
            "rng": (1, 0, 1),
            "xfer": (3, 0, 16),
            "elements": (7, 0, 16),
        },
        cls=InitializeElementStatusWithRange,
    ),
    Spec(
        "movemedium",
        ("smc",),
        0xA5,
        ["xfer", "source", "dest"],
        {"invert": 0},
        {
            "xfer": (3, 0, 16),
            "source": (5, 0, 16),
            "dest": (7, 0, 16),
            "invert": (10, 0, 1),
        },
        cls=MoveMedium,
    ),
    Spec(
        "opencloseimportexportelement",
        ("smc",),
        0x1B,
        ["xfer", "acode"],
        {},
        {"xfer": (3, 0, 16), "acode": (4, 0, 5)},
        cls=OpenCloseImportExportElement,
    ),
    Spec(
        "positiontoelement",
        ("smc",),
        0x2B,
        ["xfer", "dest"],
        {"invert": 0},
        {"xfer": (3, 0, 16), "dest": (5, 0, 16), "invert": (8, 0, 1)},
        cls=PositionToElement,
    ),
    Spec(
        "preventallowmediumremoval",
        ALL,
        0x1E,
        [],
        {"prevent": 0},
        {"prevent": (4, 0, 2)},
        cls=PreventAllowMediumRemoval,
    ),
    Spec(
        "readelementstatus",
        ("smc",),
        0xB8,
        ["start", "num"],
        {"element_type": 0, "voltag": 0, "curdata": 1, "dvcid": 0, "alloclen": 16384},
        {
            "voltag": (1, 4, 1),
            "element_type": (1, 0, 4),
            "start": (3, 0, 16),
            "num": (5, 0, 16),
            "curdata": (6, 1, 1),
            "dvcid": (6, 0, 1),
            "alloclen": (9, 0, 24),
        },
        cls=ReadElementStatus,
        caps={"alloclen": BUF32},
    ),
    Spec(
        "readdiscinformation",
        ("mmc",),
        0x51,
        ["data_type"],
        {"alloc_len": 4096},
        {"data_type": (1, 0, 3), "alloc_len": (8, 0, 16)},
        cls=ReadDiscInformation,
    ),
]

READCD_FIELDS = {
    "est": (1, 2, 3),
    "dap": (1, 1, 1),
    "lba": (5, 0, 32),
    "tl": (8, 0, 24),
    "mcsb": (9, 3, 5),
    "c2ei": (9, 1, 2),
    "scsb": (10, 0, 3),
}


# --------------------------------------------------------------------------
# helpers to get a SCSI object bound to a given command set through the
# library's own device-type detection
# --------------------------------------------------------------------------
SET_TO_TYPE = {"sbc": 0x00, "ssc": 0x01, "spc": 0x03, "smc": 0x08, "mmc": 0x05}


def make_scsi(set_name, blocksize=0):
    dev = RecordingDevice(SET_TO_TYPE[set_name])
    s = SCSI(dev, blocksize)
    return s, dev


def check_detection():
    for dtype in range(0x20):
        dev = RecordingDevice(dtype)
        s = SCSI(dev)
        # the probe itself is an INQUIRY built with the default (SPC) opcodes
        check(len(dev.log) == 1, "probe: one command for type %#x" % dtype)
        t, cdb, raw, cmd = dev.log[0]
        check(t is bytearray, "probe cdb type")
        check(cdb == bytes([0x12, 0, 0, 0, 96, 0]), "probe INQUIRY cdb %r" % cdb)
        check(dev.devicetype == dtype, "device type stored %#x" % dtype)
        want = ENUMS[DEVICE_TYPES[dtype]] if dtype in DEVICE_TYPES else EC.spc
        check(dev.opcodes is want, "command set for device type %#x" % dtype)
        # re-targeting an existing SCSI object at another device
        dev2 = RecordingDevice(0x08)
        s(dev2)
        check(s.device is dev2 and dev2.opcodes is EC.smc, "__call__ re-detects")
    dev = RecordingDevice(0)
    with SCSI(dev, 512) as s:
        check(s.blocksize == 512, "blocksize ctor")
        s.blocksize = 4096
        check(s.blocksize == 4096, "blocksize setter")
    check(dev.closed == 1, "context manager closes the device")


def issue(dev, fn):
    """
    Run a SCSI front-end call.  Some front-end methods decode the (here: empty
    or undersized) data-in buffer after the command was executed; a failure in
    that later step does not concern us, the command has been handed to the
    transport already.  Returns (returned command or None, executed command).
    """
    before = len(dev.log)
    try:
        cmd = fn()
    except (AttributeError, StopIteration, SCSICommand.MissingBlocksizeException):
        if len(dev.log) == before:
            raise
        cmd = None
    except Exception:
        if len(dev.log) == before:
            raise
        cmd = None
    sent = dev.log[-1][3] if len(dev.log) > before else None
    return cmd, sent


def check_cdb(tag, spec_len, expected, dev, before, cmd, raw_sense=False):
    """cmd was just issued through a SCSI object bound to dev"""
    check(len(dev.log) == before + 1, "%s: exactly one command executed" % tag)
    if len(dev.log) != before + 1:
        return
    t, cdb, raw, seen_cmd = dev.log[-1]
    check(t is bytearray, "%s: cdb is a bytearray (%s)" % (tag, t))
    check(len(cdb) == spec_len, "%s: cdb length %d != %d" % (tag, len(cdb), spec_len))
    check(
        cdb == expected,
        "%s: cdb %s expected %s" % (tag, cdb.hex(), expected.hex()),
    )
    check(raw is raw_sense, "%s: en_raw_sense %r" % (tag, raw))
    if cmd is not None:
        check(seen_cmd is cmd, "%s: returned command is the executed one" % tag)
        check(bytes(cmd.cdb) == expected, "%s: cmd.cdb after return" % tag)


def check_roundtrip(tag, cmd, expected):
    # the library's own decoder must agree with its encoder
    klass = type(cmd)
    fields = cmd.unmarshall_cdb(cmd.cdb)
    again = klass.marshall_cdb(fields)
    check(bytes(again) == expected, "%s: marshall(unmarshall(cdb)) != cdb" % tag)
    check(fields.get("opcode") == expected[0], "%s: decoded opcode" % tag)


def unavailable(tag, dev, fn):
    before = len(dev.log)
    try:
        fn()
    except (AttributeError, StopIteration):
        check(len(dev.log) == before, "%s: nothing sent when not offered" % tag)
    except Exception as e:  # noqa
        check(False, "%s: unexpected %r for a command the set does not offer" % (tag, e))
    else:
        check(False, "%s: command set should not offer this command" % tag)


def arg_sets(spec):
    """yield dicts of arguments (required ones always present)"""
    req0 = {n: 0 for n in spec.pos}
    yield dict(req0)
    names = list(spec.fields)
    for name in names:
        w = spec.fields[name][2]
        for v in edge_values(w, spec.caps.get(name)):
            a = dict(req0)
            a[name] = v
            yield a
    # everything at its maximum
    a = {}
    for name in names:
        w = spec.fields[name][2]
        a[name] = min((1 << w) - 1, spec.caps.get(name, (1 << w) - 1))
    yield a
    # flags as bools, numbers as int subclasses
    a = {}
    for name in names:
        w = spec.fields[name][2]
        a[name] = True if w == 1 else MyInt(rand_value(w, spec.caps.get(name)))
    yield a
    for _ in range(25):
        a = dict(req0)
        for name in names:
            if name in spec.pos or RNG.random() < 0.7:
                a[name] = rand_value(spec.fields[name][2], spec.caps.get(name))
        yield a
    # non-buffer args that are not CDB fields (e.g. readcapacity10 alloclen)
    for name in spec.kw:
        if name not in spec.fields:
            a = dict(req0)
            a[name] = spec.caps.get(name, 16)
            yield a


def run_spec(spec):
    for set_name in ALL:
        s, dev = make_scsi(set_name)
        method = getattr(s, spec.method)
        tagbase = "%s/%s" % (spec.method, set_name)
        minimal = [0 for _ in spec.pos] + ([bytearray(4)] if spec.data else [])
        if spec.blocksize:
            s.blocksize = 512
        if set_name not in spec.sets:
            unavailable(tagbase, dev, lambda: method(*minimal))
            continue
        n = 0
        for args in arg_sets(spec):
            n += 1
            tag = "%s#%d %r" % (tagbase, n, args)
            expected = spec.expected(args)
            check(len(expected) == spec.length, "%s: SAM length" % tag)
            positional = [args[p] for p in spec.pos]
            keywords = {k: v for k, v in args.items() if k not in spec.pos}
            payload = bytearray(b"\xde\xad\xbe\xef")
            if spec.data:
                positional.append(payload)
            if spec.blocksize:
                # alternate between a normal blocksize (small transfers) and
                # the tiny-product one (full range transfers)
                big = any(
                    args.get(k, 0) > 2048 for k in ("tl", "nb") if k in spec.fields
                )
                s.blocksize = SmallProduct(512) if (big or n % 3 == 0) else 512
            before = len(dev.log)
            if n % 2 and not spec.data and spec.pos:
                # required arguments by keyword
                cmd, sent = issue(dev, lambda: method(**args))
            else:
                cmd, sent = issue(dev, lambda: method(*positional, **keywords))
            check(isinstance(sent, spec.cls), "%s: returns %s" % (tag, spec.cls.__name__))
            check_cdb(tag, spec.length, expected, dev, before, cmd, spec.raw_sense)
            cmd = sent
            check_roundtrip(tag, cmd, expected)
            if spec.data and not args.get("ndob"):
                check(cmd.dataout is payload, "%s: dataout is the caller's buffer" % tag)

            # the same command built directly from its class
            opcode = dev.log[-1][3].opcode
            check(opcode.value == spec.opcode, "%s: opcode object" % tag)
            cpos = [opcode] + ([s.blocksize] if spec.blocksize else []) + positional
            direct = spec.cls(*cpos, **keywords)
            check(bytes(direct.cdb) == expected, "%s: direct construction" % tag)
            check(type(direct.cdb) is bytearray, "%s: direct cdb type" % tag)
            if n % 7 == 0:
                # everything by keyword, in shuffled order
                kws = dict(args)
                kws["opcode"] = opcode
                if spec.blocksize:
                    kws["blocksize"] = s.blocksize
                if spec.data:
                    kws["data"] = payload
                items = list(kws.items())
                RNG.shuffle(items)
                direct = spec.cls(**dict(items))
                check(bytes(direct.cdb) == expected, "%s: keyword construction" % tag)
            # instance-level build_cdb of a fresh object with the library's own
            # field names must reproduce the same bytes
            fields = direct.unmarshall_cdb(direct.cdb)
            check(
                bytes(direct.build_cdb(**fields)) == expected,
                "%s: build_cdb(**decoded)" % tag,
            )

        if spec.blocksize:
            # a zero blocksize is refused before anything is sent
            s.blocksize = 0
            before = len(dev.log)
            a = dict({p: 1 for p in spec.pos})
            posl = [a[p] for p in spec.pos] + ([bytearray(2)] if spec.data else [])
            try:
                method(*posl)
            except SCSICommand.MissingBlocksizeException:
                check(len(dev.log) == before, "%s: nothing sent w/o blocksize" % tagbase)
            else:
                check(False, "%s: blocksize 0 must be refused" % tagbase)
            if spec.method == "writesame16":
                cmd = method(5, 6, None, ndob=1)
                exp = spec.expected({"lba": 5, "nb": 6, "ndob": 1})
                check_cdb(tagbase + " ndob", 16, exp, dev, before, cmd)
                check(len(cmd.dataout) == 0, "writesame16 ndob: no data-out")


# --------------------------------------------------------------------------
# commands with special calling conventions
# --------------------------------------------------------------------------
def run_modeselect():
    from pyscsi.pyscsi.scsi_enum_modesense import PAGE_CODE

    pages = [
        {"mode_pages": []},
        {
            "medium_type": 0x11,
            "device_specific_parameter": 0x22,
            "mode_pages": [
                {
                    "ps": 1,
                    "spf": 0,
                    "page_code": PAGE_CODE.CONTROL,
                    "tst": 1,
                    "tmf_only": 1,
                    "dpicz": 1,
                    "d_sense": 1,
                    "gltsd": 1,
                    "rlec": 1,
                    "queue_algorithm_modifier": 1,
                    "nuar": 1,
                    "qerr": 1,
                    "vs": 1,
                    "rac": 1,
                    "ua_intlck_ctrl": 1,
                    "swp": 1,
                    "ato": 1,
                    "tas": 1,
                    "atmpe": 1,
                    "rwwp": 1,
                    "autoload_mode": 1,
                    "busy_timeout_period": 500,
                    "extended_self_test_completion_time": 0x2FA,
                }
            ],
        },
    ]
    variants = [
        ("modeselect6", 0x15, ("spc", "sbc", "ssc", "smc"), (4, 0, 8), ModeSelect6),
        ("modeselect10", 0x55, ALL, (8, 0, 16), ModeSelect10),
    ]
    for meth, opc, sets, pll, klass in variants:
        length = sam_length(opc)
        for set_name in ALL:
            s, dev = make_scsi(set_name)
            if set_name not in sets:
                unavailable(meth + "/" + set_name, dev, lambda: getattr(s, meth)(pages[0]))
                continue
            for data in pages:
                for kw in (
                    {},
                    {"pf": 0},
                    {"pf": 1, "sp": 1},
                    {"sp": 1},
                    {"pf": 0, "sp": 0},
                    {"pf": True, "sp": True},
                ):
                    before = len(dev.log)
                    cmd = getattr(s, meth)(data, **kw)
                    plen = len(cmd.dataout)
                    exp = ref_cdb(
                        length,
                        opc,
                        [
                            ((1, 4, 1), kw.get("pf", 1)),
                            ((1, 0, 1), kw.get("sp", 0)),
                            (pll, plen),
                        ],
                    )
                    tag = "%s/%s %r" % (meth, set_name, kw)
                    check(isinstance(cmd, klass), tag + " class")
                    check(plen > 0, tag + " has a parameter list")
                    check_cdb(tag, length, exp, dev, before, cmd)
                    check_roundtrip(tag, cmd, exp)
                    direct = klass(cmd.opcode, data, **kw)
                    check(bytes(direct.cdb) == exp, tag + " direct")


def run_persistent_reserve():
    in_classes = {
        0: PersistentReserveInReadKeys,
        1: PersistentReserveInReadReservation,
        2: PersistentReserveInReportCapabilities,
        3: PersistentReserveInReadFullStatus,
    }
    sets = ("spc", "sbc", "ssc", "smc")
    for set_name in ALL:
        s, dev = make_scsi(set_name)
        if set_name not in sets:
            unavailable("prin/" + set_name, dev, lambda: s.persistentreservein(0))
            unavailable("prout/" + set_name, dev, lambda: s.persistentreserveout(0))
            continue
        for sa, klass in in_classes.items():
            for alloclen in [None] + edge_values(16):
                kw = {} if alloclen is None else {"alloclen": alloclen}
                want = 1024 if alloclen is None else alloclen
                before = len(dev.log)
                try:
                    cmd = s.persistentreservein(MyInt(sa) if want % 2 else sa, **kw)
                except Exception as e:  # decoding of the (empty) data-in
                    cmd = None
                    check(len(dev.log) == before + 1, "prin sent before %r" % e)
                exp = ref_cdb(10, 0x5E, [((1, 0, 5), sa), ((8, 0, 16), want)])
                tag = "prin/%s sa=%d alloclen=%r" % (set_name, sa, alloclen)
                check_cdb(tag, 10, exp, dev, before, cmd)
                check(isinstance(dev.log[-1][3], klass), tag + " class")
                check_roundtrip(tag, dev.log[-1][3], exp)
            # generic class: any 5 bit service action
        opcode = dev.opcodes.PERSISTENT_RESERVE_IN
        for sa in range(32):
            for alloclen in (0, 1, 0xFFFF, 0x8001):
                cmd = PersistentReserveIn(opcode, sa, alloclen)
                exp = ref_cdb(10, 0x5E, [((1, 0, 5), sa), ((8, 0, 16), alloclen)])
                check(bytes(cmd.cdb) == exp, "PersistentReserveIn(%d,%d)" % (sa, alloclen))
        for bad in (4, 5, 31, -1):
            before = len(dev.log)
            try:
                s.persistentreservein(bad)
            except ValueError:
                check(len(dev.log) == before, "prin bad SA sends nothing")
            else:
                check(False, "prin: invalid service action accepted")

        # PERSISTENT RESERVE OUT
        tid = {
            "protocol_id": 5,
            "tpid_format": 0,
            "iscsi_name": "iqn.1993-08.org.debian:01:90c27cf89279",
        }
        cases = []
        for sa in range(9):
            for scope in (0, 1, 0xF, 0xA):
                for pr_type in (0, 1, 0xF, 5):
                    cases.append((sa, scope, pr_type, {}))
        cases.append((0, 1, 4, {"service_action_reservation_key": 0xABCDEFAABBCCDDEE}))
        cases.append((0, 0, 0, {"reservation_key": 1, "spec_i_pt": 1}))
        cases.append((0, 0, 0, {"spec_i_pt": 1, "transport_ids": [tid, tid]}))
        cases.append((7, 2, 3, {"reservation_key": 2, "unreg": 1, "aptpl": 1}))
        cases.append((7, 0, 0, {"relative_target_port_id": 0xAABB, "transport_id": tid}))
        cases.append((1, 0, 8, {"aptpl": 1, "all_tg_pt": 1}))
        for i, (sa, scope, pr_type, params) in enumerate(cases):
            before = len(dev.log)
            if i % 3 == 0:
                cmd = s.persistentreserveout(sa, scope, pr_type, **params)
            elif i % 3 == 1:
                cmd = s.persistentreserveout(
                    service_action=sa, scope=scope, pr_type=pr_type, **params
                )
            else:
                cmd = s.persistentreserveout(sa, pr_type=pr_type, scope=scope, **params)
            plen = len(cmd.dataout)
            check(plen >= 24, "prout has a parameter list")
            exp = ref_cdb(
                10,
                0x5F,
                [
                    ((1, 0, 5), sa),
                    ((2, 4, 4), scope),
                    ((2, 0, 4), pr_type),
                    ((8, 0, 32), plen),
                ],
            )
            tag = "prout/%s %r" % (set_name, (sa, scope, pr_type, sorted(params)))
            check(isinstance(cmd, PersistentReserveOut), tag + " class")
            check_cdb(tag, 10, exp, dev, before, cmd)
            check_roundtrip(tag, cmd, exp)
        d = s.persistentreserveout(0)
        check(bytes(d.cdb) == ref_cdb(10, 0x5F, [((8, 0, 32), 24)]), "prout defaults")


def run_extended_copy():
    sets = ("spc", "sbc", "ssc")
    for set_name in ALL:
        s, dev = make_scsi(set_name)
        if set_name not in sets:
            unavailable("xcopy4/" + set_name, dev, lambda: s.extendedcopy4())
            unavailable("xcopy5/" + set_name, dev, lambda: s.extendedcopy5())
            continue
        for inline in (0, 1, 7, 255, 256, 70000):
            blob = bytearray(RNG.getrandbits(8) for _ in range(inline))
            for sa, meth, klass, kws in (
                (
                    0,
                    s.extendedcopy4,
                    ExtendedCopy4,
                    [
                        {},
                        {"list_identifier": 0x34, "priority": 1},
                        {"sequential_striped": 1, "nrcr": 1, "priority": 7},
                    ],
                ),
                (
                    1,
                    s.extendedcopy5,
                    ExtendedCopy5,
                    [
                        {},
                        {"list_identifier": 0x34333231, "priority": 1, "immed": 1},
                        {"sequential_striped": 1, "list_id_usage": 3, "g_sense": 1},
                    ],
                ),
            ):
                for kw in kws:
                    before = len(dev.log)
                    cmd = meth(inline_data=blob, **kw)
                    plen = len(cmd.dataout)
                    check(plen >= 16 + inline, "xcopy parameter list present")
                    exp = ref_cdb(16, 0x83, [((1, 0, 5), sa), ((13, 0, 32), plen)])
                    tag = "xcopy sa=%d/%s inline=%d %r" % (sa, set_name, inline, kw)
                    check(isinstance(cmd, klass), tag + " class")
                    check_cdb(tag, 16, exp, dev, before, cmd)
                    check_roundtrip(tag, cmd, exp)


def ata_expected(width, a, extend=None):
    lba = a["lba"]
    lb = [(lba >> (8 * i)) & 0xFF for i in range(6)]
    common = [
        ((1, 1, 4), a["protocal"]),
        ((2, 6, 2), a["off_line"]),
        ((2, 5, 1), a.get("ck_cond", 0)),
        ((2, 4, 1), a["t_type"]),
        ((2, 3, 1), a["t_dir"]),
        ((2, 2, 1), a["byte_block"]),
        ((2, 0, 2), a["t_length"]),
    ]
    if width == 12:
        return ref_cdb(
            12,
            0xA1,
            common
            + [
                ((3, 0, 8), a["fetures"]),
                ((4, 0, 8), a["count"]),
                ((5, 0, 8), lb[0]),  # LBA (7:0)
                ((6, 0, 8), lb[1]),  # LBA (15:8)
                ((7, 0, 8), lb[2]),  # LBA (23:16)
                ((8, 0, 8), a.get("device", 0)),
                ((9, 0, 8), a["command"]),
                ((11, 0, 8), a.get("control", 0)),
            ],
        )
    return ref_cdb(
        16,
        0x85,
        common
        + [
            ((1, 0, 1), 1 if extend is None else extend),
            ((4, 0, 16), a["fetures"]),
            ((6, 0, 16), a["count"]),
            ((7, 0, 8), lb[3]),  # LBA (31:24)
            ((8, 0, 8), lb[0]),  # LBA (7:0)
            ((9, 0, 8), lb[4]),  # LBA (39:32)
            ((10, 0, 8), lb[1]),  # LBA (15:8)
            ((11, 0, 8), lb[5]),  # LBA (47:40)
            ((12, 0, 8), lb[2]),  # LBA (23:16)
            ((13, 0, 8), a.get("device", 0)),
            ((14, 0, 8), a["command"]),
            ((15, 0, 8), a.get("control", 0)),
        ],
    )


def run_ata():
    order = [
        "protocal",
        "t_length",
        "byte_block",
        "t_dir",
        "t_type",
        "off_line",
        "fetures",
        "count",
        "lba",
        "command",
    ]
    for width, meth, klass in (
        (12, "atapassthrough12", ATAPassThrough12),
        (16, "atapassthrough16", ATAPassThrough16),
    ):
        fw = 8 if width == 12 else 16
        lw = 24 if width == 12 else 48
        widths = {
            "protocal": 4,
            "t_length": 2,
            "byte_block": 1,
            "t_dir": 1,
            "t_type": 1,
            "off_line": 2,
            "fetures": fw,
            "count": fw,
            "lba": lw,
            "command": 8,
            "ck_cond": 1,
            "device": 8,
            "control": 8,
        }
        for set_name in ALL:
            s, dev = make_scsi(set_name)
            if set_name != "sbc":
                unavailable(
                    meth + "/" + set_name, dev, lambda: getattr(s, meth)(*([0] * 10))
                )
                continue
            cases = []
            zero = {k: 0 for k in order}
            cases.append(dict(zero))
            for name, w in widths.items():
                for v in edge_values(w):
                    c = dict(zero)
                    c[name] = v
                    cases.append(c)
            cases.append({k: (1 << w) - 1 for k, w in widths.items()})
            for _ in range(200):
                c = {k: RNG.getrandbits(widths[k]) for k in order}
                for k in ("ck_cond", "device", "control"):
                    if RNG.random() < 0.5:
                        c[k] = RNG.getrandbits(widths[k])
                cases.append(c)
            for i, c in enumerate(cases):
                opt = {k: c[k] for k in ("ck_cond", "device", "control") if k in c}
                extend = None
                if width == 16 and i % 4 == 0:
                    extend = i // 4 % 2
                    opt["extend"] = extend
                needs_bs = c["byte_block"] and c["t_type"] and c["t_length"]
                tag = "%s #%d %r" % (meth, i, c)
                if needs_bs:
                    before = len(dev.log)
                    try:
                        getattr(s, meth)(*[c[k] for k in order], **opt)
                    except SCSICommand.MissingBlocksizeException:
                        check(len(dev.log) == before, tag + ": nothing sent")
                    else:
                        check(False, tag + ": missing blocksize accepted")
                    opt["blocksize"] = 8
                if c["t_length"] == 3 and i % 2:
                    opt["extra_tl"] = 3
                payload = None
                if i % 5 == 0:
                    payload = bytearray(b"ata-data")
                    opt["data"] = payload
                exp = ata_expected(width, c, extend)
                before = len(dev.log)
                cmd = getattr(s, meth)(*[c[k] for k in order], **opt)
                check(isinstance(cmd, klass), tag + " class")
                check_cdb(tag, width, exp, dev, before, cmd, raw_sense=True)
                check_roundtrip(tag, cmd, exp)
                if payload is not None:
                    buf = cmd.dataout if c["t_dir"] == 0 else cmd.datain
                    check(buf is payload, tag + ": caller's data buffer used")
                kws = dict(c)
                kws.update(opt)
                direct = klass(cmd.opcode, **kws)
                check(bytes(direct.cdb) == exp, tag + " direct")
        # the address shuffling helpers are public too
        for _ in range(300):
            lba = RNG.getrandbits(48)
            got = ATAPassThrough16.scsi_to_ata_lba_convert(lba)
            b = [(lba >> (8 * i)) & 0xFF for i in range(6)]
            want = int.from_bytes(bytes([b[3], b[0], b[4], b[1], b[5], b[2]]), "big")
            check(got == want, "ata16 lba convert %x" % lba)
            lba &= 0xFFFFFF
            got = ATAPassThrough12.scsi_to_ata_lba_convert(lba)
            want = int.from_bytes(bytes([b[0], b[1], b[2]]), "big")
            check(got == want, "ata12 lba convert %x" % lba)
            check(
                ATAPassThrough16(EC.sbc.ATA_PASS_THROUGH_16, *([0] * 10))
                .scsi_to_ata_lba_convert(lba)
                == ATAPassThrough16.scsi_to_ata_lba_convert(lba),
                "lba convert via instance",
            )


def run_readcd():
    for set_name in ALL:
        s, dev = make_scsi(set_name)
        if set_name != "mmc":
            unavailable("readcd/" + set_name, dev, lambda: s.readcd(0, 0))
            continue
        opcode = dev.opcodes.READ_CD
        zero = {k: 0 for k in READCD_FIELDS}
        cases = [dict(zero)]
        for name, (_, _, w) in READCD_FIELDS.items():
            for v in edge_values(w):
                c = dict(zero)
                c[name] = v
                cases.append(c)
        cases.append({k: (1 << w[2]) - 1 for k, w in READCD_FIELDS.items()})
        for _ in range(200):
            cases.append({k: RNG.getrandbits(w[2]) for k, w in READCD_FIELDS.items()})
        for i, c in enumerate(cases):
            exp = ref_cdb(12, 0xBE, [(READCD_FIELDS[k], v) for k, v in c.items()])
            tag = "readcd #%d %r" % (i, c)
            # direct construction; the data-in buffer is 3 KiB per block, so use
            # the tiny-product integer for the transfer length
            a = dict(c)
            a["tl"] = SmallProduct(c["tl"])
            cmd = ReadCd(opcode, **a)
            check(bytes(cmd.cdb) == exp, tag + ": direct %s" % bytes(cmd.cdb).hex())
            check(len(cmd.cdb) == 12, tag + " length")
            check_roundtrip(tag, cmd, exp)
            cmd = ReadCd(opcode, c["lba"], a["tl"], c["est"], c["dap"], c["mcsb"])
            exp5 = ref_cdb(
                12,
                0xBE,
                [(READCD_FIELDS[k], c[k]) for k in ("lba", "tl", "est", "dap", "mcsb")],
            )
            check(bytes(cmd.cdb) == exp5, tag + ": positional")
            if c["tl"] <= 2:
                # through the SCSI front end (decoding of the empty data-in may
                # legitimately reject some est/mcsb combinations afterwards)
                before = len(dev.log)
                kw = {k: c[k] for k in ("est", "dap", "mcsb", "c2ei", "scsb")}
                try:
                    got = s.readcd(c["lba"], c["tl"], **kw)
                except Exception:
                    got = None
                check_cdb(tag, 12, exp, dev, before, got)
        before = len(dev.log)
        try:
            got = s.readcd(16, 1)
        except Exception:
            got = None
        exp = ref_cdb(12, 0xBE, [((5, 0, 32), 16), ((8, 0, 24), 1)])
        check_cdb("readcd defaults", 12, exp, dev, before, got)


# --------------------------------------------------------------------------
# SAM CDB length rule and the converter primitives
# --------------------------------------------------------------------------
def run_base():
    for value in list(range(256)) + [256, 0x1FF, 1000, -1, -32]:
        op = OpCode("X", value, {})
        want = sam_length(value) if 0 <= value <= 0xFF else None
        try:
            got = SCSICommand.init_cdb(op)
        except SCSICommand.OpcodeException:
            check(want is None, "init_cdb(%#x) raised but SAM length %r" % (value, want))
        else:
            check(
                type(got) is bytearray and got == bytearray(want or 0) and want,
                "init_cdb(%#x) -> %r, SAM says %r" % (value, got, want),
            )
            # and a command object built for this opcode gets that many bytes
            op2 = OpCode("Y", value, {})
            t = TestUnitReady(op2)
            exp = bytes([value]) + bytes(want - 1)
            check(bytes(t.cdb) == exp, "TestUnitReady with opcode %#x" % value)
            check(t.opcode is op2, "opcode kept")
    # an instance built via an instance of another class still works statically
    r = Read10(EC.sbc.READ_10, 512, 7, 1)
    i = Inquiry(EC.sbc.INQUIRY, alloclen=5)
    check(bytes(r.cdb) == bytes.fromhex("28000000000700000100"), "read10 literal")
    check(bytes(i.cdb) == bytes.fromhex("120000000500"), "inquiry literal")
    check(len(r.datain) == 512 and len(r.dataout) == 0, "read10 buffers")
    check(len(i.datain) == 5, "inquiry buffer")
    check(repr(r) == "Read10" and i.result == {} and i.pagecode is None, "misc attrs")
    for attr in ("cdb", "datain", "dataout", "sense", "raw_sense_data", "result"):
        marker = bytearray(b"zz")
        setattr(r, attr, marker)
        check(getattr(r, attr) is marker, "property %s round trips" % attr)
        check(getattr(i, attr) is not marker, "property %s is per instance" % attr)
    r.pagecode = 0x83
    check(r.pagecode == 0x83, "pagecode property")
    r.opcode = EC.sbc.READ_12
    check(r.opcode is EC.sbc.READ_12, "opcode property")

    for size in range(0, 10):
        for _ in range(40):
            v = RNG.getrandbits(8 * size) if size else 0
            ba = scsi_int_to_ba(v, size)
            check(type(ba) is bytearray, "scsi_int_to_ba type")
            check(bytes(ba) == v.to_bytes(size, "big"), "scsi_int_to_ba(%x,%d)" % (v, size))
            check(scsi_ba_to_int(ba) == v, "scsi_ba_to_int bytearray")
            check(scsi_ba_to_int(bytes(ba)) == v, "scsi_ba_to_int bytes")
            check(scsi_ba_to_int(list(ba)) == v, "scsi_ba_to_int list")
    check(scsi_int_to_ba() == bytearray(4), "scsi_int_to_ba defaults")
    check(scsi_int_to_ba(34) == bytearray(b'\x00\x00\x00"'), "docstring example")
    check(scsi_int_to_ba(True, 2) == bytearray(b"\x00\x01"), "bool")
    check(scsi_int_to_ba(to_convert=0x1234, array_size=2) == b"\x12\x34", "keywords")

    # contiguous bit fields at arbitrary places, legacy [mask, offset] notation
    for _ in range(1500):
        total = RNG.randint(1, 24)
        layout = {}
        used = [False] * (total * 8)
        values = {}
        for k in range(RNG.randint(1, 8)):
            nbytes = RNG.randint(1, min(8, total))
            off = RNG.randint(0, total - nbytes)
            if nbytes == 1:
                width = RNG.randint(1, 8)
                shift = RNG.randint(0, 8 - width)
            else:
                # a multi byte mask must reach into its first byte
                shift = RNG.randint(0, 7)
                width = RNG.randint(8 * (nbytes - 1) - shift + 1, 8 * nbytes - shift)
            mask = ((1 << width) - 1) << shift
            lo = 8 * (total - off - nbytes) + shift
            bits = range(lo, lo + width)
            if any(used[b] for b in bits):
                continue
            for b in bits:
                used[b] = True
            name = "f%d" % k
            layout[name] = RNG.choice([list, tuple])((mask, off))
            values[name] = (RNG.getrandbits(width), lo)
        layout["blob"] = ("b", 0, 0)
        buf = bytearray(total)
        data = {k: v for k, (v, _) in values.items()}
        data["not_in_layout"] = 99
        encode_dict(data, layout, buf)
        want = 0
        for v, lo in values.values():
            want |= v << lo
        check(bytes(buf) == want.to_bytes(total, "big"), "encode_dict %r" % (layout,))
        out = {}
        decode_bits(buf, layout, out)
        out.pop("blob")
        check(out == {k: v for k, (v, _) in values.items()}, "decode_bits %r" % (layout,))
        out2 = {}
        decode_bits(bytes(buf), layout, out2)
        out2.pop("blob")
        check(out2 == out, "decode_bits on bytes")
    # blob notations
    buf = bytearray(16)
    lay = {"a": ("b", 1, 3), "b": ("w", 4, 2), "c": ("dw", 8, 2)}
    encode_dict({"a": b"abc", "b": b"wxyz", "c": b"12345678"}, lay, buf)
    check(bytes(buf) == b"\0abcwxyz12345678", "blob encode %r" % bytes(buf))
    out = {}
    decode_bits(buf, lay, out)
    check(
        out == {"a": b"abc", "b": b"wxyz", "c": b"12345678"}
        and all(type(v) is bytearray for v in out.values()),
        "blob decode %r" % out,
    )


def main():
    check_detection()
    run_base()
    for spec in SPECS:
        run_spec(spec)
    run_modeselect()
    run_persistent_reserve()
    run_extended_copy()
    run_ata()
    run_readcd()
    finish()


if __name__ == "__main__":
    main()
