#!/usr/bin/env python
"""
Demo / check script for property C19 (optional SG_IO and iSCSI bindings).

Run as:
    cd /tmp/seed/C19t && PYTHONPATH=/tmp/seed/C19t /venv/bin/python SEED/demo.py

The parent process starts one child interpreter per combination of binding
states (each of `sgio` / `iscsi` is either genuinely absent, blocked with a
None entry in sys.modules, or provided by a small fake module).  Every child
checks, through the public API only:

  * every module of the library imports, `from pyscsi import *` works,
  * every command of the facade can be built, encoded and decoded over
    arbitrary (duck typed) device objects,
  * requesting a transport whose binding is missing, or a device the
    transport does not handle, raises NotImplementedError before any file or
    connection is opened,
  * with the binding present the matching device class is returned and is
    opened on exactly the requested path / URL.

Exit code 0 and a final line PASS when everything holds.
"""

import subprocess
import sys

STATES = ("absent", "blocked", "fake")


# ---------------------------------------------------------------------------
# parent
# ---------------------------------------------------------------------------
def check_packaging():
    """the bindings are optional extras, never hard requirements"""
    import configparser
    import os

    root = os.path.dirname(os.path.dirname(os.path.abspath(__file__)))
    cfg = configparser.ConfigParser()
    cfg.read(os.path.join(root, "setup.cfg"))
    hard = cfg.get("options", "install_requires", fallback="")
    if "sgio" in hard or "iscsi" in hard:
        return "a binding is a hard requirement"
    extras = dict(cfg.items("options.extras_require"))
    if extras.get("sgio", "").split() != ["cython-sgio>=1.1.2"]:
        return "sgio extra changed: %r" % extras.get("sgio")
    if extras.get("iscsi", "").split() != ["cython-iscsi"]:
        return "iscsi extra changed: %r" % extras.get("iscsi")
    if cfg.get("options", "packages").strip() != "find:":
        return "packages changed"
    return None


def parent():
    import os

    failed = []
    problem = check_packaging()
    if problem:
        print("---- FAILED: packaging: %s" % problem)
        failed.append("packaging")
    else:
        print("ok   packaging (setup.cfg extras)")
    script = os.path.abspath(__file__)
    for sg in STATES:
        for isc in STATES:
            for flags in ([], ["-O"]) if (sg, isc) in (("fake", "fake"), ("absent", "absent")) else ([],):
                cmd = [sys.executable] + flags + [script, "--child", sg, isc]
                res = subprocess.run(cmd, stdout=subprocess.PIPE, stderr=subprocess.STDOUT, text=True)
                tag = "sgio=%s iscsi=%s %s" % (sg, isc, " ".join(flags))
                last = res.stdout.strip().splitlines()[-1] if res.stdout.strip() else ""
                if res.returncode != 0 or not last.startswith("CHILD-OK"):
                    failed.append(tag)
                    print("---- FAILED: %s (rc=%s)" % (tag, res.returncode))
                    print(res.stdout)
                else:
                    print("ok   %-40s %s" % (tag, last))
    if failed:
        print("FAIL")
        return 1
    print("PASS")
    return 0


# ---------------------------------------------------------------------------
# child
# ---------------------------------------------------------------------------
CHECKS = [0]


def check(cond, what):
    CHECKS[0] += 1
    if not cond:
        raise AssertionError("check failed: %s" % (what,))


def check_eq(a, b, what):
    CHECKS[0] += 1
    if not (a == b):
        raise AssertionError("check failed: %s: %r != %r" % (what, a, b))


def child(sg_state, isc_state):
    import builtins
    import os
    import types

    # the log of everything that touches "the outside world"
    LOG = []

    # ----------------------------------------------------------------- fakes
    class FakeFile:
        def __init__(self, name, mode, buffering):
            self.name = name
            self.mode = mode
            self.buffering = buffering
            self.closed = False

        def close(self):
            LOG.append(("file.close", self.name))
            self.closed = True

        def fileno(self):
            return 999

    real_open = builtins.open
    INODES = {}

    def fake_open(file, mode="r", buffering=-1, *args, **kwargs):
        if isinstance(file, str) and file[:5] == "/dev/":
            LOG.append(("open", file, mode, buffering, args, tuple(sorted(kwargs.items()))))
            return FakeFile(file, mode, buffering)
        LOG.append(("open-other", file))
        return real_open(file, mode, buffering, *args, **kwargs)

    real_stat = os.stat

    class FakeStat:
        def __init__(self, ino):
            self.st_ino = ino
            self.st_mode = 0o60660
            self.st_dev = 5
            self.st_nlink = 1
            self.st_uid = 0
            self.st_gid = 6
            self.st_size = 0
            self.st_atime = self.st_mtime = self.st_ctime = 0.0

    def fake_stat(path, *args, **kwargs):
        if isinstance(path, str) and path[:5] == "/dev/":
            LOG.append(("stat", path))
            return FakeStat(INODES.get(path, 4242))
        return real_stat(path, *args, **kwargs)

    def make_fake_sgio():
        m = types.ModuleType("sgio")

        class CheckConditionError(Exception):
            def __init__(self, sense):
                Exception.__init__(self, sense)
                self.sense = sense

        m.CheckConditionError = CheckConditionError
        m.behaviour = {"sense": None, "fill": None}

        def execute(fobj, cdb, dataout, datain, *args, **kwargs):
            LOG.append(("sgio.execute", fobj, bytes(cdb), bytes(dataout), len(datain), args, kwargs))
            if m.behaviour["sense"] is not None:
                raise CheckConditionError(m.behaviour["sense"])
            if m.behaviour["fill"] is not None:
                fill = m.behaviour["fill"]
                datain[: len(fill)] = fill[: len(datain)]
            return 0

        m.execute = execute
        return m

    def make_fake_iscsi():
        m = types.ModuleType("iscsi")
        m.SCSI_XFER_NONE = 0
        m.SCSI_XFER_READ = 1
        m.SCSI_XFER_WRITE = 2
        m.ISCSI_SESSION_NORMAL = 2
        m.ISCSI_HEADER_DIGEST_NONE_CRC32C = 3
        m.behaviour = {"status": 0, "sense": None, "fill": None}

        class Context:
            def __init__(self, initiator_name):
                self.initiator_name = initiator_name
                LOG.append(("iscsi.Context", initiator_name))

            def set_targetname(self, name):
                LOG.append(("iscsi.set_targetname", name))

            def set_session_type(self, t):
                LOG.append(("iscsi.set_session_type", t))

            def set_header_digest(self, d):
                LOG.append(("iscsi.set_header_digest", d))

            def connect(self, portal, lun):
                LOG.append(("iscsi.connect", portal, lun))

            def disconnect(self):
                LOG.append(("iscsi.disconnect",))

            def command(self, lun, task, dataout, datain):
                LOG.append(("iscsi.command", lun, bytes(task.cdb), task.dir, task.xferlen, bytes(dataout), len(datain)))
                task.status = m.behaviour["status"]
                if m.behaviour["sense"] is not None:
                    task.raw_sense = m.behaviour["sense"]
                if m.behaviour["fill"] is not None:
                    fill = m.behaviour["fill"]
                    datain[: len(fill)] = fill[: len(datain)]

        class URL:
            def __init__(self, ctx, url):
                LOG.append(("iscsi.URL", ctx.initiator_name, url))
                self.url = url
                rest = url[len("iscsi://"):]
                parts = rest.split("/")
                self.portal = parts[0]
                self.target = parts[1] if len(parts) > 1 else ""
                try:
                    self.lun = int(parts[2])
                except (IndexError, ValueError):
                    self.lun = 0

        class Task:
            def __init__(self, cdb, dir, xferlen):
                self.cdb = cdb
                self.dir = dir
                self.xferlen = xferlen
                self.status = 0

        m.Context = Context
        m.URL = URL
        m.Task = Task
        return m

    def install(name, state, factory):
        if state == "fake":
            mod = factory()
            sys.modules[name] = mod
            return mod
        # make sure the binding really is not there
        try:
            __import__(name)
        except ImportError:
            pass
        else:
            state = "blocked"
        if state == "blocked":
            sys.modules[name] = None
        else:
            sys.modules.pop(name, None)
        return None

    fake_sgio = install("sgio", sg_state, make_fake_sgio)
    fake_iscsi = install("iscsi", isc_state, make_fake_iscsi)
    have_sg = fake_sgio is not None
    have_isc = fake_iscsi is not None

    builtins.open = fake_open
    os.stat = fake_stat

    # ------------------------------------------------- 1. everything imports
    import importlib
    import inspect
    import pkgutil
    import socket

    import pyscsi

    names = ["pyscsi"]
    for info in pkgutil.walk_packages(pyscsi.__path__, "pyscsi."):
        names.append(info.name)
    check(len(names) >= 55, "module walk found the library (%d modules)" % len(names))
    for n in names:
        mod = importlib.import_module(n)
        check(isinstance(mod, types.ModuleType), "import " + n)
    for expected in (
        "pyscsi.pyscsi.scsi",
        "pyscsi.pyscsi.scsi_device",
        "pyscsi.pyiscsi.iscsi_device",
        "pyscsi.utils",
        "pyscsi.utils.converter",
        "pyscsi.utils.enum",
        "pyscsi.pyscsi.scsi_cdb_atapassthrough16",
    ):
        check(expected in names, "walked " + expected)

    EXPECTED_ALL = [
        "scsi",
        "scsi_cdb_exchangemedium",
        "scsi_cdb_getlbastatus",
        "scsi_cdb_initelementstatus",
        "scsi_cdb_initelementstatuswithrange",
        "scsi_cdb_inquiry",
        "scsi_cdb_modesense6",
        "scsi_cdb_modesense10",
        "scsi_cdb_movemedium",
        "scsi_cdb_openclose_exportimport_element",
        "scsi_cdb_positiontoelement",
        "scsi_cdb_preventallow_mediumremoval",
        "scsi_cdb_read10",
        "scsi_cdb_read12",
        "scsi_cdb_read16",
        "scsi_cdb_readcapacity16",
        "scsi_cdb_readcapacity10",
        "scsi_cdb_readcd",
        "scsi_cdb_readelementstatus",
        "scsi_cdb_readdiscinformation",
        "scsi_cdb_report_luns",
        "scsi_cdb_report_priority",
        "scsi_cdb_synchronize_cache10",
        "scsi_cdb_synchronize_cache16",
        "scsi_cdb_testunitready",
        "scsi_cdb_write10",
        "scsi_cdb_write12",
        "scsi_cdb_write16",
        "scsi_cdb_writesame10",
        "scsi_cdb_writesame16",
        "scsi_command",
        "scsi_device",
        "scsi_exception",
        "scsi_sense",
    ]
    import pyscsi.pyiscsi
    import pyscsi.pyscsi

    check(type(pyscsi.pyscsi.__all__) is list, "pyscsi.pyscsi.__all__ is a list")
    check_eq(pyscsi.pyscsi.__all__, EXPECTED_ALL, "pyscsi.pyscsi.__all__")
    check_eq(pyscsi.pyiscsi.__all__, ["iscsi_device"], "pyscsi.pyiscsi.__all__")

    star = {}
    exec("from pyscsi import *", star)
    for n in EXPECTED_ALL:
        check(isinstance(star.get(n), types.ModuleType), "from pyscsi import * gives module " + n)
        check(star[n] is sys.modules["pyscsi.pyscsi." + n], "star module identity " + n)
        check(getattr(pyscsi, n) is star[n], "pyscsi.%s attribute" % n)
    star2 = {}
    exec("from pyscsi.pyscsi import *", star2)
    check_eq(sorted(k for k in star2 if k != "__builtins__"), sorted(EXPECTED_ALL), "from pyscsi.pyscsi import *")
    star3 = {}
    exec("from pyscsi.utils import *", star3)
    public_utils = sorted(k for k in star3 if k != "__builtins__")
    check("init_device" in public_utils, "init_device exported by pyscsi.utils")
    check(not [k for k in public_utils if k.startswith("_")], "no private names exported")
    # the set of public names of pyscsi.utils (it has no __all__) is stable
    import pyscsi.utils as utils_mod

    pub = sorted(k for k in vars(utils_mod) if not k.startswith("_"))
    check_eq(public_utils, pub, "star export of pyscsi.utils == its public names")
    conv = importlib.import_module("pyscsi.utils.converter")
    enm = importlib.import_module("pyscsi.utils.enum")
    allowed = set(k for k in vars(conv) if not k.startswith("_")) | set(k for k in vars(enm) if not k.startswith("_"))
    allowed |= {"init_device", "socket", "converter", "enum"}
    allowed |= {n.rsplit(".", 1)[1] for n in names if n.startswith("pyscsi.utils.")}
    check_eq(sorted(set(pub) - allowed), [], "pyscsi.utils has no additional public names")
    for k in ("init_device", "socket", "converter", "enum"):
        check(k in pub, "pyscsi.utils public name " + k)
    check(pyscsi.init_device is utils_mod.init_device, "pyscsi.init_device")
    check(star["init_device"] is utils_mod.init_device, "star init_device")

    from pyscsi.pyiscsi.iscsi_device import ISCSIDevice
    from pyscsi.pyscsi.scsi import SCSI
    from pyscsi.pyscsi.scsi_device import SCSIDevice
    from pyscsi.pyscsi.scsi_enum_command import SCSI_STATUS, mmc, sbc, smc, spc, ssc
    from pyscsi.pyscsi.scsi_sense import SCSICheckCondition
    from pyscsi.utils import init_device

    # importing the library must not touch files/devices/connections
    check_eq([e for e in LOG if e[0] != "open-other"], [], "nothing opened by imports")
    # the library never imports a binding that is not there
    if not have_sg:
        check(sys.modules.get("sgio") is None, "sgio still missing")
    if not have_isc:
        check(sys.modules.get("iscsi") is None, "iscsi still missing")

    # public signatures
    sig = inspect.signature(init_device)
    check_eq(list(sig.parameters), ["dev", "read_write", "initiator_name"], "init_device parameters")
    check(sig.parameters["dev"].default is inspect.Parameter.empty, "dev has no default")
    check(sig.parameters["read_write"].default is False, "read_write default")
    DEFAULT_INITIATOR = "iqn.2018-01.org.pyscsi:" + socket.gethostname()
    check_eq(sig.parameters["initiator_name"].default, DEFAULT_INITIATOR, "initiator_name default")
    sig = inspect.signature(SCSIDevice.__init__)
    check_eq(
        [(p.name, p.default) for p in sig.parameters.values()],
        [
            ("self", inspect.Parameter.empty),
            ("device", inspect.Parameter.empty),
            ("readwrite", False),
            ("detect_replugged", True),
            ("buffering", -1),
        ],
        "SCSIDevice.__init__ signature",
    )
    sig = inspect.signature(ISCSIDevice.__init__)
    check_eq(
        [(p.name, p.default) for p in sig.parameters.values()],
        [("self", inspect.Parameter.empty), ("device", inspect.Parameter.empty), ("initiator_name", "")],
        "ISCSIDevice.__init__ signature",
    )
    for cls in (SCSIDevice, ISCSIDevice):
        for meth in ("open", "close", "execute", "__enter__", "__exit__"):
            check(callable(getattr(cls, meth)), "%s.%s" % (cls.__name__, meth))
        for prop in ("opcodes", "devicetype"):
            check(isinstance(getattr(cls, prop), property), "%s.%s property" % (cls.__name__, prop))
        for exc in (
            "CheckCondition",
            "ConditionsMet",
            "BusyStatus",
            "ReservationConflict",
            "TaskSetFull",
            "ACAActive",
            "TaskAborted",
        ):
            check(issubclass(getattr(cls, exc), Exception), "%s.%s" % (cls.__name__, exc))
        check(issubclass(cls.CheckCondition, SCSICheckCondition), "CheckCondition base")
    import pyscsi.pyscsi.scsi_device as sd_mod

    check(callable(sd_mod.get_inode), "get_inode is public")

    # --------------------------------- 2. commands over arbitrary devices
    class PlainDevice:
        """a duck typed device that is no relative of any library class"""

        def __init__(self, devtype=None, opcodes=spc):
            self.opcodes = opcodes
            self.devtype = devtype
            self.executed = []
            self.closed = 0

        def execute(self, cmd, en_raw_sense=False):
            self.executed.append((type(cmd).__name__, bytes(cmd.cdb), en_raw_sense))
            if type(cmd).__name__ == "Inquiry" and self.devtype is not None and len(cmd.datain):
                cmd.datain[0] = self.devtype

        def close(self):
            self.closed += 1

    class PropertyDevice:
        """a device using properties, like tests/mock_device.py"""

        _opcodes = None

        def __init__(self, opcodes):
            self.opcodes = opcodes
            self.log = []

        @property
        def opcodes(self):
            return self._opcodes

        @opcodes.setter
        def opcodes(self, value):
            self._opcodes = value

        def execute(self, cmd, en_raw_sense: bool = False):
            self.log.append(bytes(cmd.cdb))

        def open(self):
            pass

        def close(self):
            self.log.append("close")

    class BareSCSI(SCSI):
        def __init__(self, dev):
            self.device = dev

    # the facade determines the opcode table from the inquiry it sends
    for devtype, table in (
        (0x00, sbc),
        (0x04, sbc),
        (0x07, sbc),
        (0x01, ssc),
        (0x02, ssc),
        (0x09, ssc),
        (0x03, spc),
        (0x08, smc),
        (0x05, mmc),
    ):
        d = PlainDevice(devtype)
        s = SCSI(d)
        check(s.device is d, "facade keeps the device object")
        check(d.opcodes is table, "opcodes for device type %#x" % devtype)
        check_eq(d.devicetype, devtype, "devicetype stored on the device")
        check_eq(d.executed, [("Inquiry", bytes.fromhex("120000006000"), False)], "inquiry sent on construction")
        d2 = PlainDevice(0x05)
        s(d2)
        check(s.device is d2 and d2.opcodes is mmc, "facade re-targeted with __call__")
        with s:
            pass
        check_eq(d2.closed, 1, "facade closes the device on exit")
    d = PlainDevice(0x1F)
    SCSI(d)
    check(d.opcodes is spc, "unknown device type keeps spc")
    s = SCSI(None)
    check(s.device is None, "facade over no device")
    check_eq(SCSI(PlainDevice(0), 4096).blocksize, 4096, "blocksize")

    def rt(cmd):
        """decode + re-encode the cdb of a command"""
        dec = type(cmd).unmarshall_cdb(cmd.cdb)
        check(isinstance(dec, dict) and "opcode" in dec, "decoded cdb of %s" % type(cmd).__name__)
        check_eq(dec["opcode"], cmd.cdb[0], "decoded opcode of %s" % type(cmd).__name__)
        again = type(cmd).marshall_cdb(dec)
        check_eq(bytes(again), bytes(cmd.cdb), "cdb round trip of %s" % type(cmd).__name__)
        check_eq(type(cmd).unmarshall_cdb(again), dec, "dict round trip of %s" % type(cmd).__name__)
        return bytes(cmd.cdb).hex()

    def build_all(s):
        out = {}
        s.device.opcodes = spc
        out["inquiry"] = rt(s.inquiry(alloclen=128))
        out["inquiry_vpd"] = rt(s.inquiry(evpd=1, page_code=0x88, alloclen=300))
        out["testunitready"] = rt(s.testunitready())
        out["modesense6"] = rt(s.modesense6(0x1C))
        out["modesense10"] = rt(s.modesense10(0x1C))
        out["reportluns"] = rt(s.reportluns())
        out["reportpriority"] = rt(s.reportpriority())
        out["reporttargetportgroups"] = rt(s.reporttargetportgroups())
        out["preventallowmediumremoval"] = rt(s.preventallowmediumremoval(prevent=3))
        s.device.opcodes = sbc
        s.blocksize = 512
        out["read10"] = rt(s.read10(1024, 27))
        out["read10_flags"] = rt(s.read10(1024, 27, rdprotect=2, dpo=1, fua=1, rarc=1, group=19))
        out["read12"] = rt(s.read12(1024, 27))
        out["read16"] = rt(s.read16(1024, 27))
        data = bytearray(27 * 512)
        out["write10"] = rt(s.write10(1024, 27, data))
        out["write12"] = rt(s.write12(1024, 27, data))
        out["write16"] = rt(s.write16(1024, 27, data))
        out["writesame10"] = rt(s.writesame10(1024, 27, bytearray(512)))
        out["writesame16"] = rt(s.writesame16(1024, 27, bytearray(512)))
        out["readcapacity10"] = rt(s.readcapacity10())
        out["readcapacity16"] = rt(s.readcapacity16())
        out["getlbastatus"] = rt(s.getlbastatus(1024))
        out["synchronizecache10"] = rt(s.synchronizecache10(1024, 27))
        out["synchronizecache16"] = rt(s.synchronizecache16(1024, 27))
        s.device.opcodes = mmc
        out["readcd"] = rt(s.readcd(1024, 27))
        out["readdiscinformation"] = rt(s.readdiscinformation(0))
        s.device.opcodes = smc
        out["exchangemedium"] = rt(s.exchangemedium(1, 2, 3, 4))
        out["movemedium"] = rt(s.movemedium(1, 2, 3))
        out["positiontoelement"] = rt(s.positiontoelement(1, 2))
        out["initializeelementstatus"] = rt(s.initializeelementstatus())
        out["initializeelementstatuswithrange"] = rt(s.initializeelementstatuswithrange(1, 2))
        out["opencloseimportexportelement"] = rt(s.opencloseimportexportelement(1, 1))
        out["readelementstatus"] = rt(s.readelementstatus(1, 2))
        s.device.opcodes = spc
        return out

    built_plain = build_all(SCSI(PlainDevice(0)))
    built_prop = build_all(BareSCSI(PropertyDevice(spc)))
    check_eq(len(built_plain), 32, "all commands built")
    check_eq(built_plain, built_prop, "same cdbs over different device objects")
    for key, hexval in (
        ("inquiry", "120000008000"),
        ("inquiry_vpd", "120188012c00"),
        ("testunitready", "000000000000"),
        ("read10", "2800000004000000" + "1b00"),
        ("read10_flags", "285c0000040013001b00"),
        ("read12", "a800000004000000001b0000"),
        ("read16", "880000000000000004000000001b0000"),
        ("write10", "2a000000040000001b00"),
        ("write12", "aa00000004000000001b0000"),
        ("write16", "8a0000000000000004000000001b0000"),
        ("readcapacity10", "25000000000000000000"),
        ("synchronizecache10", "35000000040000001b00"),
        ("preventallowmediumremoval", "1e0000000300"),
        ("movemedium", "a50000010002000300000000"),
        ("initializeelementstatus", "070000000000"),
    ):
        check_eq(built_plain[key], hexval, "cdb of " + key)

    # decoding of returned data works through the facade as well
    class DataDevice(PlainDevice):
        def __init__(self, payloads):
            PlainDevice.__init__(self, None, sbc)
            self.payloads = payloads

        def execute(self, cmd, en_raw_sense=False):
            p = self.payloads.get(type(cmd).__name__)
            if p is not None:
                cmd.datain[: len(p)] = p[: len(cmd.datain)]

    inq = bytearray(96)
    inq[0] = 0x00
    inq[2] = 0x05
    inq[3] = 0x02
    inq[4] = 91
    inq[8:16] = b"ACME    "
    inq[16:32] = b"Rocket Disk     "
    inq[32:36] = b"1.0 "
    dd = DataDevice(
        {
            "Inquiry": inq,
            "ReadCapacity10": bytes.fromhex("0000ffff00000200"),
            "ReadCapacity16": bytes.fromhex("00000000000fffff00001000") + bytes(20),
        }
    )
    s = SCSI(dd, 512)
    check(dd.opcodes is sbc, "data device detected as sbc")
    r = s.inquiry().result
    check_eq(r["peripheral_device_type"], 0, "inquiry decode type")
    check_eq(r["t10_vendor_identification"][:4], b"ACME", "inquiry decode vendor")
    check_eq(r["version"], 5, "inquiry decode version")
    r = s.readcapacity10().result
    check_eq((r["returned_lba"], r["block_length"]), (0xFFFF, 512), "readcapacity10 decode")
    r = s.readcapacity16().result
    check_eq((r["returned_lba"], r["block_length"]), (0xFFFFF, 4096), "readcapacity16 decode")

    # errors raised by the device travel through the facade unchanged
    class Boom(Exception):
        pass

    class FailingDevice(PlainDevice):
        def execute(self, cmd, en_raw_sense=False):
            raise Boom(type(cmd).__name__)

    try:
        SCSI(FailingDevice())
    except Boom as e:
        check_eq(e.args, ("Inquiry",), "device error propagated")
    else:
        check(False, "device error swallowed")

    # ------------------------------------------------------- 3. refusals
    def mark():
        return len(LOG)

    def since(m):
        return [e for e in LOG[m:] if e[0] != "open-other"]

    def refused(fn, dev, *args, **kwargs):
        """fn(dev, ...) must raise exactly NotImplementedError and open nothing"""
        m = mark()
        try:
            got = fn(dev, *args, **kwargs)
        except NotImplementedError as e:
            check(type(e) is NotImplementedError, "exact exception type for %r" % (dev,))
            check_eq(e.args, ("No backend implemented for %s" % dev,), "refusal message for %r" % (dev,))
            check(e.__cause__ is None and e.__context__ is None, "no chained exception for %r" % (dev,))
        else:
            check(False, "%s(%r) was not refused, got %r" % (getattr(fn, "__name__", fn), dev, got))
        check_eq(since(m), [], "nothing opened while refusing %r" % (dev,))

    def raises(exc, fn, *args, **kwargs):
        m = mark()
        try:
            fn(*args, **kwargs)
        except exc as e:
            check(type(e) is exc, "exact %s for %r" % (exc.__name__, args))
        else:
            check(False, "%s not raised for %r" % (exc.__name__, args))
        check_eq(since(m), [], "nothing opened while rejecting %r" % (args,))

    UNKNOWN = [
        "",
        " ",
        "/",
        "/dev",
        "dev/sda",
        "/de",
        "/DEV/sda",
        "/Dev/sda",
        " /dev/sda",
        "\t/dev/sda",
        "//dev/sda",
        "./dev/sda",
        "/devices/sda",
        "/dev\\sda",
        "\\dev\\sda",
        "/dev\x00/sda",
        "/tmp/file",
        "/tmp/dev/sda",
        "file:///dev/sda",
        "sda",
        "sg0",
        "C:\\dev\\sda",
        "iscsi:/host/target/0",
        "iscsi:",
        "iscsi:/",
        "iscsi//host/target/0",
        "iscsi:///"[:7],
        "ISCSI://host/target/0",
        "Iscsi://host/target/0",
        " iscsi://host/target/0",
        "iscsis://host/target/0",
        "iser://host/target/0",
        "scsi://host/target/0",
        "http://host/target/0",
        "https://iscsi://host",
        "nvme://host",
        "\u2044dev\u2044sda",
        "/d\u0435v/sda",  # cyrillic e
        "%s",
        "%d %s",
        "{}",
        "x" * 5000,
        "/dev" + "x" * 3000,
        "\n/dev/sda",
        "/dev/sda"[::-1],
    ]
    SG_PATHS = [
        "/dev/sda",
        "/dev/sg0",
        "/dev/",
        "/dev//",
        "/dev/null",
        "/dev/disk/by-id/scsi-3600 with space",
        "/dev/../etc/passwd",
        "/dev/sd\u00e4",
        "/dev/%s",
        "/dev/" + "n" * 2000,
        "/dev/iscsi://host/target/0",
        "/dev/sda\n",
    ]
    ISCSI_URLS = [
        "iscsi://127.0.0.1/iqn.2001-04.com.example:storage/0",
        "iscsi://host:3260/iqn.target/7",
        "iscsi://",
        "iscsi:///",
        "iscsi://user%pw@host/target/1",
        "iscsi://[::1]:3260/iqn.x/2",
        "iscsi:///dev/sda",
        "iscsi://h\u00f6st/t\u00e4rget/3",
        "iscsi://" + "h" * 2000 + "/t/0",
    ]

    class StrSub(str):
        pass

    for dev in UNKNOWN:
        refused(init_device, dev)
        refused(init_device, dev, True)
        refused(init_device, dev, read_write=True, initiator_name="iqn.x")
        refused(lambda d: init_device(dev=d), dev)
        refused(SCSIDevice, dev)
        refused(SCSIDevice, dev, True, False, 0)
        refused(ISCSIDevice, dev)
        refused(ISCSIDevice, dev, "iqn.me")
        refused(init_device, StrSub(dev))
    # the wrong transport for a path that another transport handles
    for dev in SG_PATHS:
        refused(ISCSIDevice, dev)
        refused(ISCSIDevice, dev, initiator_name="iqn.me")
        refused(lambda d: ISCSIDevice(device=d), dev)
    for dev in ISCSI_URLS:
        refused(SCSIDevice, dev)
        refused(SCSIDevice, dev, readwrite=True)
        refused(lambda d: SCSIDevice(device=d, buffering=0), dev)
    # missing bindings
    if not have_sg:
        for dev in SG_PATHS:
            refused(init_device, dev)
            refused(init_device, dev, True)
            refused(init_device, dev, read_write=True)
            refused(SCSIDevice, dev)
            refused(SCSIDevice, dev, True)
            refused(SCSIDevice, dev, False, False)
            refused(init_device, StrSub(dev))
    if not have_isc:
        for dev in ISCSI_URLS:
            refused(init_device, dev)
            refused(init_device, dev, False, "iqn.me")
            refused(init_device, dev, initiator_name="")
            refused(ISCSIDevice, dev)
            refused(ISCSIDevice, dev, "iqn.me")
            refused(init_device, StrSub(dev))

    # unusual, non-string device arguments: never anything opened
    refused(init_device, b"/dev/sda")
    refused(init_device, b"iscsi://host/t/0")
    refused(init_device, bytearray(b"/dev/sda"))
    refused(init_device, ["/dev/"])
    refused(init_device, ["/", "d", "e", "v", "/"])
    refused(init_device, [])
    refused(init_device, ("/dev/sda",))
    refused(init_device, range(3))
    for cls in (SCSIDevice, ISCSIDevice):
        refused(cls, b"/dev/sda")
        refused(cls, b"iscsi://host/t/0")
        refused(cls, ["/dev/"])
        refused(cls, ("iscsi://",))
    import pathlib

    for bad in (None, 5, 1.5, pathlib.Path("/dev/sda"), object(), {1, 2}):
        raises(TypeError, init_device, bad)
    raises((KeyError, TypeError)[sys.version_info < (3, 12)], init_device, {"/dev/": 1})
    raises(TypeError, init_device, ("/dev/", "sda"))  # message formatting of a 2-tuple
    raises(TypeError, init_device, ())
    raises(TypeError, init_device)
    raises(TypeError, init_device, "/tmp/x", False, "iqn", "extra")
    raises(TypeError, init_device, "/tmp/x", bogus=1)
    raises(TypeError, SCSIDevice)
    raises(TypeError, ISCSIDevice)
    for bad in (None, 5, pathlib.Path("/dev/sda")):
        # without the binding the argument is not even looked at
        if have_sg:
            raises(TypeError, SCSIDevice, bad)
        else:
            refused(SCSIDevice, bad)
        if have_isc:
            raises(TypeError, ISCSIDevice, bad)
        else:
            refused(ISCSIDevice, bad)
    if have_sg:
        raises(TypeError, SCSIDevice, ("/dev/", "sda"))
    if have_isc:
        raises(TypeError, ISCSIDevice, ("/dev/", "sda"))

    # a subclass that tolerates the refusal still is a usable device object
    class TolerantSG(SCSIDevice):
        def __init__(self, dev):
            try:
                SCSIDevice.__init__(self, dev)
            except NotImplementedError:
                self.refused = True

        def execute(self, cmd, en_raw_sense=False):
            if type(cmd).__name__ == "Inquiry":
                cmd.datain[0] = 0x05

        def close(self):
            pass

    class TolerantISCSI(ISCSIDevice):
        def __init__(self, dev):
            try:
                ISCSIDevice.__init__(self, dev)
            except NotImplementedError:
                self.refused = True

        def execute(self, cmd, en_raw_sense=False):
            if type(cmd).__name__ == "Inquiry":
                cmd.datain[0] = 0x01

        def close(self):
            pass

    m = mark()
    t = TolerantSG("mock://x")
    check(t.refused is True, "subclass saw the refusal")
    check(t.opcodes is spc, "refused device has default opcodes")
    check_eq(repr(t), "TolerantSG", "repr of device")
    with SCSI(t) as s:
        check(t.opcodes is mmc and t.devicetype == 5, "facade over tolerant SG subclass")
    t = TolerantISCSI("mock://x")
    check(t.refused is True, "iscsi subclass saw the refusal")
    check(t.opcodes is spc, "refused iscsi device has default opcodes")
    with SCSI(t) as s:
        check(t.opcodes is ssc and t.devicetype == 1, "facade over tolerant iSCSI subclass")
    check_eq(since(m), [], "tolerant subclasses opened nothing")

    # ------------------------------------------------------ 4. SG_IO present
    FIXED_SENSE = bytes.fromhex("70000500000000180000000024000000") + bytes(16)
    if have_sg:
        for dev in SG_PATHS + [StrSub("/dev/sub")]:
            for rw, mode in ((False, "rb"), (True, "w+b"), (0, "rb"), (1, "w+b"), ("", "rb"), ("yes", "w+b")):
                m = mark()
                d = init_device(dev, rw)
                check(type(d) is SCSIDevice, "init_device(%r) gives a SCSIDevice" % (dev,))
                ev = since(m)
                check_eq(
                    ev,
                    [("open", dev, mode, -1, (), ()), ("stat", dev)],
                    "opened exactly %r" % (dev,),
                )
                check(type(ev[0][1]) is type(dev), "path object passed through unchanged")
                check(d.opcodes is spc, "default opcodes")
                check_eq(repr(d), "SCSIDevice", "repr")
            m = mark()
            d = init_device(dev, initiator_name="ignored")
            check_eq(since(m), [("open", dev, "rb", -1, (), ()), ("stat", dev)], "default is read only")
            m = mark()
            d = init_device(dev=dev, read_write=True)
            check_eq(since(m), [("open", dev, "w+b", -1, (), ()), ("stat", dev)], "keywords")
            m = mark()
            d = SCSIDevice(dev, True, False, 0)
            check_eq(since(m), [("open", dev, "w+b", 0, (), ()), ("stat", dev)], "direct construction, unbuffered")
            m = mark()
            d = SCSIDevice(device=dev, buffering=8192, detect_replugged=True, readwrite=False)
            check_eq(since(m), [("open", dev, "rb", 8192, (), ()), ("stat", dev)], "direct construction, keywords")

        # using the device: context manager, execution, replug detection
        m = mark()
        with init_device("/dev/sg7") as d:
            check_eq(len(since(m)), 2, "one open + one stat")
            tur = __import__("pyscsi.pyscsi.scsi_cdb_testunitready", fromlist=["x"]).TestUnitReady(spc.TEST_UNIT_READY)
            m2 = mark()
            check(d.execute(tur) is None, "execute returns None")
            ev = since(m2)
            check_eq([e[0] for e in ev], ["stat", "sgio.execute"], "replug check then execution")
            check_eq(ev[0], ("stat", "/dev/sg7"), "stat on the device path")
            fobj = ev[1][1]
            check(isinstance(fobj, FakeFile) and fobj.name == "/dev/sg7" and not fobj.closed, "executed on the open file")
            check_eq(ev[1][2:5], (bytes(6), b"", 0), "cdb / dataout / datain handed to sgio")
            # the device node is replaced: reopen the very same path
            INODES["/dev/sg7"] = 777
            m2 = mark()
            d.execute(tur)
            ev = since(m2)
            check_eq(
                [e[:2] for e in ev[:4]],
                [("stat", "/dev/sg7"), ("file.close", "/dev/sg7"), ("open", "/dev/sg7"), ("stat", "/dev/sg7")],
                "replugged device reopened on the same path",
            )
            check_eq(ev[2], ("open", "/dev/sg7", "rb", -1, (), ()), "reopened with the same mode")
            check(ev[4][0] == "sgio.execute" and ev[4][1] is not fobj and not ev[4][1].closed, "executed on the new file")
            check(fobj.closed, "old file closed")
            newf = ev[4][1]
            m2 = mark()
            d.execute(tur)
            check_eq([e[0] for e in since(m2)], ["stat", "sgio.execute"], "no reopen when nothing changed")
            # check condition handling
            fake_sgio.behaviour["sense"] = FIXED_SENSE
            try:
                d.execute(tur)
            except SCSIDevice.CheckCondition as e:
                check(isinstance(e, SCSICheckCondition), "CheckCondition raised")
                check_eq((e.asc, e.ascq, e.data.get("sense_key")), (0x24, 0, 5), "sense passed on")
            else:
                check(False, "check condition not raised")
            tur.raw_sense_data = None
            check(d.execute(tur, en_raw_sense=True) is None, "raw sense mode does not raise")
            check_eq(tur.raw_sense_data, FIXED_SENSE, "raw sense stored")
            fake_sgio.behaviour["sense"] = None
            m3 = mark()
        check_eq(since(m3), [("file.close", "/dev/sg7")], "context manager closes the file")
        check(newf.closed, "file closed")
        INODES.clear()

        # replug detection disabled: no stat before executing
        d = SCSIDevice("/dev/sg8", detect_replugged=False)
        INODES["/dev/sg8"] = 1
        m2 = mark()
        d.execute(tur)
        check_eq([e[0] for e in since(m2)], ["sgio.execute"], "no replug check when disabled")
        INODES.clear()
        d.close()

        # the whole facade over the real device class
        fake_sgio.behaviour["fill"] = bytes([0x00, 0x00, 0x05, 0x02, 91])
        m = mark()
        with SCSI(init_device("/dev/sdz", True), 512) as s:
            check(type(s.device) is SCSIDevice, "facade device")
            check(s.device.opcodes is sbc and s.device.devicetype == 0, "facade detected a disk")
            r = s.read10(1024, 27)
            check_eq(bytes(r.cdb).hex(), "28000000040000001b00", "read10 over sgio")
            w = s.write16(5, 1, bytearray(b"\xaa" * 512))
        ev = since(m)
        check_eq(ev[0], ("open", "/dev/sdz", "w+b", -1, (), ()), "facade: opened the requested path")
        check_eq([e[0] for e in ev if e[0] in ("open", "file.close")], ["open", "file.close"], "opened once, closed once")
        execs = [e for e in ev if e[0] == "sgio.execute"]
        check_eq([e[2][0] for e in execs], [0x12, 0x28, 0x8A], "inquiry, read10, write16 executed")
        check_eq(execs[1][4], 27 * 512, "read10 datain size")
        check_eq(execs[2][3], b"\xaa" * 512, "write16 dataout")
        check(all(e[1].name == "/dev/sdz" for e in execs), "all executed on the requested device")
        fake_sgio.behaviour["fill"] = None

    # ------------------------------------------------------ 5. iSCSI present
    if have_isc:

        def opened(ctx_name, url):
            u = fake_iscsi.URL.__new__(fake_iscsi.URL)
            saved = len(LOG)
            u.__init__(types.SimpleNamespace(initiator_name=ctx_name), url)
            del LOG[saved:]
            return [
                ("iscsi.Context", ctx_name),
                ("iscsi.URL", ctx_name, url),
                ("iscsi.set_targetname", u.target),
                ("iscsi.set_session_type", fake_iscsi.ISCSI_SESSION_NORMAL),
                ("iscsi.set_header_digest", fake_iscsi.ISCSI_HEADER_DIGEST_NONE_CRC32C),
                ("iscsi.connect", u.portal, u.lun),
            ]

        for url in ISCSI_URLS + [StrSub("iscsi://sub/t/4")]:
            m = mark()
            d = init_device(url)
            check(type(d) is ISCSIDevice, "init_device(%r) gives an ISCSIDevice" % (url,))
            check_eq(since(m), opened(DEFAULT_INITIATOR, url), "connected to exactly %r" % (url,))
            check(d.opcodes is spc, "default opcodes")
            for args, kwargs, ini in (
                ((True,), {}, DEFAULT_INITIATOR),
                ((False, "iqn.1999-01.org.me:x"), {}, "iqn.1999-01.org.me:x"),
                ((), {"initiator_name": "iqn.kw"}, "iqn.kw"),
                ((), {"initiator_name": "", "read_write": True}, url),
            ):
                m = mark()
                d = init_device(url, *args, **kwargs)
                check(type(d) is ISCSIDevice, "class")
                check_eq(since(m), opened(ini, url), "connected to %r as %r" % (url, ini))
            m = mark()
            d = ISCSIDevice(url)
            check_eq(since(m), opened(url, url), "direct construction without initiator name")
            m = mark()
            d = ISCSIDevice(device=url, initiator_name="iqn.direct")
            check_eq(since(m), opened("iqn.direct", url), "direct construction with initiator name")
            m = mark()
            d = ISCSIDevice(url, b"iqn.bytes")
            check_eq(since(m), opened(b"iqn.bytes", url), "initiator name passed through unchanged")
        raises(TypeError, ISCSIDevice, "iscsi://h/t/0", None)  # len(None)

        TestUnitReady = importlib.import_module("pyscsi.pyscsi.scsi_cdb_testunitready").TestUnitReady
        Read10 = importlib.import_module("pyscsi.pyscsi.scsi_cdb_read10").Read10
        Write10 = importlib.import_module("pyscsi.pyscsi.scsi_cdb_write10").Write10
        m = mark()
        with init_device("iscsi://portal:3260/iqn.tgt/5", initiator_name="iqn.me") as d:
            check_eq(since(m), opened("iqn.me", "iscsi://portal:3260/iqn.tgt/5"), "context manager: connected")
            tur = TestUnitReady(spc.TEST_UNIT_READY)
            m2 = mark()
            check(d.execute(tur) is None, "GOOD status returns None")
            check_eq(since(m2), [("iscsi.command", 5, bytes(6), fake_iscsi.SCSI_XFER_NONE, 0, b"", 0)], "no data command")
            rd = Read10(sbc.READ_10, 512, 8, 2)
            m2 = mark()
            d.execute(rd)
            check_eq(
                since(m2),
                [("iscsi.command", 5, bytes(rd.cdb), fake_iscsi.SCSI_XFER_READ, 1024, b"", 1024)],
                "read command",
            )
            wr = Write10(sbc.WRITE_10, 512, 8, 1, bytearray(b"\x55" * 512))
            m2 = mark()
            d.execute(wr)
            check_eq(
                since(m2),
                [("iscsi.command", 5, bytes(wr.cdb), fake_iscsi.SCSI_XFER_WRITE, 512, b"\x55" * 512, 0)],
                "write command",
            )
            for status, exc in (
                (SCSI_STATUS.RESERVATION_CONFLICT, ISCSIDevice.ReservationConflict),
                (SCSI_STATUS.TASK_ABORTED, ISCSIDevice.TaskAborted),
                (SCSI_STATUS.BUSY, ISCSIDevice.BusyStatus),
                (SCSI_STATUS.TASK_SET_FULL, ISCSIDevice.TaskSetFull),
                (SCSI_STATUS.ACA_ACTIVE, ISCSIDevice.ACAActive),
                (SCSI_STATUS.CONDITIONS_MET, ISCSIDevice.ConditionsMet),
                (0x7F, RuntimeError),
            ):
                fake_iscsi.behaviour["status"] = status
                try:
                    d.execute(tur)
                except exc as e:
                    check(type(e) is exc, "status %r -> %s" % (status, exc.__name__))
                else:
                    check(False, "status %r did not raise" % (status,))
            fake_iscsi.behaviour["status"] = SCSI_STATUS.CHECK_CONDITION
            fake_iscsi.behaviour["sense"] = FIXED_SENSE
            for raw in (False, True):
                tur = TestUnitReady(spc.TEST_UNIT_READY)
                try:
                    d.execute(tur, en_raw_sense=raw)
                except ISCSIDevice.CheckCondition as e:
                    check_eq((e.asc, e.ascq, e.data.get("sense_key")), (0x24, 0, 5), "iscsi sense")
                    check_eq(tur.sense, FIXED_SENSE, "sense stored on the command")
                    check_eq(tur.raw_sense_data, FIXED_SENSE if raw else None, "raw sense on the command")
                else:
                    check(False, "iscsi check condition not raised")
            fake_iscsi.behaviour["status"] = SCSI_STATUS.GOOD
            fake_iscsi.behaviour["sense"] = None
            m3 = mark()
        check_eq(since(m3), [("iscsi.disconnect",)], "context manager disconnects")

        # facade over the real iSCSI device class
        fake_iscsi.behaviour["fill"] = bytes([0x08, 0x00, 0x05, 0x02, 91])
        m = mark()
        with SCSI(init_device("iscsi://lib/iqn.changer/1")) as s:
            check(type(s.device) is ISCSIDevice, "facade device")
            check(s.device.opcodes is smc and s.device.devicetype == 8, "facade detected a media changer")
            s.movemedium(1, 2, 3)
        ev = since(m)
        check_eq(ev[:6], opened(DEFAULT_INITIATOR, "iscsi://lib/iqn.changer/1"), "facade: connected to the url")
        check_eq([e[0] for e in ev[6:]], ["iscsi.command", "iscsi.command", "iscsi.disconnect"], "inquiry, move, close")
        check_eq(ev[7][2].hex(), "a50000010002000300000000", "move medium over iscsi")
        fake_iscsi.behaviour["fill"] = None

    # both transports side by side
    if have_sg and have_isc:
        m = mark()
        a = init_device("/dev/sda")
        b = init_device("iscsi://h/t/0")
        check(type(a) is SCSIDevice and type(b) is ISCSIDevice, "both transports")
        check_eq([e[0] for e in since(m)][:3], ["open", "stat", "iscsi.Context"], "each opened its own thing")

    # nothing but /dev/ paths was ever opened through builtins.open by the library
    check_eq([e for e in LOG if e[0] == "open-other"], [], "no other files opened")

    builtins.open = real_open
    os.stat = real_stat
    print("CHILD-OK %d checks" % CHECKS[0])
    return 0


if __name__ == "__main__":
    if len(sys.argv) >= 4 and sys.argv[1] == "--child":
        try:
            rc = child(sys.argv[2], sys.argv[3])
        except BaseException:
            import traceback

            traceback.print_exc()
            print("CHILD-FAILED")
            rc = 1
        sys.exit(rc)
    sys.exit(parent())
